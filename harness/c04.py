"""
C04 — generated C/C++ codecs are memory-safe, total and free of prior-state influence.

Proof: lean/NunavutVerif/Properties/C04.lean
  * the C++14 built-in VariantType as a state machine whose programs are regenerated from the real generator's output
    (translate/variant_tables.py -> Gen/VariantTables.lean): every operation sequence is fault-free, keeps "exactly the
    active alternative is live", leaves nothing at the end; every generated table is well-formed (decide);
  * decoding into ANY destination object refines the specification (prior-state independence), C object model and C++
    container model;
  * index safety of the emitted checks, incl. the capacity-override option.

Tie (what only the runtime can show), all of it on the real generated code compiled with
`-fsanitize=address,undefined -fno-sanitize-recover=all` (+ LeakSanitizer):
  V  variant operation sequences: the `variant` driver's prediction versus (a) a build whose variable-length arrays are
     the instrumented container harness/cpp/c04_tracked.hpp (deterministic detection of wild destructor calls,
     constructions over a live object, copies from a dead object, leaks, after every operation) and (b) plain sanitizer
     builds of the C++14 built-in variant and of the C++17 std::variant wrapper;
  K  the codecs of a corpus namespace and of a seeded random namespace (harness/dsdlgen.py) on C11, C++14, C++17,
     C++20 (and c++17-pmr when it builds): serialization of valid and invalid objects (counts above the capacity, tags
     outside the option range) into exact-size heap buffers of size 0 .. max+1, deserialization of valid encodings,
     truncations, extensions, bit flips and random strings from exact-size heap buffers into fresh, byte-poisoned
     (0x00/0xAA/0xFF/0xA5) and previously-used objects; the `codec` driver (or codec_ref) predicts the outcome class;
  X  decode-twice into one C++ object versus the `twice` request of the `variant` driver (Model/CppObj.lean);
  O  the C capacity-override option with user-reduced capacities versus the flat index-safety model (`cser`/`cde`): byte,
     16-bit, 7-bit and BIT arrays (bit-packed storage), counts in (real storage, DSDL capacity], every NULL-argument
     combination (`cserapi`/`cdeapi`); the dimension / comparison shape read off the generated text is compared with the
     field the translated table Gen/CArrayKinds yields (`rowfield`);
  P  every getter / setter / bit copy of the support headers (C and C++) rendered with --target-endianness any, little and
     big, each call with the user buffer at address offset 0..7 inside its heap block (flush with the end, guard bytes in
     front), versus the `bits` driver and the independent contract reference of harness/c14.py; -fsanitize=alignment at -O0.
Totality: the set of acceptable error answers is built from the translator's table of documented codes (Gen/ErrorCodes:
#define NUNAVUT_ERROR_* / enum class Error of the support templates); the C04 programs name codes through a header
generated from that table (anything else prints err:undocumented-code-<n>); the shared codec shims' switch is checked
against it.
Failing-input search (the property's own predicate on the implementation): any sanitizer report / crash / guard
violation, any dump that depends on the prior state of the destination, any undocumented error code, success of a
routine that can only succeed by leaving the object.  Keys: kind (asan-<what> | ubsan-<what> | leak | wild-free |
use-after-destroy | prior-state-influence | object-overflow | undocumented-error | crash-<rc>) + target + construct.

This module reuses harness/dsdlgen.py, codec_ref.py, codec_targets.py unmodified; the two extra shim requests
(`dep`, `de2`, `serx`) live in harness/c/c04_handler.h and harness/cpp/c04_shim_handle.hpp and are spliced into the
generated shim text by the Target subclasses below.
"""
import concurrent.futures
import json
import os
import pathlib
import re
import shutil
import subprocess
import sys
import time

from . import common
from . import dsdlgen
from . import codec_ref
from . import codec_targets as ct

HERE = pathlib.Path(__file__).resolve().parent
CORPUS = common.VERIF / "corpus" / "C04"
SAN_COMMON = ["-fsanitize=address,undefined", "-fno-sanitize-recover=all", "-fno-omit-frame-pointer"]
SAN = ["-O0"] + SAN_COMMON          # unoptimised builds compile four times faster and keep every access the source makes
SAN_OPT = ["-O1", "-g"] + SAN_COMMON  # the additional targets of the thorough tier
SAN_ENV = {"ASAN_OPTIONS": "detect_leaks=1:allocator_may_return_null=1:abort_on_error=0:exitcode=66",
           "UBSAN_OPTIONS": "print_stacktrace=0:halt_on_error=1:exitcode=67",
           "LSAN_OPTIONS": "exitcode=68"}
# Protocol name of each documented code.  The SET of documented codes is not written here: it is the translator's table
# (translate/c_array_kinds.py: #define NUNAVUT_ERROR_* / enum class Error of the support templates), see documented_codes().
PROTO_NAME = {"NUNAVUT_ERROR_INVALID_ARGUMENT": "err:invalid-argument", "NUNAVUT_ERROR_SERIALIZATION_BUFFER_TOO_SMALL": "err:buffer-too-small",
              "NUNAVUT_ERROR_REPRESENTATION_BAD_ARRAY_LENGTH": "err:bad-array-length", "NUNAVUT_ERROR_REPRESENTATION_BAD_UNION_TAG": "err:bad-union-tag",
              "NUNAVUT_ERROR_REPRESENTATION_BAD_DELIMITER_HEADER": "err:bad-delimiter-header",
              "SerializationBufferTooSmall": "err:buffer-too-small", "SerializationBadArrayLength": "err:bad-array-length",
              "RepresentationBadUnionTag": "err:bad-union-tag", "RepresentationBadDelimiterHeader": "err:bad-delimiter-header"}
# filled by documented_codes(); the harness never passes NULL outside the `null` requests, so err:invalid-argument is acceptable there only
DOCUMENTED = set()
CODES = {"c": {}, "cpp": {}}     # value -> protocol name
NCPU = max(2, min(16, os.cpu_count() or 4))


# ------------------------------------------------------------------------------------------------------------
# running instrumented programs
# ------------------------------------------------------------------------------------------------------------

def classify(stderr: str, rc) -> str:
    m = re.search(r"ERROR: AddressSanitizer: ([A-Za-z-]+)", stderr)
    if m:
        return "asan-" + m.group(1).lower()
    if "LeakSanitizer: detected memory leaks" in stderr:
        return "leak"
    m = re.search(r"runtime error: ([^\n]*)", stderr)
    if m:
        msg = re.sub(r"0x[0-9a-f]+|\d+", "N", m.group(1))
        msg = re.sub(r"'[^']*'", "T", msg)
        return "ubsan-" + re.sub(r"[^a-z]+", "-", msg.lower()).strip("-")[:60]
    if "Assertion" in stderr and "failed" in stderr:
        return "assert"
    return f"crash-{rc}"


def san_env():
    env = dict(os.environ)
    env.update(SAN_ENV)
    return env


def run_lines(exe, lines, env=None, timeout=900, max_crashes=200):
    """
    Feed request lines to a line-protocol program that may die.  Returns (answers, exit_kind):
    a request on which the process died is answered `crash:<kind>`; the process is restarted for the rest.
    An answer ending in ` restart` means the program stopped on purpose after answering (the marker is removed).
    exit_kind: classification of a non-zero exit that happened AFTER all requests were answered (leak report), else ''.
    """
    env = env or san_env()
    answers, start, n, crashes, exit_kind = [], 0, len(lines), 0, ""
    while start < n:
        data = ("\n".join(lines[start:]) + "\n").encode()
        try:
            p = subprocess.run([str(exe)], input=data, capture_output=True, timeout=timeout, env=env)
            out, rc, err = p.stdout.decode(errors="replace").split("\n"), p.returncode, p.stderr.decode(errors="replace")
        except subprocess.TimeoutExpired as ex:
            out, rc, err = (ex.stdout or b"").decode(errors="replace").split("\n"), "timeout", ""
        if out and out[-1] == "":
            out.pop()
        elif out:
            out.pop()
        out = out[: n - start]
        stopped = bool(out) and out[-1].endswith(" restart")
        if stopped:
            out[-1] = out[-1][: -len(" restart")]
        answers += out
        start += len(out)
        if start < n and not stopped:
            answers.append("crash:" + classify(err[-6000:], rc))
            start += 1
            crashes += 1
            if crashes > max_crashes:
                answers += ["crash:too-many"] * (n - start)
                break
        elif start >= n and rc not in (0,) and not stopped:
            exit_kind = classify(err[-6000:], rc)
    return answers, exit_kind


def find_leaking(exe, lines, env=None):
    """A request list ended with a leak report at exit: bisect to one request that leaks (or None)."""
    lines = list(lines)
    while len(lines) > 1:
        half = lines[: len(lines) // 2]
        _, kind = run_lines(exe, half, env)
        lines = half if kind else lines[len(lines) // 2:]
    _, kind = run_lines(exe, lines, env)
    return (lines[0], kind) if kind else None


def compile_cmd(cmd, timeout=1500):
    try:
        p = subprocess.run(cmd, capture_output=True, text=True, timeout=timeout)
        return p.returncode == 0, (p.stdout + p.stderr)[-4000:]
    except subprocess.TimeoutExpired:
        return False, "compiler timed out"


# ------------------------------------------------------------------------------------------------------------
# the documented error codes (totality: every observed return code must be in the table)
# ------------------------------------------------------------------------------------------------------------

def proto_name(name):
    if name in PROTO_NAME:
        return PROTO_NAME[name]
    return "err:" + re.sub(r"^nunavut-error-", "", re.sub(r"(?<=[a-z])(?=[A-Z])|_", "-", name).lower())


def documented_codes(ctx, codes, vdrv):
    """
    codes = translator table.  Fills CODES / DOCUMENTED, checks that (a) the committed Lean table (driver request `codes`)
    is the one of the tree under check, (b) the number -> name switch of the shared codec shims (harness/c/codec_shim_rt.h,
    harness/cpp/codec_shim_rt.hpp, not this module's files) covers exactly the documented codes with the same names, so
    that an answer `err:<name>` of a base request stands for a documented value and anything else surfaces as
    err:unknown-code.
    """
    DOCUMENTED.clear()
    for lang in ("c", "cpp"):
        CODES[lang] = {v: proto_name(n) for n, v in codes[lang]}
    for n, v in codes["c"]:
        if n != "NUNAVUT_ERROR_INVALID_ARGUMENT":
            DOCUMENTED.add(proto_name(n))
    ctx.extra["documented_codes"] = {"c": dict(codes["c"]), "cpp": dict(codes["cpp"])}
    if vdrv is not None:
        ans = vdrv.ask(["codes c", "codes cpp", "codes c-returned", "codes cpp-returned"])
        want = [",".join(f"{n}={v}" for n, v in codes["c"]), ",".join(f"{n}={v}" for n, v in codes["cpp"]),
                ",".join(codes["c_returned"]), ",".join(codes["cpp_returned"])]
        ctx.traces += 4
        for q, a, w in zip(("c", "cpp", "c-returned", "cpp-returned"), ans, want):
            if a != w:
                ctx.disagree("error-code-table", {"request": "codes " + q}, a, w)
    for lang, fn in (("c", HERE / "c" / "codec_shim_rt.h"), ("cpp", HERE / "cpp" / "codec_shim_rt.hpp")):
        shim = {int(m.group(1)): m.group(2) for m in re.finditer(r'case (\d+): return "(err:[a-z-]+)";', fn.read_text())}
        if shim != CODES[lang]:
            ctx.broken.append({"kind": "error-code-table", "target": lang,
                               "error": f"{fn.name} names the codes {shim}, the support template documents {CODES[lang]}"})


def codes_header():
    """c04_codes.h: return code -> protocol name for the C04 programs, generated from the table."""
    out = ["/* GENERATED by harness/c04.py from the translator's table of documented error codes */", "#ifndef C04_CODES_H", "#define C04_CODES_H",
           "#include <stdio.h>"]
    for lang in ("c", "cpp"):
        out += [f"static const char* c04_{lang}_err_name(int rc)", "{", "    static char other[48];", "    const int code = rc < 0 ? -rc : rc;",
                "    switch (code)", "    {"]
        out += [f'    case {v}: return "{n}";' for v, n in sorted(CODES[lang].items())]
        out += ['    default: snprintf(other, sizeof other, "err:undocumented-code-%d", code); return other;', "    }", "}"]
    out += ["#endif", ""]
    return "\n".join(out)


# ------------------------------------------------------------------------------------------------------------
# codec targets with the C04 requests
# ------------------------------------------------------------------------------------------------------------

def c_mask_source(ns):
    """
    Per composite a function `c04_mask_<T>(mask, base)` that marks every byte of the C object that belongs to a member
    (derived from the PyDSDL model with offsetof/sizeof, not from the templates).  What stays unmarked is padding: no
    deserialization may modify it (checked by the `dep`/`de2` requests on unoptimised builds).
    """
    import pydsdl
    out = ["#include <stddef.h>"]
    for m in ct._composites_in_order(ns):
        n = ct.c_name(m)
        body = [f"static void c04_mask_{n}(uint8_t* m, size_t base)", "{", "    (void) m; (void) base;"]

        def whole(member):
            return f"    memset(m + base + offsetof({n}, {member}), 1, sizeof((({n}*) 0)->{member}));"
        for f in m.fields:
            t = f.data_type
            if isinstance(t, pydsdl.VoidType):
                continue
            name = f.name
            if isinstance(t, pydsdl.PrimitiveType):
                body.append(whole(name))
            elif isinstance(t, pydsdl.CompositeType):
                body.append(f"    c04_mask_{ct.c_name(t)}(m, base + offsetof({n}, {name}));")
            elif isinstance(t, pydsdl.FixedLengthArrayType):
                et = t.element_type
                if isinstance(et, pydsdl.BooleanType):
                    body.append(whole(name + "_bitpacked_"))
                elif isinstance(et, pydsdl.PrimitiveType):
                    body.append(whole(name))
                else:
                    body.append(f"    for (size_t i = 0; i < {t.capacity}U; ++i) {{ c04_mask_{ct.c_name(et)}(m, base + offsetof({n}, {name}) + i * sizeof({ct.c_name(et)})); }}")
            elif isinstance(t, pydsdl.VariableLengthArrayType):
                et = t.element_type
                body.append(whole(name + ".count"))
                if isinstance(et, pydsdl.BooleanType):
                    body.append(whole(name + ".bitpacked"))
                elif isinstance(et, pydsdl.PrimitiveType):
                    body.append(whole(name + ".elements"))
                else:
                    body.append(f"    for (size_t i = 0; i < {t.capacity}U; ++i) {{ c04_mask_{ct.c_name(et)}(m, base + offsetof({n}, {name}.elements) + i * sizeof({ct.c_name(et)})); }}")
            else:
                raise ValueError(t)
        if isinstance(m, pydsdl.UnionType):
            body.append(whole("_tag_"))
        body += ["}", ""]
        out += body
    return "\n".join(out)


class C04CTarget(ct.CTarget):
    def generate(self):
        if not super().generate():
            return False
        p = self.outdir / "shim.c"
        src = p.read_text()
        if "static int handle_##IDX(" not in src or not re.search(r"^DEFINE_HANDLER\(\d+, \w+\)$", src, re.M):
            self.build_log += "\nC04: the generated C shim no longer has the expected handler shape"
            return False
        src = src.replace("static int handle_##IDX(", "static int base_handle_##IDX(")
        first = re.search(r"^DEFINE_HANDLER\(\d+, \w+\)$", src, re.M).start()
        guard = "#define C04_GUARD_PADDING 1\n" if "-O0" in self.cflags else ""
        (self.outdir / "gen" / "c04_codes.h").write_text(codes_header())
        src = src[:first] + c_mask_source(self.ns) + "\n" + guard + '#include "c04_handler.h"\n' + src[first:]
        src = re.sub(r"^DEFINE_HANDLER\((\d+), (\w+)\)$", r"DEFINE_HANDLER(\1, \2)\nC04_DEFINE_HANDLER(\1, \2)", src, flags=re.M)
        p.write_text(src)
        return True


class C04CppTarget(ct.CppTarget):
    def generate(self):
        if self.std != "c++14" and "-include" not in self.cxxflags:
            # DESIGN F10 (property C06): the header of a non-sealed union does not include <variant> in C++17 mode.
            # That is C06's finding; it must not take this property's sanitizer targets down.
            self.cxxflags = list(self.cxxflags) + ["-include", "variant"]
        if not super().generate():
            return False
        hit = 0
        (self.outdir / "gen" / "c04_codes.h").write_text(codes_header())
        for fn in self.outdir.glob("shim_part*.cpp"):
            src = fn.read_text()
            if '#include "codec_shim_handle.hpp"' in src and "return handle<" in src:
                hit += 1
            src = src.replace('#include "codec_shim_handle.hpp"', '#include <string>\n#include "c04_shim_handle.hpp"')
            src = src.replace("return handle<", "return handle_c04<")
            fn.write_text(src)
        if not hit:
            self.build_log += "\nC04: the generated C++ shim no longer has the expected handler shape"
            return False
        return True


def build_targets(specs):
    """specs: list of Target objects with generate()/jobs. Generates sequentially-in-threads, compiles all jobs in a pool."""
    with concurrent.futures.ThreadPoolExecutor(NCPU) as ex:
        gen = list(ex.map(lambda t: (t, t.generate()), specs))
        jobs = []
        for t, ok in gen:
            t._c04_ok = ok
            if not ok:
                continue
            if isinstance(t, ct.CppTarget):
                for cmd in t.jobs:
                    jobs.append((t, cmd))
            else:
                jobs.append((t, None))

        def do(job):
            t, cmd = job
            if cmd is None:
                return t, t.compile()
            ok, log = compile_cmd(cmd)
            if not ok:
                t.build_log += log
            return t, ok
        for t, ok in ex.map(do, jobs):
            if not ok:
                t._c04_ok = False
        for t in specs:
            if t._c04_ok and isinstance(t, ct.CppTarget):
                t._c04_ok = t.link()
            t.ok = t._c04_ok
    return [t for t in specs if t.ok]


# ------------------------------------------------------------------------------------------------------------
# helpers on protocol types / answers
# ------------------------------------------------------------------------------------------------------------

def has_nested_delim(e, top=True):
    k = e[0]
    if k == "d":
        return (not top) or has_nested_delim(e[2], False)
    if k in "al":
        return has_nested_delim(e[1], False)
    if k in "sn":
        return any(has_nested_delim(f, False) for f in e[1])
    return False


def outcome_class(ans: str, kind: str):
    """('ok', size) | ('err', kind) | ('other', text);  size = produced bytes (ser) or consumed bytes (de)."""
    if ans.startswith("ok"):
        body = ans[2:].strip()
        if kind == "ser":
            return ("ok", 0 if body in ("-", "") else len(body) // 2)
        return ("ok", int(body.rsplit(" ", 1)[-1]) if body else 0)
    if ans.startswith("err:"):
        return ("err", ans[4:])
    return ("other", ans)


def container_sizes(e, v):
    """Sizes of all variable-length arrays of a decoded value in traversal order (mirror of CppObj.sizes)."""
    k = e[0]
    if k == "l":
        out = [len(v)]
        for x in v:
            out += container_sizes(e[1], x)
        return out
    if k == "a":
        out = []
        for x in v:
            out += container_sizes(e[1], x)
        return out
    if k == "s":
        out = []
        for f, x in zip(e[1], v):
            out += container_sizes(f, x)
        return out
    if k == "n":
        return container_sizes(e[1][v[0]], v[1]) if v[0] < len(e[1]) else []
    if k == "d":
        return container_sizes(e[2], v)
    return []


def has_varr(e):
    k = e[0]
    if k == "l":
        return True
    if k == "a":
        return has_varr(e[1])
    if k in "sn":
        return any(has_varr(f) for f in e[1])
    if k == "d":
        return has_varr(e[2])
    return False


# ------------------------------------------------------------------------------------------------------------
# stream V: variant operation sequences
# ------------------------------------------------------------------------------------------------------------

TRK_YAML = ('nunavut.lang.cpp:\n  options:\n    variable_array_type_include: \'"c04_tracked.hpp"\'\n'
            '    variable_array_type_template: "c04::Tracked<{TYPE}>"\n')


def nnvg_cpp(ns_dir, outdir, std, extra=()):
    env = dict(os.environ)
    env["PYTHONPATH"] = str(common.REPO / "src")
    env["PYTHONDONTWRITEBYTECODE"] = "1"
    cmd = [common.PY, "-m", "nunavut", "--experimental-languages", "--target-language", "cpp", "--language-standard", std,
           "--outdir", str(outdir), str(ns_dir)] + list(extra)     # `--configuration` takes a list: it must come last
    p = subprocess.run(cmd, capture_output=True, text=True, timeout=900, env=env, cwd=str(outdir.parent))
    return p.returncode == 0, (p.stdout + p.stderr)[-3000:]


def variant_main_sources(kinds_list, parts, static_asserts):
    """Translation units: part i defines table_i; main collects them."""
    from translate import variant_tables as vt
    files = []
    parts = max(1, min(parts, len(kinds_list)))
    for pi in range(parts):
        mine = kinds_list[pi::parts]
        src = ['#include "c04_variant_rt.hpp"'] + [f'#include "vt/K{k}_1_0.hpp"' for k in mine]
        if static_asserts:
            for k in mine:
                for i, ch in enumerate(k):
                    triv = "false" if vt.KIND_NONTRIVIAL[ch] else "true"
                    src.append(f"static_assert(std::is_trivially_destructible<vt::K{k}_1_0::VariantType::alternative<{i}U>::type>::value == {triv}, "
                               f"\"destructor kind of alternative {i} of {k}\");")
        src.append(f"extern const c04rt::Entry c04_table_{pi}[] = {{")
        src += [f'    {{"{k}", &c04rt::run_ops<vt::K{k}_1_0>}},' for k in mine]
        src += ["};", f"extern const std::size_t c04_table_{pi}_n = {len(mine)};", ""]
        files.append((f"vpart{pi}.cpp", "\n".join(src)))
    main = ['#include "c04_variant_rt.hpp"']
    for pi in range(parts):
        main += [f"extern const c04rt::Entry c04_table_{pi}[];", f"extern const std::size_t c04_table_{pi}_n;"]
    main += ["int main()", "{", "    std::vector<c04rt::Entry> all;"]
    for pi in range(parts):
        main.append(f"    for (std::size_t i = 0; i < c04_table_{pi}_n; ++i) {{ all.push_back(c04_table_{pi}[i]); }}")
    main += ["    return c04rt::serve(all.data(), all.size());", "}", ""]
    files.append(("vmain.cpp", "\n".join(main)))
    return files


class VariantBuild:
    def __init__(self, name, outdir, ns_dir, kinds_list, std, tracked, sanitize):
        self.name, self.outdir, self.ns_dir, self.kinds_list = name, pathlib.Path(outdir), ns_dir, kinds_list
        self.std, self.tracked, self.sanitize = std, tracked, sanitize
        self.exe, self.ok, self.log, self.jobs = self.outdir / "vrun", False, "", []

    def generate(self):
        self.outdir.mkdir(parents=True, exist_ok=True)
        extra = []
        if self.tracked:
            (self.outdir / "trk.yaml").write_text(TRK_YAML)
            extra = ["--configuration", str(self.outdir / "trk.yaml")]
        ok, log = nnvg_cpp(self.ns_dir, self.outdir / "gen", self.std, extra)
        self.log += log
        if not ok:
            return False
        flags = ["-DC04_TRACKED", "-O1", "-g"] if self.tracked else []
        if self.sanitize:
            flags = flags + SAN + ["-DC04_LSAN"]
        self.flags = flags
        gxx = {"c++17-pmr": "c++17"}.get(self.std, self.std)
        parts = max(1, min(NCPU, (len(self.kinds_list) + 7) // 8))
        self.files = variant_main_sources(self.kinds_list, parts, static_asserts=(self.std == "c++14" and not self.tracked))
        for fn, text in self.files:
            (self.outdir / fn).write_text(text)
            self.jobs.append(["g++", f"-std={gxx}", "-Wall", "-Wno-unused-function"] + flags +
                             ["-I", str(self.outdir / "gen"), "-I", str(HERE / "cpp"), "-c", str(self.outdir / fn), "-o", str(self.outdir / (fn + ".o"))])
        return True

    def link(self):
        objs = [str(self.outdir / (fn + ".o")) for fn, _ in self.files]
        ok, log = compile_cmd(["g++"] + [f for f in self.flags if f.startswith("-fsanitize")] + objs + ["-o", str(self.exe)])
        self.log += log
        self.ok = ok
        return ok


def build_variant_builds(builds):
    with concurrent.futures.ThreadPoolExecutor(NCPU) as ex:
        oks = list(ex.map(lambda b: b.generate(), builds))
        jobs = [(b, cmd) for b, ok in zip(builds, oks) if ok for cmd in b.jobs]
        bad = set()

        def do(job):
            b, cmd = job
            ok, log = compile_cmd(cmd)
            if not ok:
                b.log += log
            return b, ok
        for b, ok in ex.map(do, jobs):
            if not ok:
                bad.add(b.name)
        for b, ok in zip(builds, oks):
            if ok and b.name not in bad:
                b.link()


def op_alphabet(slots, nalt):
    ops = []
    for d in range(slots):
        ops += [f"c{d}", f"d{d}"] + [f"e{d}.{i}" for i in range(nalt)]
        for s in range(slots):
            ops += [f"ca{d}.{s}", f"ma{d}.{s}"]
            if s != d:
                ops += [f"cc{d}.{s}", f"mc{d}.{s}"]
    return ops


def dtor_all(slots):
    return [f"d{k}" for k in reversed(range(slots))]


def model_fault_norm(ans, nontrivial):
    """model answer -> (canonical text, observable)"""
    if not ans.startswith("fault "):
        return ans, True
    _, kind, member, op = ans.split(" ")
    member = int(member)
    owns = member < len(nontrivial) and nontrivial[member]
    kind = {"wild-destroy": "wild-destroy", "leak": "leak", "read-dead": "read-dead", "type-confusion": "type-confusion",
            "bad-alt": "bad-alt"}[kind]
    return f"fault {kind} {op}", owns


def impl_fault_norm(ans):
    if ans.startswith("fault "):
        parts = ans.split(" ")
        kind = {"value-changed": "read-dead", "dead-in-use": "read-dead"}.get(parts[1], parts[1])
        return f"fault {kind} {parts[2]}"
    return ans


def variant_fail_key(ans, ops, target):
    """key + description of a fault observed on the implementation"""
    parts = ans.split(" ")
    kind = parts[1] if ans.startswith("fault ") else ans.split(":", 1)[1]
    m = re.search(r"op=(\d+)", ans)
    opl = ops.split(",") if ops != "-" else []
    op = opl[int(m.group(1))] if m and int(m.group(1)) < len(opl) else "end"
    if re.fullmatch(r"c\d+", op):
        construct = "variant-default-ctor"
    elif re.fullmatch(r"(ca|ma)(\d+)\.\2", op):
        construct = "variant-self-assignment"
    else:
        construct = "variant-destroy_current"
    k = {"wild-destroy": "wild-free", "leak": "leak", "leak-lsan": "leak", "read-dead": "use-after-destroy",
         "value-changed": "use-after-destroy", "dead-in-use": "use-after-destroy"}.get(kind, kind)
    return {"kind": k, "target": target, "construct": construct}


def variant_prepare(ctx, tables):
    """rng-dependent choices (call in the main thread) -> state; the builds are done by variant_build(state)."""
    from translate import variant_tables as vt
    rng = ctx.rng
    all_kinds = list(tables)
    len2 = [k for k in all_kinds if len(k) == 2]
    corpus_ops = json.loads((CORPUS / "variant_ops.json").read_text())
    corpus_kinds = [c["kinds"] for c in corpus_ops]
    if ctx.quick:
        others = [k for k in all_kinds if len(k) > 2 and k not in corpus_kinds]
        kinds_list = sorted(set(len2 + corpus_kinds + rng.sample(others, 24)), key=all_kinds.index)
    else:
        kinds_list = all_kinds
    base = ctx.scratch / "variant"
    ns_dir = vt.write_namespace(base / "ns", kinds_list)
    builds = [VariantBuild("cpp/c++14/tracked", base / "trk14", ns_dir, kinds_list, "c++14", tracked=True, sanitize=False),
              VariantBuild("cpp/c++14", base / "san14", ns_dir, kinds_list, "c++14", tracked=False, sanitize=True),
              VariantBuild("cpp/c++17", base / "san17", ns_dir, kinds_list, "c++17", tracked=False, sanitize=True)]
    return {"kinds_list": kinds_list, "len2": len2, "corpus_ops": corpus_ops, "builds": builds}


def variant_stream(ctx, drv, state):
    from translate import variant_tables as vt
    rng = ctx.rng
    kinds_list, len2, corpus_ops, builds = state["kinds_list"], state["len2"], state["corpus_ops"], state["builds"]
    for b in builds:
        if not b.ok:
            ctx.broken.append({"kind": "variant-build", "target": b.name, "log_tail": b.log[-2500:]})
    # ---- requests --------------------------------------------------------------------------------------
    reqs = []  # (kinds, slots, ops string, origin)
    for c in corpus_ops:
        reqs.append((c["kinds"], c["slots"], c["ops"], "corpus"))
    # exhaustive: every sequence of length <= L over the full alphabet of 1 slot, and of length <= 2 over 2 slots, from a
    # constructed object, for every union of two alternatives
    L1 = 3 if ctx.quick else 4
    for k in len2:
        alpha1 = op_alphabet(1, 2)
        seqs = [[]]
        frontier = [[]]
        for _ in range(L1):
            frontier = [s + [o] for s in frontier for o in alpha1]
            seqs += frontier
        for s in seqs:
            reqs.append((k, 1, ",".join(["c0"] + s + dtor_all(1)), "exhaustive"))
        alpha2 = op_alphabet(2, 2)
        for a in alpha2:
            for b2 in alpha2:
                reqs.append((k, 2, ",".join(["c0", "e0.1", "c1", a, b2] + dtor_all(2)), "exhaustive"))
    nexh = len(reqs) - len(corpus_ops)
    nrand = 40 if ctx.quick else 150
    for k in kinds_list:
        for _ in range(nrand):
            slots = rng.choice([1, 2, 2, 3])
            alpha = op_alphabet(slots, len(k))
            weights = [3 if o[0] == "e" else 2 if o.startswith(("ca", "ma", "cc", "mc")) else 1 for o in alpha]
            n = rng.choice([3, 5, 8, 12, 20])
            seq = ["c0"] + rng.choices(alpha, weights=weights, k=n)
            if rng.random() < 0.8:
                seq += dtor_all(slots)
            reqs.append((k, slots, ",".join(seq), "random"))
    ctx.extra["variant_domain"] = {"unions": len(kinds_list), "corpus": len(corpus_ops), "exhaustive": nexh,
                                   "random": len(reqs) - nexh - len(corpus_ops),
                                   "exhaustive_rule": f"all op sequences of length <= {L1} over 1 slot and all op pairs over 2 slots, every union of two alternatives"}
    lines = [f"{k} {s} {o}" for k, s, o, _ in reqs]
    model = drv.ask(["run " + l for l in lines], timeout=1200) if drv is not None else [None] * len(lines)
    wf = dict(zip(kinds_list, drv.ask([f"wf {k}" for k in kinds_list]))) if drv is not None else {}
    ctx.extra["variant_tables_wellformed"] = sum(1 for v in wf.values() if v == "1")
    ctx.extra["variant_tables_total"] = len(wf)
    trk, san14, san17 = builds
    # ---- tracked build: every request ---------------------------------------------------------------------
    if trk.ok:
        answers, _ = run_lines(trk.exe, lines, env=dict(os.environ))
        seen_fail = set()
        for (k, s, o, origin), m, a in zip(reqs, model, answers):
            nt = [vt.KIND_NONTRIVIAL[c] for c in k]
            ctx.case(("V", k, s, o), nontrivial=any(nt))
            ctx.count("variant_" + origin)
            if a.startswith("fault ") or a.startswith("crash:"):
                key = variant_fail_key(a, o, "cpp/c++14")
                kk = json.dumps(key, sort_keys=True)
                if kk not in seen_fail or len([1 for x in ctx.failures if x["key"] == key]) < 3:
                    seen_fail.add(kk)
                    ctx.fail(key, "the generated C++14 VariantType mismanages the lifetime of an alternative: " + a,
                             {"stream": "variant", "build": trk.name, "kinds": k, "dsdl": _union_text(k), "slots": s, "ops": o,
                              "observed": a, "model": m})
                ctx.count("variant_impl_fault")
            if m is not None:
                ctx.traces += 1
                mn, observable = model_fault_norm(m, nt)
                an = impl_fault_norm(a)
                if not observable:
                    ctx.count("variant_model_fault_unobservable")
                    # the model stops at a fault the instrumentation cannot see; the implementation may go on
                    continue
                if mn.startswith("fault") or an.startswith("fault"):
                    # faults: same class at the same operation (a leak the model raises at the overwrite may surface one
                    # operation earlier in the implementation's reachability check: compare class only then)
                    if mn.split(" ")[:2] != an.split(" ")[:2]:
                        ctx.disagree("variant/tracked", {"kinds": k, "slots": s, "ops": o}, m, a)
                    elif mn != an:
                        ctx.count("variant_fault_same_class_other_op")
                elif mn != an:
                    ctx.disagree("variant/tracked", {"kinds": k, "slots": s, "ops": o}, m, a)
    # ---- sanitizer builds: corpus + a sample --------------------------------------------------------------
    nsan = 700 if ctx.quick else 12000
    pick = list(range(len(corpus_ops))) + sorted(rng.sample(range(len(corpus_ops), len(reqs)), min(nsan, len(reqs) - len(corpus_ops))))
    for b in (san14, san17):
        if not b.ok:
            continue
        sub = [lines[i] for i in pick]
        answers, exit_kind = run_lines(b.exe, sub)
        nfail = 0
        for i, a in zip(pick, answers):
            k, s, o, origin = reqs[i]
            ctx.case(("Vsan", b.name, k, s, o), nontrivial=True)
            m = model[i]
            bad = a.startswith("crash:") or a.startswith("fault ")
            if bad:
                nfail += 1
                if nfail <= 6:
                    if a.startswith("crash:"):
                        key = {"kind": a.split(":", 1)[1], "target": b.name, "construct": "variant"}
                        if key["kind"] in ("asan-segv", "asan-bad-free", "asan-attempting"):
                            key["kind"] = "wild-free"
                    else:
                        key = variant_fail_key(a, o, b.name)
                    ctx.fail(key, f"sanitizer build of the generated {b.std} variant: {a}",
                             {"stream": "variant", "build": b.name, "kinds": k, "dsdl": _union_text(k), "slots": s, "ops": o, "observed": a, "model": m})
            if m is not None:
                ctx.traces += 1
                if b.std == "c++14":
                    if bad and not m.startswith("fault"):
                        ctx.disagree("variant/" + b.name, {"kinds": k, "slots": s, "ops": o}, m, a)
                    elif not bad and not m.startswith("fault"):
                        if a.split(" owning=")[0] != m.split(" owning=")[0]:
                            ctx.disagree("variant/" + b.name, {"kinds": k, "slots": s, "ops": o}, m, a)
                else:
                    # std::variant is the control: it must never fault, and reach the same tags as a fault-free model run
                    if not bad and not m.startswith("fault") and a.split(" owning=")[0] != m.split(" owning=")[0]:
                        ctx.disagree("variant/" + b.name, {"kinds": k, "slots": s, "ops": o}, m, a)
        ctx.count("variant_sanitizer_runs_" + b.std, len(pick))
        if exit_kind:
            ctx.fail({"kind": exit_kind, "target": b.name, "construct": "variant"}, "sanitizer report at exit of the variant program",
                     {"stream": "variant", "build": b.name, "note": "report at process exit"})
    ctx.sample({"stream": "variant", "request": lines[len(corpus_ops) + 7], "model": model[len(corpus_ops) + 7]})


def _union_text(kinds):
    from translate import variant_tables as vt
    return "@union\n" + "".join(f"{vt.KIND_DSDL[k]} f{i}\n" for i, k in enumerate(kinds)) + "@sealed\n"


# ------------------------------------------------------------------------------------------------------------
# stream K / X: the codecs under sanitizers
# ------------------------------------------------------------------------------------------------------------

def make_targets(ns, base, quick, tag):
    specs = [C04CTarget(ns, base / "c", endianness="any", asserts=True, cc="gcc", cflags=SAN, tag=f"c/any+asserts"),
             # little endian selects the bulk-copy paths (nunavutGetBits / nunavutCopyBits on whole arrays of standard-size primitives)
             C04CTarget(ns, base / "c_le", endianness="little", asserts=False, cc="gcc", cflags=SAN, tag=f"c/little")]
    for std in ("c++14", "c++17", "c++20", "c++17-pmr"):
        # quick: the C++20 build is the one rendered with --target-endianness little (word-sized copies in the bitspan getters and
        # setters: a type-punned or misaligned access there is visible to -fsanitize=alignment at -O0 only); thorough adds both
        le = quick and std == "c++20"
        # the C++17 build is generated with --enable-serialization-asserts and NUNAVUT_ASSERT=assert: an assertion of the generated
        # code that a LEGAL input (or any object) can make false aborts the process instead of returning (totality)
        asr = std == "c++17"
        specs.append(C04CppTarget(ns, base / std.replace("+", "p"), std=std, asserts=asr, cxx="g++", cxxflags=SAN,
                                  extra_nnvg=(["--target-endianness", "little"] if le else []),
                                  parts=6 if quick else 8, tag=f"cpp/{std}" + ("/little" if le else "") + ("+asserts" if asr else "")))
    if not quick:
        specs.append(C04CppTarget(ns, base / "cpp14_le", std="c++14", asserts=False, cxx="g++", cxxflags=SAN,
                                  extra_nnvg=["--target-endianness", "little"], parts=8, tag="cpp/c++14/little"))
        specs.append(C04CppTarget(ns, base / "cpp17_be", std="c++17", asserts=False, cxx="g++", cxxflags=SAN,
                                  extra_nnvg=["--target-endianness", "big"], parts=8, tag="cpp/c++17/big"))
        specs.append(C04CTarget(ns, base / "c_little", endianness="little", asserts=False, cc="clang", cflags=SAN_OPT, tag="c/little/clang-O1"))
        specs.append(C04CTarget(ns, base / "c_big", endianness="big", asserts=False, cc="gcc", cflags=SAN_OPT, tag="c/big-O1"))
        specs.append(C04CppTarget(ns, base / "cpp14clang", std="c++14", asserts=True, cxx="clang++", cxxflags=SAN_OPT, parts=8, tag="cpp/c++14/clang+asserts-O1"))
    return specs


def extreme_value(e, mode, opt):
    """Every integer leaf at an exact extreme of its width: mode min | max | neg1 | one; unions take option `opt` (mod count)."""
    k = e[0]
    if k == "u":
        return {"min": 0, "max": (1 << e[1]) - 1, "neg1": (1 << e[1]) - 1, "one": 1}[mode]
    if k == "i":
        return {"min": -(1 << (e[1] - 1)), "max": (1 << (e[1] - 1)) - 1, "neg1": -1, "one": 1}[mode]
    if k == "b":
        return 0 if mode == "min" else 1
    if k == "f":
        return {"min": -1.0, "max": 1.0, "neg1": -0.0, "one": 0.5}[mode]
    if k == "v":
        return None
    if k == "a":
        return [extreme_value(e[1], mode, opt) for _ in range(e[2])]
    if k == "l":
        return [extreme_value(e[1], mode, opt) for _ in range(min(e[2], 2 if mode in ("min", "max") else 1))]
    if k == "s":
        return [extreme_value(f, mode, opt) for f in e[1]]
    if k == "n":
        kk = opt % len(e[1])
        return (kk, extreme_value(e[1][kk], mode, opt))
    if k == "d":
        return extreme_value(e[2], mode, opt)
    raise ValueError(e)


def max_options(e):
    k = e[0]
    if k in "al":
        return max_options(e[1])
    if k == "s":
        return max([1] + [max_options(f) for f in e[1]])
    if k == "n":
        return max([len(e[1])] + [max_options(f) for f in e[1]])
    if k == "d":
        return max_options(e[2])
    return 1


def ser_inflated(e, v, surplus):
    """
    codec_ref.ser, but every NESTED delimited object carries `surplus` bytes more than its extent and its delimiter header
    announces them (all bytes present): what a sender with a newer, longer minor version of the nested type emits.  A legal
    input: the receiver reads what it knows and skips the rest.
    """
    orig = codec_ref._ser

    def patched(e2, v2, w):
        if e2[0] == "d":
            w.align(8)
            sub = codec_ref._W()
            patched(e2[2], v2, sub)
            body = sub.bytes()
            body += bytes((0xC0 + i) & 0xFF for i in range(e2[1] // 8 + surplus - len(body)))
            w.put(len(body), 32)
            w.put(int.from_bytes(body, "little"), 8 * len(body))
        else:
            orig(e2, v2, w)
    codec_ref._ser = patched          # the recursion inside codec_ref goes through the module attribute
    try:
        w = codec_ref._W()
        patched(e[2] if e[0] == "d" else e, v, w)
        return w.bytes()
    finally:
        codec_ref._ser = orig


def codec_requests(ctx, ns, n_values0, n_invalid0, n_strings0):
    """-> list of dicts: {'gt', 'kind': 'ser'|'de', 'req': target request (with idx), 'model': protocol request, 'group': id, 'role': str}"""
    rng = ctx.rng
    out = []
    gid = 0
    for gt in ns.types:
        e = gt.expr
        n_values, n_invalid, n_strings = n_values0, n_invalid0, n_strings0
        try:
            mx = (codec_ref.bounds(e)[1] + 7) // 8
        except Exception:
            continue
        if mx > 100000:
            continue
        big = mx > 3000
        if big:
            n_values, n_invalid, n_strings = min(n_values, 3), min(n_invalid, 1), min(n_strings, 8)
        values, encodings = [], []
        tries = 0
        while len(values) < n_values and tries < 4 * n_values:
            tries += 1
            v = dsdlgen.gen_value(rng, e, oob=True, p_invalid=0.0)
            try:
                enc = codec_ref.ser(e, v)
            except codec_ref.CodecError:
                continue
            values.append((v, enc))
            encodings.append(enc)
        invalid = [dsdlgen.gen_value(rng, e, oob=True, p_invalid=0.6) for _ in range(n_invalid)]
        for v, enc in values + [(v, None) for v in invalid]:
            vs = dsdlgen.fmt_value(e, v)
            gid += 1
            out.append({"gt": gt, "kind": "ser", "req": f"ser {gt.index} {vs}", "model": f"ser {gt.tstr} {vs}", "group": gid, "role": "ser",
                        "valid": enc is not None})
            need = len(enc) if enc is not None else mx
            caps = sorted({0, 1, max(0, need - 1), need, max(0, mx - 1), mx, mx + 1})
            for cap in caps:
                out.append({"gt": gt, "kind": "ser", "req": f"serx {gt.index} {vs} {cap}", "model": f"serbuf {gt.tstr} {vs} {cap}", "group": gid,
                            "role": "serx", "valid": enc is not None})
        # the exact extremes of every integer width (full-width INTn_MIN / INTn_MAX / UINTn_MAX included), every union option:
        # serialized, and their encodings decoded under the sanitizers on every target
        ext_enc = []
        for mode in ("min", "max", "neg1", "one"):
            for opt in range(min(max_options(e), 4 if ctx.quick else 8)):
                v = extreme_value(e, mode, opt)
                try:
                    enc = codec_ref.ser(e, v)
                except codec_ref.CodecError:
                    continue
                if enc in ext_enc:
                    continue
                ext_enc.append(enc)
                vs = dsdlgen.fmt_value(e, v)
                gid += 1
                out.append({"gt": gt, "kind": "ser", "req": f"ser {gt.index} {vs}", "model": f"ser {gt.tstr} {vs}", "group": gid, "role": "ser", "valid": True})
                ctx.count("codec_extreme_values")
        # wide length prefixes: counts whose upper prefix bytes are non-zero and zero, so that a partially written `count` shows
        if any(w in gt.tstr for w in ("(l ",)) and mx > 258:
            for _ in range(3):
                v = dsdlgen.gen_value(rng, e, oob=False, p_invalid=0.0)
                try:
                    ext_enc.append(codec_ref.ser(e, v))
                except codec_ref.CodecError:
                    pass
        # nested delimited objects whose header announces MORE than the extent, the bytes present (implicit truncation rule)
        if has_nested_delim(e):
            full = []
            try:
                full = [extreme_value(e, "max", 0)]     # arrays filled (<= 2 elements): the surplus pushes the total above bit_length_set.max
            except Exception:
                pass
            for v in [x for x, _ in values[:3]] + full:
                for surplus in (1, 6):
                    try:
                        big = ser_inflated(e, v, surplus)
                    except Exception:
                        continue
                    if len(big) <= 4096 and big not in ext_enc:
                        ext_enc.append(big)
                        ctx.count("codec_delimiter_header_above_extent")
        strings = dsdlgen.gen_byte_strings(rng, encodings, n_random=6, max_len=min(mx + 9, 300), all_truncations_upto=12)
        if len(strings) > n_strings:
            keep = [b""] + encodings[:3]
            rest = [b for b in strings if b not in keep]
            strings = keep + rng.sample(rest, max(0, n_strings - len(keep)))
        strings += [b for b in ext_enc if b not in strings]
        # EVERY truncation (cut at every byte) of the first valid encodings: the cuts fall inside bit-packed and unaligned arrays
        # and inside bulk-copied fragments, where implicit zero extension has to overwrite whatever the destination held
        n_enc, limit = (2, 72) if ctx.quick else (4, 400)
        seen = set(strings)
        for enc in sorted((x for x in set(encodings) if len(x) <= 4096), key=len, reverse=True)[:n_enc]:
            cuts = range(len(enc)) if len(enc) <= limit else sorted(set(range(limit // 2)) | set(rng.sample(range(len(enc)), limit // 2)))
            for c in cuts:
                if enc[:c] not in seen:
                    seen.add(enc[:c])
                    strings.append(enc[:c])
                    ctx.count("codec_truncations")
        # very long inputs (arrays filled to a capacity of tens of thousands): one is enough
        longs = [b for b in strings if len(b) > 4096]
        strings = [b for b in strings if len(b) <= 4096] + longs[:1]
        for b in strings:
            hx = b.hex() or "-"
            small = [x for x in encodings if len(x) <= 4096]
            other = rng.choice(small).hex() if small else "-"
            other = other or "-"
            gid += 1
            mreq = f"de {gt.tstr} {hx}"
            for role, req in (("de", f"de {gt.index} {hx}"), ("dep-aa", f"dep {gt.index} aa {hx}"), ("dep-00", f"dep {gt.index} 00 {hx}"),
                              ("dep-ff", f"dep {gt.index} ff {hx}"), ("de2-other", f"de2 {gt.index} aa {other} {hx}"),
                              ("de2-same", f"de2 {gt.index} 55 {hx} {hx}")):
                out.append({"gt": gt, "kind": "de", "req": req, "model": mreq, "group": gid, "role": role, "hex": hx, "other": other})
    return out


def ask_model(drivers, lines):
    """Lean `codec` driver; codec_ref when the driver is not there."""
    uniq = list(dict.fromkeys(lines))
    drv = drivers.get("codec")
    if drv is not None:
        ans = drv.ask(uniq, timeout=1800)
        src = "lean:codec"
    else:
        ans = [codec_ref.answer(l) for l in uniq]
        src = "python:codec_ref"
    return dict(zip(uniq, ans)), src


def codec_prepare(ctx, ns, label):
    base = ctx.scratch / ("codec_" + label)
    base.mkdir(parents=True, exist_ok=True)
    return make_targets(ns, base, ctx.quick, label)


def codec_stream(ctx, drivers, ns, label, specs, n_values, n_invalid, n_strings):
    t0 = time.time()
    targets = [t for t in specs if t.ok]
    built = {t.name for t in targets}
    for t in specs:
        if t.name not in built:
            if t.name == "cpp/c++17-pmr":
                ctx.extra.setdefault("targets_not_built", []).append({"target": t.name, "namespace": label, "log_tail": t.build_log[-600:]})
            else:
                ctx.broken.append({"kind": "target-build", "target": t.name, "namespace": label, "log_tail": t.build_log[-2500:]})
    reqs = codec_requests(ctx, ns, n_values, n_invalid, n_strings)
    model, msrc = ask_model(drivers, [r["model"] for r in reqs])
    ctx.extra["codec_model_source"] = msrc
    vdrv = drivers.get("variant")
    texts = ns.texts

    def replay_of(t, r, extra=None):
        d = {"stream": "codec", "namespace": label, "target": t.options, "type": r["gt"].full_name, "type_expr": r["gt"].tstr,
             "dsdl": texts, "request": r["req"], "model_request": r["model"]}
        d.update(extra or {})
        return d

    def run_target(t):
        lines = [r["req"] for r in reqs]
        answers, exit_kind = run_lines(t.exe, lines, max_crashes=60)
        leak = find_leaking(t.exe, lines) if exit_kind else None
        return t, answers, exit_kind, leak
    with concurrent.futures.ThreadPoolExecutor(NCPU) as ex:
        results = list(ex.map(run_target, targets))
    for t, answers, exit_kind, leak in results:
        is_cpp = t.lang == "cpp"
        nfail = {}
        groups = {}

        def fail(key, what, rp):
            kk = json.dumps(key, sort_keys=True)
            nfail[kk] = nfail.get(kk, 0) + 1
            if nfail[kk] <= 3:
                ctx.fail(key, what, rp)
        if exit_kind:
            rp = {"stream": "codec", "namespace": label, "target": t.options, "dsdl": texts, "note": "sanitizer report at exit"}
            if leak:
                rp["request"] = leak[0]
            fail({"kind": exit_kind, "target": t.name, "construct": "codec"}, "sanitizer report at process exit (leak)", rp)
        for r, a in zip(reqs, answers):
            gt = r["gt"]
            ctx.case(("K", label, t.name, r["req"]), nontrivial=(r["role"] != "de"))
            ctx.count(f"codec_{r['role']}")
            m = model.get(r["model"])
            if a == "crash:too-many":
                ctx.count("codec_not_run_after_too_many_crashes")
                continue
            if a.startswith("crash:"):
                fail({"kind": a.split(":", 1)[1], "target": t.name, "construct": "serialize" if r["kind"] == "ser" else "deserialize"},
                     f"{t.name}: the generated code of {gt.full_name} died under the sanitizers on `{r['req'][:120]}`", replay_of(t, r, {"observed": a}))
                ctx.count("codec_crash")
                if m is not None:
                    ctx.disagree("codec/" + t.name, {"type": gt.tstr, "request": r["req"]}, m, a)
                continue
            if a.startswith("guard:"):
                fail({"kind": "object-overflow", "target": t.name, "construct": "deserialize-padding-modified"},
                     f"{t.name}: deserialization of {gt.full_name} modified bytes of the destination that belong to no member", replay_of(t, r, {"observed": a}))
                ctx.count("codec_guard_violation")
                if m is not None:
                    ctx.disagree("codec/" + t.name, {"type": gt.tstr, "request": r["req"]}, m, a)
                continue
            if a == "n/a":
                ctx.count("codec_not_applicable")
                continue
            if a.startswith("err:") and a not in DOCUMENTED:
                fail({"kind": "undocumented-error", "target": t.name, "construct": "serialize" if r["kind"] == "ser" else "deserialize", "error": a},
                     f"{t.name}: {a} is not one of the documented outcomes", replay_of(t, r, {"observed": a}))
            ctx.count("codec_outcome_" + ("ok" if a.startswith("ok") else a[4:] if a.startswith("err:") else "other"))
            # model: outcome class (value correctness is C01/C02's business; C++ nested delimited decode is their F6)
            if m is not None and not (is_cpp and r["kind"] == "de" and has_nested_delim(gt.expr)):
                ctx.traces += 1
                ca, cm = outcome_class(a, r["kind"]), outcome_class(m, r["kind"])
                # C04's prediction is the STATUS (success / which documented error); produced and consumed sizes are value
                # correctness (C01/C02) and only counted here
                if (ca[0], ca[1] if ca[0] != "ok" else None) != (cm[0], cm[1] if cm[0] != "ok" else None):
                    ctx.disagree("codec/" + t.name, {"type": gt.tstr, "request": r["req"]}, m, a)
                elif ca != cm:
                    ctx.count("codec_size_differs_from_spec_not_c04")
                    ex = ctx.extra.setdefault("size_defects_outside_c04", [])
                    if len(ex) < 3:
                        ex.append({"target": t.name, "type": gt.tstr, "request": r["req"][:300], "model": m[:120], "impl": a[:120]})
            if r["kind"] == "de":
                groups.setdefault(r["group"], []).append((r, a))
        # prior-state independence: every way of preparing the destination gives the same answer
        for gid, items in groups.items():
            ref = [a for r, a in items if r["role"] == "de"]
            if not ref:
                continue
            for r, a in items:
                if "unknown-code" in a or "unknown-code" in ref[0] or "undocumented-code" in a:
                    continue        # an undocumented return code is reported as such above; the two shims only spell it differently
                if a != ref[0] and not a.startswith("crash:"):
                    fail({"kind": "prior-state-influence", "target": t.name, "construct": "deserialize-" + ("reused-object" if r["role"].startswith("de2") else "poisoned-object")},
                         f"{t.name}: deserializing the same bytes gives a different outcome when the destination held something else before",
                         replay_of(t, r, {"observed": a, "into_fresh_object": ref[0], "fresh_request": items[0][0]["req"]}))
                    ctx.count("codec_prior_state_influence")
        # stream X: decode twice into one C++ object versus Model/CppObj
        if is_cpp and vdrv is not None:
            xs = [(r, a) for r, a in zip(reqs, answers) if r["role"] in ("de2-other", "de2-same") and a.startswith("ok") and has_varr(r["gt"].expr)
                  and not has_nested_delim(r["gt"].expr)]
            if xs:
                first = lambda r: r["other"] if r["role"] == "de2-other" else r["hex"]
                pred1 = vdrv.ask([f"twice 1 {r['gt'].tstr} {first(r)} {r['hex']}" for r, _ in xs], timeout=1200)
                pred0 = vdrv.ask([f"twice 0 {r['gt'].tstr} {first(r)} {r['hex']}" for r, _ in xs], timeout=1200)
                # baseline: the same bytes decoded ONCE into a fresh object must already agree with the model on the container
                # sizes; where they do not, the difference is a value defect (C01/C02), not an effect of the prior state
                fresh = {r["group"]: a for r, a in zip(reqs, answers) if r["role"] == "de"}
                predf = vdrv.ask([f"twice 1 {r['gt'].tstr} - {r['hex']}" for r, _ in xs], timeout=1200)

                def sizes_of(r, ans):
                    body = ans[2:].strip()
                    v = dsdlgen.parse_value(r["gt"].expr, body.rsplit(" ", 1)[0])
                    sz = container_sizes(r["gt"].expr, v)
                    return "ok sizes=" + (".".join(map(str, sz)) if sz else "-") + " consumed=" + body.rsplit(" ", 1)[1]
                for (r, a), p1, p0, pf in zip(xs, pred1, pred0, predf):
                    if not p1.startswith("ok"):
                        ctx.count("twice_first_decode_failed_or_error")
                        continue
                    fa = fresh.get(r["group"], "")
                    try:
                        if not fa.startswith("ok") or sizes_of(r, fa) != pf:
                            ctx.count("twice_skipped_fresh_decode_differs_from_spec")
                            ctx.extra.setdefault("value_defects_outside_c04", [])
                            if len(ctx.extra["value_defects_outside_c04"]) < 3:
                                ctx.extra["value_defects_outside_c04"].append({"target": t.name, "type": r["gt"].tstr, "bytes": r["hex"], "decoded": fa, "spec_sizes": pf})
                            continue
                    except Exception:
                        continue
                    body = a[2:].strip()
                    vtxt = body.rsplit(" ", 1)[0]
                    try:
                        v = dsdlgen.parse_value(r["gt"].expr, vtxt)
                    except Exception:
                        continue
                    sz = container_sizes(r["gt"].expr, v)
                    obs = "ok sizes=" + (".".join(map(str, sz)) if sz else "-") + " consumed=" + body.rsplit(" ", 1)[1]
                    ctx.traces += 1
                    ctx.count("twice_compared")
                    if obs != p1:
                        ctx.count("twice_matches_before_fix_model" if obs == p0 else "twice_matches_neither")
                        ctx.disagree("twice/" + t.name, {"type": r["gt"].tstr, "request": r["req"]}, p1, obs)
    ctx.sample({"stream": "codec", "namespace": label, "types": len(ns.types), "requests_per_target": len(reqs), "targets": sorted(built)})


# ------------------------------------------------------------------------------------------------------------
# stream O: the capacity-override option of the C target
# ------------------------------------------------------------------------------------------------------------

# all: `uint8 a; <elem>[<=cap] xs; uint8 b`;  eb = element bits, lp = length prefix bits.  The capacities 255 / 65535 are the
# largest value their prefix can hold, 15 / 7 are 2^k-1 below it (a check "the prefix cannot encode more" would be wrong as
# soon as the user reduces the array).
OV_TYPES = {"S8": {"eb": 8, "cap": 6, "lp": 8}, "S16": {"eb": 16, "cap": 6, "lp": 8}, "S7": {"eb": 7, "cap": 6, "lp": 8},
            "B255": {"eb": 8, "cap": 255, "lp": 8}, "W255": {"eb": 16, "cap": 255, "lp": 8}, "B65535": {"eb": 8, "cap": 65535, "lp": 16},
            "B15": {"eb": 8, "cap": 15, "lp": 8}, "B7": {"eb": 8, "cap": 7, "lp": 8},
            # variable-length BIT arrays (`bool[<=cap]`, bit-packed storage); Bits9u: `uint3 a` in front, nothing byte-aligned
            "Bits20": {"eb": 1, "cap": 20, "lp": 8, "bits": True}, "Bits255": {"eb": 1, "cap": 255, "lp": 8, "bits": True},
            "Bits9u": {"eb": 1, "cap": 9, "lp": 8, "bits": True, "aw": 3}}
OV_KIND = {"S8": "VByte", "S16": "VZero", "S7": "VGen", "B255": "VByte", "W255": "VZero", "B65535": "VByte", "B15": "VByte", "B7": "VByte",
           "Bits20": "VBool", "Bits255": "VBool", "Bits9u": "VBool"}      # row of Gen/CArrayKinds the type is an instance of
OV_CONFIGS_QUICK = [
    ("default", {}),
    ("reduced-a", {"S8": 2, "S16": 2, "S7": 2, "B255": 16, "W255": 16, "B65535": 16, "B15": 4, "B7": 2, "Bits20": 2, "Bits255": 16, "Bits9u": 1}),
    ("reduced-1", {t: 1 for t in OV_TYPES}),
]
OV_CONFIGS_MORE = [
    ("reduced-b", {"S8": 3, "S16": 5, "S7": 3, "B255": 100, "W255": 254, "B65535": 255, "B15": 14, "B7": 6, "Bits20": 9, "Bits255": 100, "Bits9u": 8}),
    ("reduced-c", {"S8": 5, "S16": 3, "S7": 5, "B255": 254, "W255": 2, "B65535": 65534, "B15": 8, "B7": 4, "Bits20": 17, "Bits255": 248, "Bits9u": 0}),
    ("reduced-some", {"S8": 2, "B255": 16, "B65535": 300, "Bits255": 8}),
]


def ov_shape(header_text, t):
    """
    What the generated header of ov.<t> does, read off its text by the translator's reader (translate/c_array_kinds.py):
    -> dict(flags=(a, prefix, elements, b checked), stor_macro, cmp_ser, cmp_de)
    """
    from translate import c_array_kinds as ak
    tname = f"ov_{t}_1_0"
    d = OV_TYPES[t]
    macro = f"{tname}_xs_ARRAY_CAPACITY_"
    flags = ak.write_flags(header_text, tname)
    member = "bitpacked" if d.get("bits") else "elements"
    sm = re.search(r"struct[^\n]*\n\s*\{(.*?)\n\s*size_t count;\n\s*\} xs;", header_text, re.S)
    am = re.search(r"^\s*[A-Za-z_][\w ]*\s" + member + r"\[(.*)\];\s*$", sm.group(1), re.M) if sm else None
    if not am:
        raise RuntimeError(f"{tname}: member {member} not found")
    body = ak.serializer_blocks(header_text, tname)[0]
    dm = re.search(r"static inline int8_t " + tname + r"_deserialize_\((.*?)\n}\n", header_text, re.S)
    cs = re.findall(r"if \(obj->xs\.count > (.*)\)\n", body)
    cd = re.findall(r"if \(out_obj->xs\.count > (.*)\)\n", dm.group(1) if dm else "")
    if len(cs) != 1 or len(cd) != 1:
        raise RuntimeError(f"{tname}: length comparisons not found")
    return {"flags": flags, "stor_macro": macro in am.group(1), "dim": am.group(1).strip(),
            "cmp_ser": ak.classify_cmp(cs[0], macro, "obj->xs", d["cap"]), "cmp_de": ak.classify_cmp(cd[0], macro, "out_obj->xs", d["cap"])}


def ov_fields(t, shape, usr):
    """Model fields of ov.<t> when the user defined the capacity macro as `usr` (None: not defined) -> (fields, cmpStorage flag)"""
    d = OV_TYPES[t]
    ac, lpc, ec, bc = shape["flags"]
    sl = d["cap"] if usr is None else usr
    if d.get("bits"):
        if shape["cmp_ser"] not in ("lit", "macro") or shape["cmp_de"] not in ("lit", "macro"):
            raise RuntimeError(f"{t}: a bit array compared by {shape['cmp_ser']}/{shape['cmp_de']} is outside the model")
        arr = f"vb:{d['lp']}:{d['cap']}:{sl}:{int(shape['stor_macro'])}:{shape['cmp_ser']}:{shape['cmp_de']}:{int(lpc)}"
        cs = "0"
    else:
        if shape["cmp_ser"] != shape["cmp_de"] or shape["cmp_ser"] not in ("lit", "storage"):
            raise RuntimeError(f"{t}: comparisons {shape['cmp_ser']}/{shape['cmp_de']} are outside the model")
        arr = f"v:{d['lp']}:{d['eb']}:{d['cap']}:{sl if shape['stor_macro'] else d['cap']}:{int(lpc)}:{int(ec)}"
        cs = "1" if shape["cmp_ser"] == "storage" else "0"
    return f"p:{d.get('aw', 8)}:{int(ac)};{arr};p:8:{int(bc)}", cs


def ov_real_slots(t, shape, usr):
    """how many elements (bit arrays: bits = 8 * sizeof(bitpacked)) the C array of ov.<t> really has"""
    d = OV_TYPES[t]
    n = d["cap"] if (usr is None or not shape["stor_macro"]) else usr
    return 8 * ((n + 7) // 8) if d.get("bits") else n


def ov_wire(t, count, extra_len):
    """a message of ov.<t>: a = 0x5A (truncated to its width), the length prefix `count`, then `extra_len` bytes of payload"""
    d = OV_TYPES[t]
    aw, lp = d.get("aw", 8), d["lp"]
    val = (0x5A & ((1 << aw) - 1)) | (count << aw)
    nbits = aw + lp
    for i in range(extra_len):
        val |= ((0x30 + i) & 0x7F) << nbits
        nbits += 8
    return val.to_bytes((nbits + 7) // 8, "little")


def override_prepare(ctx):
    """generate + list the compile jobs; override_build(state) compiles"""
    base = ctx.scratch / "override"
    gen = base / "gen"
    base.mkdir(parents=True, exist_ok=True)
    configs = OV_CONFIGS_QUICK if ctx.quick else OV_CONFIGS_QUICK + OV_CONFIGS_MORE
    jobs = []
    for name, red in configs:
        exe = base / f"ov_{name}"
        defs = [f"-Dov_{t}_1_0_xs_ARRAY_CAPACITY_={n}U" for t, n in red.items()]
        jobs.append((name, red, exe, ["gcc", "-std=c11", "-Wall", "-Wno-unused-function"] + SAN + defs +
                     ["-I", str(gen), str(HERE / "c" / "c04_override.c"), "-o", str(exe), "-lm"]))
    # C++: the same types; the application switches the up-front buffer check off with the macro the option provides
    cpp_jobs = []
    nocheck = [f"-Dov_{t}_1_0_DISABLE_SERIALIZATION_BUFFER_CHECK_" for t in OV_TYPES]
    for std in (("c++14", "c++17") if ctx.quick else ("c++14", "c++17", "c++20")):
        g = base / ("gencpp_" + std.replace("+", "p"))
        for cname, defs in (("default", []), ("nocheck", nocheck)):
            exe = base / f"ovcpp_{std.replace('+', 'p')}_{cname}"
            cpp_jobs.append((std, cname, g, exe, ["g++", f"-std={std}", "-Wall", "-Wno-unused-function", "-include", "variant"] + SAN + defs +
                             ["-I", str(g), str(HERE / "cpp" / "c04_override.cpp"), "-o", str(exe)]))
    return {"base": base, "gen": gen, "configs": configs, "jobs": jobs, "res": None, "gen_log": None, "cpp_jobs": cpp_jobs, "cpp_res": None}


def override_build(state):
    env = dict(os.environ)
    env["PYTHONPATH"] = str(common.REPO / "src")
    p = subprocess.run([common.PY, "-m", "nunavut", "--target-language", "c", "--enable-override-variable-array-capacity", "--outdir", str(state["gen"]),
                        str(CORPUS / "override" / "ov")], capture_output=True, text=True, timeout=600, env=env)
    if p.returncode != 0:
        state["gen_log"] = (p.stdout + p.stderr)[-2000:]
        return
    (state["gen"] / "c04_codes.h").write_text(codes_header())
    def cpp_job(j):
        std, cname, g, exe, cmd = j
        if cname == "default":      # generate once per standard (the second configuration of a standard waits for the first)
            q = subprocess.run([common.PY, "-m", "nunavut", "--experimental-languages", "--target-language", "cpp", "--language-standard", std,
                                "--enable-override-variable-array-capacity", "--outdir", str(g), str(CORPUS / "override" / "ov")],
                               capture_output=True, text=True, timeout=600, env=env)
            if q.returncode != 0:
                return False, (q.stdout + q.stderr)[-2000:]
            (g / "c04_codes.h").write_text(codes_header())
        return None
    with concurrent.futures.ThreadPoolExecutor(8) as ex:
        gens = list(ex.map(cpp_job, [j for j in state["cpp_jobs"] if j[1] == "default"]))
        fut_c = [ex.submit(compile_cmd, j[3]) for j in state["jobs"]]
        bad_gen = [g for g in gens if g is not None]
        fut_cpp = [ex.submit(compile_cmd, j[4]) for j in state["cpp_jobs"]] if not bad_gen else []
        state["res"] = [f.result() for f in fut_c]
        state["cpp_res"] = [f.result() for f in fut_cpp] if not bad_gen else [bad_gen[0]] * len(state["cpp_jobs"])


def override_stream(ctx, vdrv, state):
    if state["res"] is None:
        ctx.broken.append({"kind": "override-generate", "log_tail": state["gen_log"]})
        return
    gen, configs, jobs, res = state["gen"], state["configs"], state["jobs"], state["res"]
    shapes = {}
    for t, d in OV_TYPES.items():
        try:
            shapes[t] = ov_shape((gen / "ov" / f"{t}_1_0.h").read_text(), t)
            ov_fields(t, shapes[t], None)
        except Exception as e:
            ctx.broken.append({"kind": "override-translate", "type": t, "error": f"{type(e).__name__}: {str(e)[:600]}"})
            return
    ctx.extra["override_length_check_uses_real_capacity"] = all(sh["cmp_ser"] == "storage" for t, sh in shapes.items() if not OV_TYPES[t].get("bits"))
    ctx.extra["override_bit_array_shape"] = {t: {"dimension": sh["dim"], "cmp_ser": sh["cmp_ser"], "cmp_de": sh["cmp_de"]}
                                             for t, sh in shapes.items() if OV_TYPES[t].get("bits")}
    # the generated table of array kinds (Gen/CArrayKinds.lean, what the theorems are about) must describe these headers:
    # the field the Lean row yields for (prefix, element bits, capacity, user capacity) = the field read off the text here
    if vdrv is not None:
        rq, exp = [], []
        for t, d in OV_TYPES.items():
            for usr in (d["cap"], 1, max(1, d["cap"] // 2)):
                rq.append(f"rowfield {OV_KIND[t]} 1 0 {d['lp']} {d['eb']} {d['cap']} {usr}")
                f, cs = ov_fields(t, shapes[t], usr)
                exp.append(f.split(";")[1])
        for q, a, e in zip(rq, vdrv.ask(rq), exp):
            ctx.traces += 1
            ctx.count("override_table_rows_compared")
            got = a.split(" ")[1] if a.startswith("ok ") else a
            # the table's corpus type fixes which writes are checked for ITS alignment; dimension, bounds and user capacity must agree
            strip = (lambda x: ":".join(x.split(":")[:-1])) if e.startswith("vb:") else (lambda x: ":".join(x.split(":")[:-2]))
            if strip(got) != strip(e):
                ctx.disagree("override/array-kind-table", {"request": q}, a, e)
    for (name, red, exe, cmdline), (ok, log) in zip(jobs, res):
        if not ok:
            ctx.broken.append({"kind": "override-build", "config": name, "log_tail": log[-2000:]})
            continue
        defines = " ".join(x for x in cmdline if x.startswith("-Dov_")) or "(none)"
        lines, meta = [], []
        for t, d in OV_TYPES.items():
            eb, cap, lp, aw = d["eb"], d["cap"], d["lp"], d.get("aw", 8)
            usr = red.get(t)
            slots = ov_real_slots(t, shapes[t], usr)          # elements (bits) really in the C array
            macro = cap if usr is None else usr                # value of the capacity macro
            lines.append(f"info {t}"); meta.append((t, "info", None))
            need_bits = lambda c: aw + lp + c * eb + 8
            counts = set(range(0, min(cap, 8) + 3)) | {macro - 1, macro, macro + 1, macro + 2, (macro + cap) // 2, cap - 1, cap, cap + 1,
                                                         slots - 1, slots, slots + 1, 200, 255, 256, 65535, 70000}
            counts = sorted(c for c in counts if c >= 0)
            for count in counts:
                maxb = (need_bits(min(count, slots)) + 7) // 8
                caps = {max(0, maxb - 1), maxb, maxb + 1, (need_bits(cap) + 7) // 8, 64}
                if usr is None or count in (0, macro):
                    caps |= {0, 1, 2}       # (with the buffer check compiled out every too-small buffer is the known overrun: sampled)
                for bcap in sorted(caps):
                    lines.append(f"ser {t} {count} {bcap}"); meta.append((t, "ser", (count, bcap)))
            for count in counts:
                if count >= 1 << lp:
                    continue
                lens = (0, 1, (count * eb + 7) // 8 + 1, 40) if count <= 300 else (0, 1, 40)
                for extra_len in lens:
                    data = ov_wire(t, count, extra_len)
                    lines.append(f"de {t} {data.hex()}"); meta.append((t, "de", (count, data)))
            lines.append(f"de {t} -"); meta.append((t, "de", (0, b"")))
            # NULL arguments: every combination, both directions (totality: INVALID_ARGUMENT, nothing touched)
            for mask in range(8):
                lines.append(f"null {t} ser {mask}"); meta.append((t, "nullser", (mask, None)))
                for data in (b"", ov_wire(t, 1, 3)):
                    lines.append(f"null {t} de {mask} {data.hex() or '-'}"); meta.append((t, "nullde", (mask, data)))
        answers, exit_kind = run_lines(exe, lines, max_crashes=4000)
        # model
        mlines = []
        for (t, op, arg) in meta:
            d = OV_TYPES[t]
            usr = red.get(t)
            check = "0" if t in red else "1"      # a user-defined capacity macro of a type compiles ITS buffer check out (see `info`)
            fields, cs = ov_fields(t, shapes[t], usr)
            if op == "ser":
                mlines.append(f"cser {check} {cs} {arg[1]} {fields} p;c:{arg[0]};p")
            elif op == "de":
                mlines.append(f"cde {cs} {fields} {arg[1].hex() or '-'}")
            elif op == "nullser":
                mk = arg[0]
                mlines.append(f"cserapi {mk & 1} {(mk >> 1) & 1} {(mk >> 2) & 1} {check} {cs} 80000 {fields} p;c:0;p")
            elif op == "nullde":
                mk = arg[0]
                mlines.append(f"cdeapi {mk & 1} {(mk >> 1) & 1} {(mk >> 2) & 1} {cs} {fields} {arg[1].hex() or '-'}")
            else:
                mlines.append(None)
        mans = vdrv.ask([m for m in mlines if m is not None]) if vdrv is not None else []
        it = iter(mans)
        nfail = {}
        for (t, op, arg), l, a, ml in zip(meta, lines, answers, mlines):
            d = OV_TYPES[t]
            usr = red.get(t)
            slots = ov_real_slots(t, shapes[t], usr)
            check = "0" if t in red else "1"
            bits = bool(d.get("bits"))
            if op == "info":
                mm = re.match(r"ok sl=(\d+) cap=(\d+) check=(\d)", a)
                real = slots // 8 if bits else slots       # bit arrays report sizeof(bitpacked)
                if not mm or int(mm.group(1)) != real or int(mm.group(2)) != d["cap"] or mm.group(3) != check:
                    ctx.disagree("override/info", {"config": name, "request": l}, f"sl={real} cap={d['cap']} check={check}", a)
                continue
            m = next(it) if vdrv is not None else None
            ctx.case(("O", name, l), nontrivial=(usr is not None and usr != d["cap"]))
            ctx.count("override_" + op + ("_bits" if bits else ""))
            dsdl = f"uint{d.get('aw', 8)} a\n{'bool' if bits else 'uint' + str(d['eb'])}[<={d['cap']}] xs\nuint8 b\n@sealed\n"
            rp = {"stream": "override", "config": name, "defines": defines,
                  "nnvg": "--target-language c --enable-override-variable-array-capacity", "dsdl": dsdl,
                  "request": l, "observed": a, "model": m}

            def fail(key, what):
                kk = json.dumps(key, sort_keys=True)
                nfail[kk] = nfail.get(kk, 0) + 1
                if nfail[kk] <= 2:
                    ctx.fail(key, what, rp)
            if op in ("nullser", "nullde"):
                if a.startswith("crash:"):
                    fail({"kind": a.split(":", 1)[1], "target": "c/override", "construct": "null-argument"}, "a NULL argument is dereferenced")
                elif a.startswith("err:") and a not in DOCUMENTED | {"err:invalid-argument"}:
                    fail({"kind": "undocumented-error", "target": "c/override", "construct": op, "error": a}, "undocumented outcome")
                if m is not None:
                    ctx.traces += 1
                    cm = "ok" if m.startswith("ok") else m
                    ca = "ok" if a.startswith("ok") else a
                    if ca != cm:
                        ctx.disagree("override/" + name, {"request": l}, m, a)
                continue
            count = arg[0]
            if slots < count <= d["cap"]:
                ctx.count("override_count_between_real_and_dsdl_capacity" + ("_bits" if bits else ""))
            if d["cap"] + 1 == 1 << d["lp"]:
                ctx.count("override_capacity_is_prefix_maximum")
            left_object = False
            if a.startswith("crash:") or a.startswith("guard:"):
                kind = a.split(":", 1)[1].split(" ")[0]
                if m == "oob-buffer" and check == "0":
                    # capacity check compiled out by the documented option and a buffer below what the reduced capacities need
                    fail({"kind": kind, "target": "c/override", "construct": "serialize-capacity-check-disabled"},
                         "with a user-overridden capacity the serialization buffer check is compiled out; a buffer smaller than the message overruns")
                else:
                    fail({"kind": kind, "target": "c/override" if usr is not None else "c",
                          "construct": f"{'deserialize' if op == 'de' else 'serialize'}-{'bit-' if bits else ''}array-length-check"},
                         "the generated C code leaves the object / buffer")
                left_object = True
            elif a.startswith("ok") and count > slots and (op == "ser" or (op == "de" and int(a.split(" ")[1]) > slots)):
                # success is only possible by accessing elements the array does not have
                fail({"kind": "object-overflow", "target": "c/override",
                      "construct": f"{'deserialize' if op == 'de' else 'serialize'}-{'bit-' if bits else ''}array-length-check"},
                     f"count {count} accepted for an array of {slots} {'bits' if bits else 'elements'}: the routine accessed elements outside the object")
                left_object = True
            elif a.startswith("err:") and a not in DOCUMENTED:
                fail({"kind": "undocumented-error", "target": "c/override", "construct": op, "error": a}, "undocumented outcome")
            if m is not None:
                ctx.traces += 1
                if m in ("oob-object", "oob-buffer"):
                    if not left_object:
                        ctx.disagree("override/" + name, {"request": l}, m, a)
                elif left_object:
                    ctx.disagree("override/" + name, {"request": l}, m, a)
                else:
                    cm = ("ok", int(m.split(" ")[1]) // 8) if m.startswith("ok") else ("err", m[4:]) if m.startswith("err:") else ("other", m)
                    if op == "ser":
                        ca = outcome_class(a, "ser")
                    else:
                        ca = ("ok", None) if a.startswith("ok") else outcome_class(a, "de")
                        cm = ("ok", None) if cm[0] == "ok" else cm
                    if ca != cm:
                        ctx.disagree("override/" + name, {"request": l}, m, a)
        if exit_kind:
            ctx.fail({"kind": exit_kind, "target": "c/override", "construct": "exit"}, "sanitizer report at exit", {"stream": "override", "config": name})
    # ---- C++: with every write going through the checked setters, the buffer stays protected even without the up-front check
    for (std, cname, g, exe, cmd), (ok, log) in zip(state["cpp_jobs"], state["cpp_res"] or []):
        if not ok:
            ctx.broken.append({"kind": "override-build", "config": f"cpp/{std}/{cname}", "log_tail": log[-2000:]})
            continue
        check = "1" if cname == "default" else "0"
        lines, meta = [], []
        for t, d in OV_TYPES.items():
            if d.get("bits"):
                continue        # the C++ types keep bool arrays in a container: no bit-packed C array to overrun
            eb, cap, lp = d["eb"], d["cap"], d["lp"]
            lines.append(f"info {t}"); meta.append((t, "info", None))
            need = lambda c: (8 + lp + c * eb + 8 + 7) // 8
            for count in sorted({0, 1, 2, 3, min(cap, 100), cap - 1, cap, cap + 1}):
                n = need(min(count, cap))
                for bcap in sorted({0, 1, 2, n // 2, max(0, n - 2), max(0, n - 1), n, n + 1, need(cap), need(cap) + 1}):
                    lines.append(f"ser {t} {count} {bcap}"); meta.append((t, "ser", (count, bcap)))
        answers, exit_kind = run_lines(exe, lines, max_crashes=2000)
        mlines = [f"cser {check} 0 {a[1]} p:8:1;v:{OV_TYPES[t]['lp']}:{OV_TYPES[t]['eb']}:{OV_TYPES[t]['cap']}:{OV_TYPES[t]['cap']}:1:1;p:8:1 p;c:{a[0]};p"
                  for t, op, a in meta if op == "ser"]
        mans = iter(vdrv.ask(mlines) if vdrv is not None else [])
        nfail = 0
        for (t, op, arg), l, a in zip(meta, lines, answers):
            if op == "info":
                if a != f"ok check={check}":
                    ctx.disagree("override/cpp-info", {"config": f"{std}/{cname}", "request": l}, f"ok check={check}", a)
                continue
            m = next(mans, None)
            ctx.case(("Ocpp", std, cname, l), nontrivial=(cname == "nocheck"))
            ctx.count("override_cpp_ser")
            rp = {"stream": "override-cpp", "std": std, "config": cname, "defines": " ".join(x for x in cmd if x.startswith("-Dov_")) or "(none)",
                  "nnvg": f"--target-language cpp --language-standard {std} --enable-override-variable-array-capacity",
                  "dsdl": f"uint8 a\nuint{OV_TYPES[t]['eb']}[<={OV_TYPES[t]['cap']}] xs\nuint8 b\n@sealed\n", "request": l, "observed": a, "model": m}
            bad = False
            if a.startswith("crash:"):
                bad = True
                nfail += 1
                if nfail <= 3:
                    ctx.fail({"kind": a.split(":", 1)[1], "target": "cpp/override", "construct": "serialize-capacity-check-disabled" if check == "0" else "serialize"},
                             "C++ serialization leaves the buffer: with the up-front check switched off the per-write checks must still return "
                             "SerializationBufferTooSmall", rp)
            elif a.startswith("err:") and a not in DOCUMENTED:
                ctx.fail({"kind": "undocumented-error", "target": "cpp/override", "construct": "serialize", "error": a}, "undocumented outcome", rp)
            if m is not None:
                ctx.traces += 1
                cm = ("ok", int(m.split(" ")[1]) // 8) if m.startswith("ok") else ("err", m[4:]) if m.startswith("err:") else ("other", m)
                if bad or outcome_class(a, "ser") != cm:
                    ctx.disagree(f"override/cpp/{std}/{cname}", {"request": l}, m, a)
    ctx.sample({"stream": "override", "configs": [c[0] for c in configs], "checked_setter_used_for": {t: dict(zip(("a", "prefix", "elements", "b"), sh["flags"])) for t, sh in shapes.items()}})


# ------------------------------------------------------------------------------------------------------------
# stream P: the support primitives of every endianness rendering at every byte misalignment of the user buffer
# ------------------------------------------------------------------------------------------------------------

PRIM_RENDERINGS = ("any", "little", "big")


def prims_cases(ctx):
    """-> list of (C request, C++ request) without the leading misalignment; rng-dependent, call in the main thread"""
    rng = ctx.rng
    hx = lambda b: b.hex() if b else "-"
    if ctx.quick:
        sizes, offs = [0, 1, 2, 3, 4, 5, 8, 9], [0, 1, 7, 8, 9, 15, 16, 17, 24, 31, 32, 40]
        setlens, bitlens = [1, 7, 8, 9, 16, 17, 32, 33, 63, 64, 65], [0, 1, 7, 8, 9, 16, 33]
    else:
        sizes, offs = list(range(0, 14)) + [16, 17], list(range(0, 34)) + [39, 40, 41, 56, 63, 64, 65, 72]
        setlens, bitlens = [0, 1, 2, 7, 8, 9, 15, 16, 17, 24, 31, 32, 33, 40, 48, 56, 63, 64, 65, 255], [0, 1, 2, 7, 8, 9, 15, 16, 17, 33, 64, 65]
    out = []
    for size in sizes:
        for off in offs:
            buf = bytes(rng.getrandbits(8) for _ in range(size)) if (size + off) % 3 else bytes([0xFF]) * size
            h = hx(buf)
            for w in (8, 16, 32, 64):
                for n in sorted({1, w - 1, w, w + 1}):
                    for sg in "ui":
                        out.append((f"get{sg}{w} {h} {size} {off} {n}", f"x.get{sg}{w} {h} {off} {n}"))
            for n in setlens:
                val = rng.choice([(1 << 64) - 1, 0, rng.getrandbits(64), rng.getrandbits(min(n, 64)) if n else 0])     # a uint64_t argument
                out.append((f"setu {h} {size} {off} {val} {n}", f"x.setu {h} {off} {val} {n}"))
                ival = rng.choice([-1, 0, -(1 << 63), (1 << 63) - 1, rng.getrandbits(64) - (1 << 63)])
                out.append((f"seti {h} {size} {off} {ival} {n}", f"x.seti {h} {off} {ival} {n}"))
            bit = rng.getrandbits(1)
            out.append((f"setbit {h} {size} {off} {bit}", f"x.setbit {h} {off} {bit}"))
            out.append((f"getbit {h} {size} {off}", f"x.getbit {h} {off}"))
            for n in bitlens:
                o = bytes(rng.getrandbits(8) for _ in range((n + 7) // 8))
                out.append((f"getbits {hx(o)} {h} {size} {off} {n}", f"x.getbits {h} {off} {hx(o)} {n}"))
            for w in (16, 32, 64):
                fb = rng.choice([0, 1 << (w - 1 if w != 16 else 31), rng.getrandbits(32 if w != 64 else 64), 0x3F800000 if w != 64 else 0x3FF0000000000000,
                                 0x7F800000 if w != 64 else 0x7FF0000000000000, 0x477FE000 if w != 64 else 0x40EFFC0000000000])
                out.append((f"setf{w} {h} {size} {off} {fb:x}", f"x.setf{w} {h} {off} {fb:x}"))
                out.append((f"getf{w} {h} {size} {off}", f"x.getf{w} {h} {off}"))
    cl = [0, 1, 8, 13, 16, 64, 65] if ctx.quick else [0, 1, 7, 8, 9, 13, 16, 31, 32, 33, 64, 65, 200]
    co = [0, 3, 8, 11] if ctx.quick else [0, 1, 3, 7, 8, 9, 11, 16, 21]
    for s_off in co:
        for d_off in co:
            for n in cl:
                src = bytes(rng.getrandbits(8) for _ in range((s_off + n + 7) // 8 if n else 0))
                dst = bytes(rng.getrandbits(8) for _ in range((d_off + n + 7) // 8 if n else 0))
                out.append((f"copy {hx(dst)} {d_off} {n} {hx(src)} {s_off}", f"x.copy {hx(dst)} {d_off} {hx(src)} {s_off} {n}"))
    return out


def prims_prepare(ctx):
    base = ctx.scratch / "prims"
    base.mkdir(parents=True, exist_ok=True)
    progs = []
    for e in PRIM_RENDERINGS:
        progs.append({"lang": "c", "endianness": e, "std": "c11", "name": f"c/{e}/prims", "dir": base / f"c_{e}", "exe": base / f"prims_c_{e}"})
    stds = {"any": ["c++14"], "little": ["c++14"] + ([] if ctx.quick else ["c++17", "c++20"]), "big": ["c++14"]}
    for e in PRIM_RENDERINGS:
        for std in stds[e]:
            tag = std.replace("+", "p")
            progs.append({"lang": "cpp", "endianness": e, "std": std, "name": f"cpp/{std}/{e}/prims", "dir": base / f"{tag}_{e}", "exe": base / f"prims_{tag}_{e}"})
    return {"base": base, "progs": progs, "cases": prims_cases(ctx)}


def prims_build_one(pr, nsdir):
    env = dict(os.environ, PYTHONPATH=str(common.REPO / "src"), PYTHONDONTWRITEBYTECODE="1")
    cmd = [common.PY, "-m", "nunavut", "--target-language", pr["lang"], "--experimental-languages", "--generate-support", "only",
           "--target-endianness", pr["endianness"], "-O", str(pr["dir"])]
    if pr["lang"] == "cpp":
        cmd += ["--language-standard", pr["std"]]
    p = subprocess.run(cmd + [str(nsdir)], env=env, capture_output=True, text=True, timeout=600)
    if p.returncode != 0:
        pr["ok"], pr["log"] = False, (p.stdout + p.stderr)[-2000:]
        return
    if pr["lang"] == "c":
        cc = ["gcc", "-std=c11", "-Wall", "-Wno-unused-function"] + SAN + ["-I", str(pr["dir"]), str(HERE / "c" / "c04_prims.c"), "-o", str(pr["exe"]), "-lm"]
    else:
        cc = ["g++", f"-std={pr['std']}", "-Wall", "-Wno-unused-function"] + SAN + ["-I", str(pr["dir"]), str(HERE / "cpp" / "c04_prims.cpp"), "-o", str(pr["exe"])]
    pr["cmd"] = cc
    pr["ok"], pr["log"] = compile_cmd(cc)


def prims_build(state):
    nsdir = state["base"] / "ns"
    nsdir.mkdir(exist_ok=True)
    (nsdir / "A.1.0.dsdl").write_text("uint8 x\n@sealed\n")
    with concurrent.futures.ThreadPoolExecutor(NCPU) as ex:
        list(ex.map(lambda pr: prims_build_one(pr, nsdir), state["progs"]))


def prims_float_ref(req):
    """raw-bit reference of the 32/64-bit float accessors (they are bit copies); None for float16 (value: property C14)"""
    t = req.split(" ")
    op = t[0][2:] if t[0].startswith("x.") else t[0]
    cpp = t[0].startswith("x.")
    w = int(op[4:])
    if w == 16:
        return None
    buf = b"" if t[1] == "-" else bytes.fromhex(t[1])
    off = int(t[2]) if cpp else int(t[3])
    size = len(buf) if cpp else int(t[2])
    if op.startswith("setf"):
        bits = int(t[-1], 16)
        if size * 8 < off + w:
            return "ok -3 " + (buf.hex() or "-")
        v = int.from_bytes(buf, "little")
        m = ((1 << w) - 1) << off
        return "ok 0 " + (((v & ~m) | ((bits << off) & m)).to_bytes(len(buf), "little").hex() or "-")
    v = (int.from_bytes(buf[:size], "little") >> off) & ((1 << w) - 1)
    return f"ok {v:x}"


def prims_stream(ctx, bdrv, state):
    from . import c14
    oracle = c14.Oracle()
    cases = state["cases"]
    ctx.extra["prims_domain"] = {"requests_per_program": len(cases) * 8, "programs": [p["name"] for p in state["progs"]],
                                 "rule": "every getter / setter / bit copy of the support header x buffer sizes x bit offsets x lengths around each width, "
                                         "each at buffer base misalignment 0..7 (buffer flush with the end of its heap block, guard bytes in front)"}
    # the model is asked once per distinct request (it has no addresses: the prediction is the same for every misalignment)
    def model_line(req, pr):
        op = req.split(" ", 1)[0]
        if "f" in op.replace("x.", "")[3:4]:
            return None
        if pr["lang"] == "c" and pr["endianness"] == "little" and re.fullmatch(r"(setu|seti|get[ui]\d+)", op):
            return op + "_le " + req.split(" ", 1)[1]
        return req
    for pr in state["progs"]:
        if not pr.get("ok"):
            ctx.broken.append({"kind": "prims-build", "target": pr["name"], "log_tail": pr.get("log", "")[-2500:]})
            continue
        idx = 0 if pr["lang"] == "c" else 1
        reqs = [c[idx] for c in cases]
        lines = [f"{k} {r}" for r in reqs for k in range(8)]
        answers, exit_kind = run_lines(pr["exe"], lines, max_crashes=40)
        mlines = [model_line(r, pr) for r in reqs]
        uniq = list(dict.fromkeys(m for m in mlines if m is not None))
        mans = dict(zip(uniq, bdrv.ask(uniq, timeout=1200))) if bdrv is not None else {}
        nfail = {}

        def fail(key, what, rp):
            kk = json.dumps(key, sort_keys=True)
            nfail[kk] = nfail.get(kk, 0) + 1
            if nfail[kk] <= 2:
                ctx.fail(key, what, rp)
        for i, r in enumerate(reqs):
            grp = answers[8 * i: 8 * i + 8]
            op = r.split(" ", 1)[0]
            fam = re.sub(r"\d+$", "", op.replace("x.", ""))
            isf = fam in ("setf", "getf")
            m = mans.get(mlines[i]) if mlines[i] is not None else None
            ref = prims_float_ref(r) if isf else oracle.answer(r)
            for k, a in enumerate(grp):
                ctx.case(("P", pr["name"], k, r), nontrivial=(k != 0))
                ctx.count("prims_" + fam)
                rp = {"stream": "prims", "target": {k2: str(v) for k2, v in pr.items() if k2 in ("lang", "endianness", "std", "name")},
                      "request": f"{k} {r}", "observed": a, "model": m, "reference": ref}
                if a == "crash:too-many":
                    ctx.count("prims_not_run_after_too_many_crashes")
                    continue
                if a.startswith("crash:"):
                    fail({"kind": a.split(":", 1)[1], "target": pr["name"], "construct": "support-" + fam},
                         f"{pr['name']}: the support primitive died under the sanitizers with the buffer at address offset {k}", rp)
                elif a.startswith("GUARD"):
                    fail({"kind": "write-in-front-of-buffer", "target": pr["name"], "construct": "support-" + fam},
                         f"{pr['name']}: bytes in front of the user buffer were modified", rp)
                elif a != grp[0] and not grp[0].startswith(("crash:", "GUARD")):
                    fail({"kind": "address-dependent-result", "target": pr["name"], "construct": "support-" + fam},
                         f"{pr['name']}: the same call gives another result when the buffer sits at address offset {k}", dict(rp, at_offset_0=grp[0]))
                elif ref is not None and a != ref:
                    fail({"kind": "wrong-result", "target": pr["name"], "construct": "support-" + fam},
                         f"{pr['name']}: the primitive's result differs from its contract", rp)
                if m is not None:
                    ctx.traces += 1
                    if a != m:
                        ctx.disagree("prims/" + pr["name"], {"request": f"{k} {r}"}, m, a)
        if exit_kind:
            ctx.fail({"kind": exit_kind, "target": pr["name"], "construct": "support-exit"}, "sanitizer report at exit of the primitives program",
                     {"stream": "prims", "target": {"name": pr["name"]}, "note": "report at process exit"})
    ctx.sample({"stream": "prims", "request": "3 " + cases[40][0], "programs": len(state["progs"])})


# ------------------------------------------------------------------------------------------------------------
# run / replay
# ------------------------------------------------------------------------------------------------------------

def run(ctx: common.Ctx):
    sys.path.insert(0, str(common.VERIF))
    from translate import variant_tables
    tables = None
    try:
        tables, changed = variant_tables.generate()
        ctx.extra["translator"] = {"file": "lean/NunavutVerif/Gen/VariantTables.lean", "rewritten": changed, "unions": len(tables)}
    except Exception as e:
        ctx.broken.append({"kind": "translator", "error": f"{type(e).__name__}: {str(e)[:1500]}"})
    codes = None
    try:
        from translate import c_array_kinds
        rows, codes, changed2 = c_array_kinds.generate()
        ctx.extra["translator_array_kinds"] = {"files": ["lean/NunavutVerif/Gen/CArrayKinds.lean", "lean/NunavutVerif/Gen/ErrorCodes.lean"], "rewritten": changed2,
                                               "rows": len(rows), "unsafe_rows": [f"{r['kind']}/override={int(r['override'])}/little={int(r['little'])}" for r in rows
                                                                                  if r["variable"] and r["overridable"] and r["storMacro"] and "lit" in (r["cmpSer"], r["cmpDe"])]}
    except Exception as e:
        ctx.broken.append({"kind": "translator", "target": "c_array_kinds", "error": f"{type(e).__name__}: {str(e)[:1500]}"})
        try:
            codes = c_array_kinds.error_codes()
        except Exception as e2:
            ctx.broken.append({"kind": "translator", "target": "error_codes", "error": f"{type(e2).__name__}: {str(e2)[:1500]}"})
    # C04_genC_* (memory safety of the implementation-shaped C model in both directions, documented exits only, no
    # serialization assert can fail, prior-state independence of decoding) live in Properties/C01Refine.lean
    _refine = [m for m in ("C01Refine", "C01RefineCpp") if (common.LEAN / "NunavutVerif" / "Properties" / f"{m}.lean").exists()]
    drivers = ctx.prove(["C04"] + _refine, exes=["variant", "codec", "bits"], name_filter=(lambda n: n.startswith("C04_")) if _refine else None)
    vdrv = drivers.get("variant")
    if codes is None:       # nothing to judge return codes by: keep the historical set so that the other streams still run
        codes = {"c": [("NUNAVUT_ERROR_INVALID_ARGUMENT", 2), ("NUNAVUT_ERROR_SERIALIZATION_BUFFER_TOO_SMALL", 3), ("NUNAVUT_ERROR_REPRESENTATION_BAD_ARRAY_LENGTH", 10),
                       ("NUNAVUT_ERROR_REPRESENTATION_BAD_UNION_TAG", 11), ("NUNAVUT_ERROR_REPRESENTATION_BAD_DELIMITER_HEADER", 12)],
                 "cpp": [("SerializationBufferTooSmall", 3), ("SerializationBadArrayLength", 10), ("RepresentationBadUnionTag", 11), ("RepresentationBadDelimiterHeader", 12)],
                 "c_returned": [], "cpp_returned": []}
        documented_codes(ctx, codes, None)
    else:
        documented_codes(ctx, codes, vdrv)
    ctx.rule = ("V: corpus op sequences; every op sequence of length <= L over one object slot and every op pair over two slots for every union of two "
                "alternatives over {primitive, std::array, variable array, owning struct, flat struct}; seeded random sequences (1-3 slots, length 3-20) "
                "for the sampled (quick) / all (thorough) 263 field-kind lists.  K: corpus namespace + seeded random namespace; per type: boundary-"
                "biased valid values and values with counts above the capacity / tags outside the option range, serialized into exact-size buffers of "
                "0, 1, need-1, need, max-1, max, max+1 bytes; valid encodings, truncations, extensions, bit flips, random strings deserialized into "
                "fresh / 0x00 / 0xAA / 0xFF / 0xA5-filled / previously used objects.  O: 3 element widths x counts 0..8,255,70000 x buffer sizes "
                "around the need x reduced capacities, bit arrays and NULL arguments included.  P: sizes x bit offsets x lengths around each "
                "width for every support primitive x buffer address offset 0..7 x {any, little, big} x {C, C++}.  non-trivial = the destination was prepared, the object is invalid, or an owning alternative "
                "is involved; distinct by (stream, target, request)")
    ctx.assumptions = ["gcc/clang AddressSanitizer, UndefinedBehaviorSanitizer and LeakSanitizer report the memory events of the compiled code",
                       "libstdc++'s std::vector / std::variant are correct; c04::Tracked stands for std::vector in the instrumented variant build",
                       "buffer reads of the C deserializer saturate (support primitives: property C14)",
                       "PyDSDL's bit length sets (sizes, alignment claims) are right; alignment claims are asserted at run time in the C build"]
    ctx.exhaustive = False
    # ---- phase 1: every rng-dependent choice, in a fixed order, in this thread --------------------------------
    t0 = time.time()
    vstate = variant_prepare(ctx, tables) if tables is not None else None
    ostate = override_prepare(ctx)
    prof = {"p_service": 0.05, "max_type_bits": 6000, "p_big_capacity": 0.0, "p_constants": 0.0}
    nrounds = 1 if ctx.quick else 3
    namespaces = []
    for rnd in range(nrounds):
        root_name = f"vns{rnd}"
        ns = dsdlgen.generate(ctx.rng, ctx.scratch / f"gen_ns{rnd}", n_types=(12 if ctx.quick else 40), root_name=root_name, profile=prof)
        ctx.count("generated_types", len(ns.types))
        ctx.count("dropped_definitions", len(ns.dropped))
        if rnd == 0:
            # the regression types travel as a sub-namespace of the first generated root (one build for both)
            shutil.copytree(CORPUS / "types" / "c04c", ns.root / "c04c")
            ns = dsdlgen.load(ns.root)
        namespaces.append((f"ns{rnd}", ns, codec_prepare(ctx, ns, f"ns{rnd}")))
    pstate = prims_prepare(ctx)       # (after the namespaces: their random choices stay what they were before this stream existed)
    ctx.extra.setdefault("stream_seconds", {})["prepare"] = round(time.time() - t0, 1)
    # ---- phase 2: all builds concurrently ----------------------------------------------------------------------
    t0 = time.time()
    with concurrent.futures.ThreadPoolExecutor(4 + len(namespaces)) as ex:
        futs = []
        if vstate is not None:
            futs.append(ex.submit(build_variant_builds, vstate["builds"]))
        futs.append(ex.submit(override_build, ostate))
        futs.append(ex.submit(prims_build, pstate))
        for _, _, specs in namespaces:
            futs.append(ex.submit(build_targets, specs))
        for f in futs:
            try:
                f.result()
            except Exception as e:
                ctx.broken.append({"kind": "build-phase", "error": f"{type(e).__name__}: {str(e)[:1500]}"})
    ctx.extra["stream_seconds"]["build_all"] = round(time.time() - t0, 1)
    # ---- phase 3: the streams --------------------------------------------------------------------------------------
    t0 = time.time()
    if vstate is not None:
        try:
            variant_stream(ctx, vdrv, vstate)
        except Exception as e:
            ctx.broken.append({"kind": "variant-stream", "error": f"{type(e).__name__}: {str(e)[:1500]}"})
    ctx.extra["stream_seconds"]["variant"] = round(time.time() - t0, 1)
    t0 = time.time()
    try:
        override_stream(ctx, vdrv, ostate)
    except Exception as e:
        ctx.broken.append({"kind": "override-stream", "error": f"{type(e).__name__}: {str(e)[:1500]}"})
    ctx.extra["stream_seconds"]["override"] = round(time.time() - t0, 1)
    t0 = time.time()
    try:
        prims_stream(ctx, drivers.get("bits"), pstate)
    except Exception as e:
        ctx.broken.append({"kind": "prims-stream", "error": f"{type(e).__name__}: {str(e)[:1500]}"})
    ctx.extra["stream_seconds"]["prims"] = round(time.time() - t0, 1)
    t0 = time.time()
    for label, ns, specs in namespaces:
        if ctx.quick:
            codec_stream(ctx, drivers, ns, label, specs, n_values=4, n_invalid=2, n_strings=10)
        else:
            codec_stream(ctx, drivers, ns, label, specs, n_values=8, n_invalid=4, n_strings=24)
    ctx.extra["stream_seconds"]["codec"] = round(time.time() - t0, 1)
    by_stream = {}
    for d in ctx.disagreements:
        by_stream.setdefault(d["stream"], []).append(d)
    ctx.extra["disagreements_by_stream"] = {k: {"n": len(v), "first": v[:3]} for k, v in by_stream.items()}
    ctx.extra["broken_kinds"] = [b.get("kind") + ":" + str(b.get("target", b.get("error", "")))[:200] + " :: " +
                                 " | ".join(re.findall(r"[^\n]*error[^\n]*", str(b.get("log_tail", "")))[:3])[:600] for b in ctx.broken]


def replay(ctx, path):
    """Re-run the failing input of a replay file on the tree under check. Exit 1 when it still fails."""
    sys.path.insert(0, str(common.VERIF))
    r = json.loads(open(path).read())
    rp = r.get("replay", {})
    stream = rp.get("stream")
    from translate import c_array_kinds
    documented_codes(ctx, c_array_kinds.error_codes(), None)
    if stream == "variant" and "kinds" in rp:
        from translate import variant_tables as vt
        base = ctx.scratch / "rv"
        ns_dir = vt.write_namespace(base / "ns", [rp["kinds"]])
        tracked = "tracked" in rp.get("build", "")
        std = "c++17" if "c++17" in rp.get("build", "") else "c++14"
        b = VariantBuild(rp.get("build", "cpp/c++14"), base / "b", ns_dir, [rp["kinds"]], std, tracked=tracked, sanitize=not tracked)
        build_variant_builds([b])
        if not b.ok:
            print("build failed:", b.log[-1500:]); ctx.cleanup(); return 2
        ans, kind = run_lines(b.exe, [f"{rp['kinds']} {rp['slots']} {rp['ops']}"], env=dict(os.environ) if tracked else None)
        print(json.dumps({"answer": ans, "exit": kind}))
        ctx.cleanup()
        return 1 if (kind or ans[0].startswith(("fault", "crash"))) else 0
    if stream == "codec" and "request" in rp:
        base = ctx.scratch / "rc"
        root = dsdlgen.write_texts(base / "ns", rp["dsdl"])
        ns = dsdlgen.load(root)
        o = rp["target"]
        if o["lang"] == "c":
            t = C04CTarget(ns, base / "t", endianness=o["target_endianness"], asserts=o["enable_serialization_asserts"], cc=o["cc"], cflags=SAN)
        else:
            t = C04CppTarget(ns, base / "t", std=o["std"], asserts=o["enable_serialization_asserts"], cxx=o["cxx"], cxxflags=SAN, parts=2,
                             extra_nnvg=o.get("nnvg", []))
        if not build_targets([t]):
            print("build failed:", t.build_log[-1500:]); ctx.cleanup(); return 2
        # type indices are positions in the namespace: recompute for the replayed namespace
        name = rp["type"]
        idx = [g.index for g in ns.types if g.full_name == name]
        req = rp["request"].split(" ")
        if idx:
            req[1] = str(idx[0])
        lines = [" ".join(req)]
        if "fresh_request" in rp:
            fr = rp["fresh_request"].split(" ")
            if idx:
                fr[1] = str(idx[0])
            lines.append(" ".join(fr))
        ans, kind = run_lines(t.exe, lines)
        print(json.dumps({"answers": ans, "exit": kind}))
        ctx.cleanup()
        bad = bool(kind) or ans[0].startswith("crash") or (len(ans) == 2 and ans[0] != ans[1])
        return 1 if bad else 0
    if stream == "override-cpp" and "request" in rp:
        base = ctx.scratch / "rocpp"
        base.mkdir(parents=True, exist_ok=True)
        env = dict(os.environ); env["PYTHONPATH"] = str(common.REPO / "src")
        subprocess.run([common.PY, "-m", "nunavut", "--experimental-languages", "--target-language", "cpp", "--language-standard", rp["std"],
                        "--enable-override-variable-array-capacity", "--outdir", str(base / "gen"), str(CORPUS / "override" / "ov")],
                       capture_output=True, timeout=600, env=env)
        defs = re.findall(r"-Dov_\w+", rp.get("defines", ""))
        (base / "gen" / "c04_codes.h").write_text(codes_header())
        ok, log = compile_cmd(["g++", f"-std={rp['std']}", "-include", "variant"] + SAN + defs + ["-I", str(base / "gen"), str(HERE / "cpp" / "c04_override.cpp"),
                               "-o", str(base / "ov")])
        if not ok:
            print("build failed:", log[-1500:]); ctx.cleanup(); return 2
        ans, kind = run_lines(base / "ov", [rp["request"]])
        print(json.dumps({"answer": ans, "exit": kind, "before": rp.get("observed")}))
        ctx.cleanup()
        return 1 if ans[0].startswith("crash") else 0
    if stream == "override" and "request" in rp:
        base = ctx.scratch / "ro"
        base.mkdir(parents=True, exist_ok=True)
        env = dict(os.environ); env["PYTHONPATH"] = str(common.REPO / "src")
        subprocess.run([common.PY, "-m", "nunavut", "--target-language", "c", "--enable-override-variable-array-capacity", "--outdir", str(base / "gen"),
                        str(CORPUS / "override" / "ov")], capture_output=True, timeout=600, env=env)
        defs = re.findall(r"-Dov_\w+_ARRAY_CAPACITY_=\d+U", rp.get("defines", ""))
        (base / "gen" / "c04_codes.h").write_text(codes_header())
        ok, log = compile_cmd(["gcc", "-std=c11"] + SAN + defs + ["-I", str(base / "gen"), str(HERE / "c" / "c04_override.c"), "-o", str(base / "ov"), "-lm"])
        if not ok:
            print("build failed:", log[-1500:]); ctx.cleanup(); return 2
        ans, kind = run_lines(base / "ov", [rp["request"]])
        print(json.dumps({"answer": ans, "exit": kind, "before": rp.get("observed")}))
        ctx.cleanup()
        return 1 if ans[0] == rp.get("observed") or ans[0].startswith(("crash", "guard")) else 0
    if stream == "prims" and "request" in rp:
        base = ctx.scratch / "rp"
        base.mkdir(parents=True, exist_ok=True)
        o = rp["target"]
        tag = "c" if o["lang"] == "c" else o["std"].replace("+", "p")
        pr = {"lang": o["lang"], "endianness": o["endianness"], "std": o["std"], "name": o["name"], "dir": base / f"{tag}_{o['endianness']}", "exe": base / "prims"}
        (base / "ns").mkdir(exist_ok=True)
        (base / "ns" / "A.1.0.dsdl").write_text("uint8 x\n@sealed\n")
        prims_build_one(pr, base / "ns")
        if not pr.get("ok"):
            print("build failed:", pr.get("log", "")[-1500:]); ctx.cleanup(); return 2
        k0 = "0 " + rp["request"].split(" ", 1)[1]
        ans, kind = run_lines(pr["exe"], [rp["request"], k0])
        print(json.dumps({"answers": ans, "exit": kind, "before": rp.get("observed"), "reference": rp.get("reference")}))
        ctx.cleanup()
        bad = bool(kind) or ans[0].startswith(("crash", "GUARD")) or (not ans[1].startswith("crash") and ans[0] != ans[1]) or \
            (rp.get("reference") is not None and ans[0] != rp["reference"])
        return 1 if bad else 0
    print("nothing to replay (no failing input in the file)")
    return 1
