"""
codec_ref — independent Python reference of the codec line protocol (harness/CODEC_PROTOCOL.md).

Written from the DSDL serialization rules (Cyphal specification ch. 3.7 as restated in PyDSDL's docstrings and
``pydsdl/_serdes.py``), *not* from Nunavut's templates.  It is the oracle of the failing-input search of C01, C02,
C03 and C05 ("the property's own predicate evaluated on the implementation") and stands in for the Lean driver
while that does not build.

Rules implemented
* bit stream, least significant bit first inside a byte; multi-bit values little-endian (LSB first);
* uintN/intN: saturated = clamp to the DSDL range, truncated = value mod 2^N; two's complement; decode sign-extends;
* floatN: saturated = finite values clamped to [-max, max], then IEEE-754 round-to-nearest-even conversion;
  truncated = round-to-nearest-even conversion, overflow to +-infinity; NaN stays NaN, infinities stay infinities;
* bool 1 bit; void N zero bits (ignored when decoding);
* fixed array: elements back to back; variable array: length prefix (8/16/32/64 bits, smallest holding the capacity)
  then elements; a length above the capacity is invalid on both directions;
* composites are aligned to 8 bits: zero padding before a composite-typed field (and before an array of composites
  and each of its elements) and after the last field of a composite;
* union: tag (8/16/32/64 bits, smallest holding option count - 1), the selected option, padding to 8; a tag >= option
  count is invalid on both directions;
* delimited composite nested in another object: 32-bit header = byte length of the nested representation, then that
  many bytes; decoding: header larger than the remaining data is invalid, the nested object is decoded from exactly
  `header` bytes with implicit zero extension and implicit truncation inside that window; at top level no header;
* deserialization: reads past the end of the data yield zeros (implicit zero extension), surplus data is ignored;
  consumed = min(bits read rounded up to the composite's padding, bits supplied) / 8.
* serbuf: a buffer smaller than the type's maximum serialized size is refused (buffer-too-small) before anything else.
"""
import math
import struct

from .dsdlgen import prefix_bits


class CodecError(Exception):
    def __init__(self, kind):
        super().__init__(kind)
        self.kind = kind


# ---- alignment / bounds --------------------------------------------------------------------------------------

def alignment(e):
    k = e[0]
    if k in "snd":
        return 8
    if k in "al":
        return alignment(e[1])
    return 1


def _pad(n, a):
    return (n + a - 1) // a * a


def _lens(e, cache):
    """Set of possible bit lengths as (min, max); exact enough for bounds (alignment makes min/max monotone)."""
    key = id(e)
    if key in cache:
        return cache[key]
    k = e[0]
    if k in "uif":
        r = (e[1], e[1])
    elif k == "b":
        r = (1, 1)
    elif k == "v":
        r = (e[1], e[1])
    elif k == "a":
        lo, hi = _lens(e[1], cache)
        al = alignment(e[1])
        r = (_pad(lo, al) * e[2], _pad(hi, al) * e[2])
        if al > 1 and e[2] > 0:
            # elements are individually aligned; the last one is not padded beyond its own (already padded) length
            r = (_pad(lo, al) * e[2], _pad(hi, al) * e[2])
    elif k == "l":
        lo, hi = _lens(e[1], cache)
        al = alignment(e[1])
        p = _pad(prefix_bits(e[2]), al)
        r = (p, p + _pad(hi, al) * e[2])
    elif k == "s":
        lo = hi = 0
        for f in e[1]:
            fl, fh = _lens(f, cache)
            a = alignment(f)
            lo = _pad(lo, a) + fl
            hi = _pad(hi, a) + fh
        r = (_pad(lo, 8), _pad(hi, 8))
    elif k == "n":
        t = prefix_bits(len(e[1]) - 1)
        los, his = [], []
        for f in e[1]:
            fl, fh = _lens(f, cache)
            a = alignment(f)
            los.append(_pad(t, a) + fl)
            his.append(_pad(t, a) + fh)
        r = (_pad(min(los), 8), _pad(max(his), 8))
    elif k == "d":
        # as a nested field: header + 0..extent; the top-level view is handled by bounds()
        r = (32, 32 + e[1])
    else:
        raise ValueError(e)
    cache[key] = r
    return r


def bounds(e):
    """(min bits, max bits, extent bits) of a top-level type."""
    cache = {}
    if e[0] == "d":
        lo, hi = _lens(e[2], cache)
        return lo, hi, e[1]
    lo, hi = _lens(e, cache)
    return lo, hi, hi


# ---- float conversion ----------------------------------------------------------------------------------------

_FMAX = {16: 65504.0, 32: 3.4028234663852886e38, 64: 1.7976931348623157e308}
_FPACK = {16: "<e", 32: "<f", 64: "<d"}
_FINT = {16: "<H", 32: "<I", 64: "<Q"}


def float_to_bits(n, mode, x):
    """IEEE-754 binaryN pattern of the double x under the DSDL cast mode."""
    if x != x:
        return {16: 0x7E00, 32: 0x7FC00000, 64: 0x7FF8000000000000}[n]
    if math.isinf(x):
        pass
    elif mode == "s":
        x = max(-_FMAX[n], min(_FMAX[n], x))
    try:
        raw = struct.pack(_FPACK[n], x)
    except OverflowError:          # rounds to a magnitude above the largest finite value
        raw = struct.pack(_FPACK[n], math.copysign(math.inf, x))
    return struct.unpack(_FINT[n], raw)[0]


def bits_to_float(n, b):
    return struct.unpack(_FPACK[n], struct.pack(_FINT[n], b))[0]


# ---- cast-mode adjustment ------------------------------------------------------------------------------------

def adj_prim(e, v):
    k = e[0]
    if k == "b":
        return 1 if v else 0
    if k == "u":
        n = e[1]
        if e[2] == "s":
            return max(0, min((1 << n) - 1, v))
        return v & ((1 << n) - 1)
    if k == "i":
        n = e[1]
        if e[2] == "s":
            return max(-(1 << (n - 1)), min((1 << (n - 1)) - 1, v))
        w = v & ((1 << n) - 1)
        return w - (1 << n) if w >> (n - 1) else w
    if k == "f":
        return bits_to_float(e[1], float_to_bits(e[1], e[2], v))
    raise ValueError(e)


def adj(e, v):
    k = e[0]
    if k in "uifb":
        return adj_prim(e, v)
    if k == "v":
        return None
    if k == "a":
        if len(v) != e[2]:
            raise CodecError("bad-op")
        return [adj(e[1], x) for x in v]
    if k == "l":
        if len(v) > e[2]:
            raise CodecError("bad-array-length")
        return [adj(e[1], x) for x in v]
    if k == "s":
        return [adj(f, x) for f, x in zip(e[1], v)]
    if k == "n":
        kk, x = v
        if not 0 <= kk < len(e[1]):
            raise CodecError("bad-union-tag")
        return (kk, adj(e[1][kk], x))
    if k == "d":
        return adj(e[2], v)
    raise ValueError(e)


# ---- serialization -------------------------------------------------------------------------------------------

class _W:
    """Bit writer: the stream is one big integer, bit i of the stream = bit i of the integer."""
    __slots__ = ("acc", "n")

    def __init__(self):
        self.acc = 0
        self.n = 0

    def put(self, value, nbits):
        self.acc |= (value & ((1 << nbits) - 1)) << self.n
        self.n += nbits

    def align(self, a):
        self.n = _pad(self.n, a)

    def bytes(self):
        return self.acc.to_bytes(_pad(self.n, 8) // 8, "little")


def _ser(e, v, w):
    k = e[0]
    if k == "b":
        w.put(1 if v else 0, 1)
    elif k in "ui":
        w.put(adj_prim(e, v), e[1])
    elif k == "f":
        w.put(float_to_bits(e[1], e[2], v), e[1])
    elif k == "v":
        w.put(0, e[1])
    elif k == "a":
        if len(v) != e[2]:
            raise CodecError("bad-op")
        al = alignment(e[1])
        for x in v:
            w.align(al)
            _ser(e[1], x, w)
    elif k == "l":
        if len(v) > e[2]:
            raise CodecError("bad-array-length")
        al = alignment(e[1])
        w.put(len(v), prefix_bits(e[2]))
        for x in v:
            w.align(al)
            _ser(e[1], x, w)
    elif k == "s":
        w.align(8)
        for f, x in zip(e[1], v):
            w.align(alignment(f))
            _ser(f, x, w)
        w.align(8)
    elif k == "n":
        w.align(8)
        kk, x = v
        if not 0 <= kk < len(e[1]):
            raise CodecError("bad-union-tag")
        w.put(kk, prefix_bits(len(e[1]) - 1))
        w.align(alignment(e[1][kk]))
        _ser(e[1][kk], x, w)
        w.align(8)
    elif k == "d":
        w.align(8)
        sub = _W()
        _ser(e[2], v, sub)
        body = sub.bytes()
        w.put(len(body), 32)
        w.put(int.from_bytes(body, "little"), 8 * len(body))
    else:
        raise ValueError(e)


def ser(e, v):
    w = _W()
    _ser(e[2] if e[0] == "d" else e, v, w)
    return w.bytes()


def serbuf(e, v, cap):
    if cap * 8 < bounds(e)[1]:
        raise CodecError("buffer-too-small")
    return ser(e, v)


# ---- deserialization -----------------------------------------------------------------------------------------

class _R:
    """Bit reader over a window of `limit` bits; bits beyond the window read as zero."""
    __slots__ = ("acc", "limit", "pos")

    def __init__(self, acc, limit):
        self.acc = acc & ((1 << limit) - 1) if limit else 0
        self.limit = limit
        self.pos = 0

    def get(self, nbits):
        r = (self.acc >> self.pos) & ((1 << nbits) - 1)
        self.pos += nbits
        return r

    def align(self, a):
        self.pos = _pad(self.pos, a)

    def remaining(self):
        return max(0, self.limit - self.pos)


def _de(e, r):
    k = e[0]
    if k == "b":
        return r.get(1)
    if k == "u":
        return r.get(e[1])
    if k == "i":
        w = r.get(e[1])
        return w - (1 << e[1]) if w >> (e[1] - 1) else w
    if k == "f":
        return bits_to_float(e[1], r.get(e[1]))
    if k == "v":
        r.get(e[1])
        return None
    if k == "a":
        al = alignment(e[1])
        out = []
        for _ in range(e[2]):
            r.align(al)
            out.append(_de(e[1], r))
        return out
    if k == "l":
        n = r.get(prefix_bits(e[2]))
        if n > e[2]:
            raise CodecError("bad-array-length")
        al = alignment(e[1])
        out = []
        for _ in range(n):
            r.align(al)
            out.append(_de(e[1], r))
        return out
    if k == "s":
        r.align(8)
        out = []
        for f in e[1]:
            r.align(alignment(f))
            out.append(_de(f, r))
        r.align(8)
        return out
    if k == "n":
        r.align(8)
        kk = r.get(prefix_bits(len(e[1]) - 1))
        if kk >= len(e[1]):
            raise CodecError("bad-union-tag")
        r.align(alignment(e[1][kk]))
        x = _de(e[1][kk], r)
        r.align(8)
        return (kk, x)
    if k == "d":
        r.align(8)
        nbytes = r.get(32)
        if nbytes * 8 > r.remaining():
            raise CodecError("bad-delimiter-header")
        sub = _R(r.acc >> r.pos, nbytes * 8)
        r.pos += nbytes * 8
        return _de(e[2], sub)
    raise ValueError(e)


def de(e, data):
    """-> (value, consumed bytes)"""
    r = _R(int.from_bytes(data, "little"), 8 * len(data))
    v = _de(e[2] if e[0] == "d" else e, r)
    return v, min(r.pos, 8 * len(data)) // 8


# ---- line protocol -------------------------------------------------------------------------------------------

def answer(line):
    """One protocol request line -> one answer line (same contract as the Lean `codec` driver)."""
    from . import dsdlgen as g
    try:
        op, rest = line.split(" ", 1)
        # the type is the first balanced S-expression
        depth, i = 0, 0
        for i, c in enumerate(rest):
            if c == "(":
                depth += 1
            elif c == ")":
                depth -= 1
                if depth == 0:
                    break
        e = g.parse_type(rest[: i + 1])
        arg = rest[i + 1:].strip()
        if op == "bounds":
            return "ok %d %d %d" % bounds(e)
        if op == "ser":
            return "ok " + (ser(e, g.parse_value(e, arg)).hex() or "-")
        if op == "serbuf":
            vs, cap = arg.rsplit(" ", 1)
            return "ok " + (serbuf(e, g.parse_value(e, vs), int(cap)).hex() or "-")
        if op == "adj":
            return "ok " + g.fmt_value(e, adj(e, g.parse_value(e, arg)), decoded=True)
        if op == "de":
            data = b"" if arg == "-" else bytes.fromhex(arg)
            v, c = de(e, data)
            return "ok " + g.fmt_value(e, v, decoded=True) + " " + str(c)
        return "err:bad-op"
    except CodecError as ex:
        return "err:" + ex.kind
    except (ValueError, IndexError, KeyError):
        return "err:bad-op"
