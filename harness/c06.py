"""
C06 — every valid DSDL input yields generated code that builds cleanly on its own.

Proof: lean/NunavutVerif/Properties/C06.lean over lean/NunavutVerif/Model/Deps.lean (dependency builder, include lists
of C / C++, Python imports, facilities used by the emitted text and which include provides them, include guards,
namespace brackets).

Tie (correspondence, model = compiled Lean driver `deps`):
  * `DependencyBuilder(t).direct()/transitive()` in-process vs the model, for every type of every namespace;
  * the `#include` operands of every *generated* C / C++ header (file order) vs `emitted`;
  * a token scan of every generated header (token -> facility table, nothing else) vs `facMust`/`facMay`:
    must <= scan <= must + may, and the model's own "uncovered" list must be empty;
  * `import` lines of every generated Python module vs `pyImports` / `pyModuleImports`;
  * include-guard spelling and C++ namespace brackets vs `includeGuard` / `openNamespace` / `closeNamespace`;
  * round 2: the option record the include logic reads (`standard_version`, allocator / VLA include, constructor convention,
    support header paths) of the real Language object for every `--language-standard` choice vs `cliOpts` (Model/DepsOpts.lean,
    fed by the tables regenerated from the tree: translate/cppdefaults.py, clioptions.py, supportfiles.py, optiondomain.py);
    `standard_version` on a list of `std` spellings vs `standardVersion`; the C / C++ reference names and the C++ macro name
    of every composite (real filters) vs `cFullRef` / `cppFullRef` / `cppFullMacro`; the `#define`d names of every generated
    C header in file order vs `cDefinesMsg` / `cDefinesSvc` (Model/Names.lean).
Oracle / failing-input search (the property itself, on the implementation): every generated header alone in a
one-line translation unit — gcc and clang -std=c11, the C header inside a C++ TU (g++ / clang++), g++ / clang++ for
every C++ standard — with the flag set of verification/cmake/compiler_flag_sets/common.cmake + -Werror -fsyntax-only;
every generated Python module compiled and imported with warnings as errors; every project-relative include must be
a generated file; include guards of different headers must differ; round 2: the C reference names of different types of
one universe must differ (a translation unit that includes both headers and uses a member of the second type must
compile), no `#define` of a header may repeat a name outside the `#ifndef` / `#elif` pair of the capacity override.
"""
import concurrent.futures as cf
import json
import os
import pathlib
import re
import shutil
import subprocess
import sys

from . import common
from .common import enc

CORPUS = common.VERIF / "corpus" / "C06"
NNVG_TIMEOUT = 300
CC_TIMEOUT = 120

# ---------------------------------------------------------------------------------------------------------------------
# the project's strict warning set, read from the tree under check
# ---------------------------------------------------------------------------------------------------------------------


def read_flag_sets():
    """C_FLAG_SET / CXX_FLAG_SET of verification/cmake/compiler_flag_sets/common.cmake (the warning part)."""
    f = common.REPO / "verification" / "cmake" / "compiler_flag_sets" / "common.cmake"
    txt = re.sub(r"#.*", "", f.read_text())
    m_c = re.search(r"list\(APPEND C_FLAG_SET(.*?)\)", txt, re.S)
    m_x = re.search(r"list\(APPEND CXX_FLAG_SET(.*?)\)", txt, re.S)
    if not m_c or not m_x:
        raise RuntimeError("cannot find the flag sets in " + str(f))
    cflags = re.findall(r'"(-[^"]+)"', m_c.group(1))
    xflags = re.findall(r'"(-[^"]+)"', m_x.group(1))
    if "-Werror" not in cflags or "-Wall" not in cflags or len(cflags) < 5 or not xflags:
        raise RuntimeError("unexpected flag sets in " + str(f))
    gnu_extra = re.findall(r"C_COMPILER_ID:GNU>:(-[\w-]+)>", txt)
    cm = (common.REPO / "verification" / "CMakeLists.txt").read_text()
    c_in_cxx_extra = re.findall(r'NUNAVUT_VERIFICATION_LANG STREQUAL "c"\).*?target_compile_options\(\S+ PRIVATE "(-[^"]+)"\)', cm, re.S)
    return {"c": cflags, "cxx": cflags + xflags, "gnu_extra": gnu_extra, "c_in_cxx_extra": c_in_cxx_extra[:1]}


# ---------------------------------------------------------------------------------------------------------------------
# DSDL universes: a list of roots, each with its lookup directories; all roots are generated into one output directory
# ---------------------------------------------------------------------------------------------------------------------


class Universe:
    def __init__(self, name, roots, origin):
        self.name = name          # identifies the universe in evidence / replays
        self.roots = roots        # [{"dir": Path, "lookup": [Path]}]
        self.origin = origin      # corpus | dsdlgen | dsdlgen_simple
        self.types = None         # {root index: [pydsdl composite]}
        self.error = None

    def texts(self):
        if getattr(self, "_texts", None) is not None:
            return self._texts
        out = {}
        for i, r in enumerate(self.roots):
            for f in sorted(pathlib.Path(r["dir"]).rglob("*.dsdl")):
                out[f"{i}/{r['dir'].name}/{f.relative_to(r['dir']).as_posix()}"] = f.read_text()
        self._texts = out
        return out

    def read(self):
        import pydsdl
        self.types = {}
        try:
            for i, r in enumerate(self.roots):
                self.types[i] = pydsdl.read_namespace(str(r["dir"]), [str(x) for x in r["lookup"]], allow_unregulated_fixed_port_id=True)
        except Exception as e:  # the front end is the judge of validity
            self.error = f"{type(e).__name__}: {str(e)[:300]}"
            self.types = None
        return self.types is not None


def corpus_universes():
    """corpus/C06/<name>/<root>/...dsdl ; a file corpus/C06/<name>/ORDER lists the roots in generation order (later roots
    may refer to earlier ones)."""
    out = []
    if not CORPUS.exists():
        return out
    for d in sorted(p for p in CORPUS.iterdir() if p.is_dir()):
        order = (d / "ORDER").read_text().split() if (d / "ORDER").exists() else sorted(p.name for p in d.iterdir() if p.is_dir())
        roots = []
        for i, r in enumerate(order):
            roots.append({"dir": d / r, "lookup": [d / x for x in order[:i]]})
        out.append(Universe("corpus:" + d.name, roots, "corpus"))
        out[-1].light = (d / "LIGHT").exists()
    return out


def add_version_twins(ctx, ns):
    """Several versions of one type whose dependency sets (and composite kinds) differ, in both orders."""
    cands = [g for g in ns.types if g.role == "message" and not g.model.deprecated]
    if len(cands) < 2:
        return
    root = pathlib.Path(ns.root)
    ref = lambda g: f"{g.full_name}.{g.version[0]}.{g.version[1]}"
    for j in range(3):
        a, b = ctx.rng.sample(cands, 2)
        bodies = [f"{ref(a)} x\n@sealed\n", f"{ref(b)}[<=2] y\nbool[3] z\n@sealed\n", f"@union\n{ref(b)} p\n{ref(a)}[2] q\n@sealed\n", "uint8 n\n@sealed\n"]
        ctx.rng.shuffle(bodies)
        for k, body in enumerate(bodies[:ctx.rng.randint(2, 4)]):
            (root / f"Twin{j}.{k + 1}.0.dsdl").write_text(body)
            ctx.count("version_twin_definitions")


def generated_universes(ctx, n_gen, n_simple, n_types):
    from . import dsdlgen, dsdlgen_simple
    out = []
    for k in range(n_gen):
        base = ctx.scratch / f"gen{k}"
        base.mkdir()
        prof = [None, {"p_union": 0.4, "p_service": 0.2, "p_empty": 0.1, "p_fixed_port": 0.3},
                {"p_delimited": 0.8, "p_union": 0.35, "p_constants": 0.6}][k % 3]
        try:
            ns = dsdlgen.generate(ctx.rng, base, n_types=n_types, root_name=f"vns{k}", profile=prof)
        except Exception as e:
            ctx.count("dsdlgen_failed")
            ctx.extra.setdefault("dsdlgen_errors", []).append(str(e)[:200])
            continue
        ctx.count("dsdlgen_dropped_definitions", len(ns.dropped))
        add_version_twins(ctx, ns)
        out.append(Universe(f"dsdlgen:{k}", [{"dir": pathlib.Path(ns.root), "lookup": []}], "dsdlgen"))
    for k in range(n_simple):
        base = ctx.scratch / f"simple{k}"
        base.mkdir()
        roots = dsdlgen_simple.make_universe(ctx.rng, base, p_keyword=0.6)
        out.append(Universe(f"dsdlgen_simple:{k}", [{"dir": pathlib.Path(r["dir"]), "lookup": [pathlib.Path(x) for x in r["lookup"]]} for r in roots],
                            "dsdlgen_simple"))
    return out


# ---------------------------------------------------------------------------------------------------------------------
# pydsdl model -> protocol tokens
# ---------------------------------------------------------------------------------------------------------------------


def enc_name(t):
    return "/".join(enc(c) for c in t.full_namespace.split(".")) + f":{enc(t.short_name)}:{t.version.major}:{t.version.minor}"


def name_key(t):
    return (t.full_namespace, t.short_name, t.version.major, t.version.minor)


def enc_ty(dt):
    import pydsdl
    if isinstance(dt, pydsdl.VoidType):
        return "v"
    if isinstance(dt, pydsdl.BooleanType):
        return "b"
    if isinstance(dt, pydsdl.IntegerType):
        return "i"
    if isinstance(dt, pydsdl.FloatType):
        return "f"
    if isinstance(dt, pydsdl.FixedLengthArrayType):
        return "A " + enc_ty(dt.element_type)
    if isinstance(dt, pydsdl.VariableLengthArrayType):
        return "V " + enc_ty(dt.element_type)
    if isinstance(dt, pydsdl.CompositeType):
        return enc_comp(dt)
    raise RuntimeError("data type the C06 model does not know: " + repr(dt))


def enc_comp(c):
    import pydsdl
    if isinstance(c, pydsdl.ServiceType):
        raise RuntimeError("service as a field type")
    fields = [a.data_type for a in c.attributes if isinstance(a, pydsdl.Field)]
    consts = [a.data_type for a in c.attributes if isinstance(a, pydsdl.Constant)]
    if len(fields) + len(consts) != len(c.attributes):
        raise RuntimeError("attribute kind the C06 model does not know")
    is_union = isinstance(c.inner_type, pydsdl.UnionType)
    is_sealed = not isinstance(c, pydsdl.DelimitedType)
    toks = ["C", enc_name(c), "1" if is_union else "0", "1" if is_sealed else "0", str(len(fields))] + [enc_ty(f) for f in fields]
    toks += [str(len(consts))] + [enc_ty(f) for f in consts]
    return " ".join(toks)


def enc_top(t):
    import pydsdl
    fp = "1" if t.has_fixed_port_id else "0"
    if isinstance(t, pydsdl.ServiceType):
        return f"S {enc_name(t)} {fp} {enc_comp(t.request_type)} {enc_comp(t.response_type)}"
    return f"M {fp} {enc_comp(t)}"


def reach(t, acc=None):
    """All composites below a type (any depth), by the harness's own walk of the PyDSDL model."""
    import pydsdl
    acc = {} if acc is None else acc

    def walk_dt(dt):
        if isinstance(dt, pydsdl.ArrayType):
            walk_dt(dt.element_type)
        elif isinstance(dt, pydsdl.CompositeType):
            if name_key(dt) not in acc:
                acc[name_key(dt)] = dt
                for a in dt.attributes:
                    walk_dt(a.data_type)
    parts = [t.request_type, t.response_type] if isinstance(t, pydsdl.ServiceType) else [t]
    for p in parts:
        for a in p.attributes:
            walk_dt(a.data_type)
    return acc


def uses_float(t):
    import pydsdl

    def has(dt):
        if isinstance(dt, pydsdl.FloatType):
            return True
        if isinstance(dt, pydsdl.ArrayType):
            return has(dt.element_type)
        return False
    parts = [t.request_type, t.response_type] if isinstance(t, pydsdl.ServiceType) else [t]
    own = any(has(a.data_type) for p in parts for a in p.attributes if isinstance(a, pydsdl.Field))
    return own or any(has(a.data_type) for c in reach(t).values() for a in c.attributes if isinstance(a, pydsdl.Field))


def shape_tags(t):
    """Coarse description of a type for the evidence counters."""
    import pydsdl
    tags = set()
    parts = [t.request_type, t.response_type] if isinstance(t, pydsdl.ServiceType) else [t]
    if isinstance(t, pydsdl.ServiceType):
        tags.add("service")
    if t.deprecated:
        tags.add("deprecated")
    if t.has_fixed_port_id:
        tags.add("fixed_port")
    for p in parts:
        inner = p.inner_type
        if isinstance(inner, pydsdl.UnionType):
            tags.add("union_sealed" if not isinstance(p, pydsdl.DelimitedType) else "union_delimited")
        elif isinstance(p, pydsdl.DelimitedType):
            tags.add("struct_delimited")
        if not [a for a in p.attributes if isinstance(a, pydsdl.Field) and not isinstance(a, pydsdl.PaddingField)]:
            tags.add("empty")
        if any(isinstance(a, pydsdl.Constant) for a in p.attributes):
            tags.add("constants")
        for a in p.attributes:
            dt = a.data_type
            if isinstance(dt, pydsdl.VariableLengthArrayType):
                tags.add("vla")
            if isinstance(dt, pydsdl.FixedLengthArrayType):
                tags.add("bool_array" if isinstance(dt.element_type, pydsdl.BooleanType) else "fixed_array")
            if isinstance(dt, pydsdl.ArrayType) and isinstance(dt.element_type, pydsdl.CompositeType):
                tags.add("array_of_composite")
            if isinstance(dt, pydsdl.CompositeType):
                tags.add("nested")
                if dt.full_namespace.split(".")[0] != t.full_namespace.split(".")[0]:
                    tags.add("cross_root")
            if isinstance(dt, pydsdl.PrimitiveType) and dt.bit_length == 64:
                tags.add("w64")
    return tags


# ---------------------------------------------------------------------------------------------------------------------
# language objects of the real implementation (configuration data that the model takes as input)
# ---------------------------------------------------------------------------------------------------------------------


class Cfg:
    """One generation configuration: target, CLI arguments, and what the model needs to know about it."""

    def __init__(self, ident, target, args, std=None, omit=False, overrides=None, compile_ok=True, only=None, cause=None):
        self.ident, self.target, self.args, self.std, self.omit = ident, target, list(args), std, omit
        self.only = only      # restrict to universes whose name contains this
        self.cause = cause    # every diagnostic under this configuration belongs to this (known) defect class
        self.overrides = overrides or {}
        self.compile_ok = compile_ok
        self.lang = None

    def language(self):
        if self.lang is None:
            from nunavut.lang import LanguageContextBuilder, Language
            b = LanguageContextBuilder(include_experimental_languages=True).set_target_language(self.target)
            opts = {}
            for k, v in self.overrides.items():
                if k == "options":
                    opts.update(v)
                else:
                    b.set_target_language_configuration_override(k, v)
            if self.std:
                opts["std"] = self.std
            b.set_target_language_configuration_override(Language.WKCV_LANGUAGE_OPTIONS, opts)
            self.lang = b.create().get_target_language()
        return self.lang

    def nnvg_args(self, yaml_dir):
        a = ["--target-language", self.target, "--experimental-languages", "--allow-unregulated-fixed-port-id"] + self.args
        if self.std:
            a += ["--language-standard", self.std]
        if self.omit:
            a += ["--omit-serialization-support"]
        if self.overrides:
            y = yaml_dir / (self.ident.replace("/", "_") + ".yaml")
            if not y.exists():
                y.write_text(f"nunavut.lang.{self.target}:\n" + "".join(f"  {k}: {json.dumps(v)}\n" for k, v in self.overrides.items()))
            a += ["--configuration", str(y)]
        return a

    def model_opts(self):
        """`<omit>,<useStd>,<std>,<allocCtor>,<preferSys> <allocInc> <vlaInc> <support>`"""
        from nunavut._utilities import ResourceType
        lang = self.language()
        use_std = lang.get_config_value_as_bool("use_standard_types")
        prefer = lang.get_config_value_as_bool("prefer_system_includes", False)
        stdv, alloc, vla, actor = 0, "", "", False
        if self.target == "cpp":
            stdv = lang.standard_version
            alloc = str(lang.get_option("allocator_include", ""))
            vla = str(lang.get_option("variable_array_type_include", ""))
            actor = str(lang.get_option("ctor_convention", "default")) != "default"
        sup = []
        nsp = pathlib.PurePosixPath(*lang.support_namespace) if lang.support_namespace else pathlib.PurePosixPath("")
        for p in lang.get_support_files(ResourceType.SERIALIZATION_SUPPORT):
            sup.append((nsp / pathlib.PurePosixPath(p.name).with_suffix(lang.extension)).as_posix())
        b = lambda x: "1" if x else "0"
        return (f"{b(self.omit)},{b(use_std)},{stdv},{b(actor)},{b(prefer)} {enc(alloc)} {enc(vla)} "
                + ("|".join(enc(s) for s in sorted(sup)) if sup else "!"))

    def path_cfg(self, comps):
        """`<enable> <ext> <table>` with the real `filter_id(., "path")` / `filter_short_reference_name(., "path")` on the
        names involved."""
        lang = self.language()
        pairs = {}
        for dt in comps:
            for c in dt.full_namespace.split("."):
                pairs[c] = lang.filter_id(c, "path")
            sv = f"{dt.short_name}_{dt.version.major}_{dt.version.minor}"
            pairs[sv] = lang.filter_short_reference_name(dt, id_type="path") if lang.enable_stropping else sv
        tbl = ";".join(f"{enc(a)}>{enc(b)}" for a, b in sorted(pairs.items()) if a != b) or "!"
        return f"{'1' if lang.enable_stropping else '0'} {enc(lang.extension)} {tbl}"


# quick tier: what a corpus universe marked LIGHT is generated with (the stress universe meets every configuration)
LIGHT_CONFIGS = ("c/default", "c/omit", "c/little", "cpp/c++14", "cpp/c++17+omit", "cpp/c++20", "cpp/c++17-pmr+omit", "py/default", "py/omit")


def configurations(quick):
    cs = []
    all_opts = ["--target-endianness", "little", "--enable-serialization-asserts", "--enable-override-variable-array-capacity"]
    nofloat = ["--omit-float-serialization-support"]   # documented: errors if floating point types are used -> judged on float-free types only
    # ---- C
    cs.append(Cfg("c/default", "c", []))
    cs.append(Cfg("c/omit", "c", [], omit=True))
    cs.append(Cfg("c/allopts", "c", all_opts))
    cs.append(Cfg("c/nofloat", "c", nofloat))
    cs.append(Cfg("c/big", "c", ["--target-endianness", "big"]))
    cs.append(Cfg("c/little", "c", ["--target-endianness", "little"]))
    cs.append(Cfg("c/nostd+omit", "c", [], omit=True, overrides={"use_standard_types": False}))
    # round 2: one option at a time on the shape matrix (corpus/C06/matrix meets every configuration)
    mx = ("corpus:matrix",) if quick else None
    cs.append(Cfg("c/nostd", "c", [], overrides={"use_standard_types": False}, only=mx))
    cs.append(Cfg("c/asserts", "c", ["--enable-serialization-asserts"], only=mx))
    cs.append(Cfg("c/ovr", "c", ["--enable-override-variable-array-capacity"], only=mx))
    cs.append(Cfg("c/nofloat+omit", "c", nofloat, omit=True, only=mx))
    if not quick:
        cs.append(Cfg("c/big+asserts", "c", ["--target-endianness", "big", "--enable-serialization-asserts"]))
        cs.append(Cfg("c/nofloat+allopts", "c", nofloat + all_opts))
        cs.append(Cfg("c/sysinc", "c", [], overrides={"prefer_system_includes": True}))
    # ---- C++
    for std in ["c++14", "c++17", "c++20", "c++17-pmr"]:
        # quick tier: every standard, with and without support, but c++20 / c++17-pmr each in one of the two modes only
        if not quick or std != "c++17-pmr":
            cs.append(Cfg(f"cpp/{std}", "cpp", [], std=std))
        if not quick or std != "c++20":
            cs.append(Cfg(f"cpp/{std}+omit", "cpp", [], std=std, omit=True))
    cs.append(Cfg("cpp/c++14+allopts", "cpp", all_opts, std="c++14"))
    cs.append(Cfg("cpp/c++17+big", "cpp", ["--target-endianness", "big"], std="c++17"))
    cs.append(Cfg("cpp/c++20+little", "cpp", ["--target-endianness", "little"], std="c++20"))
    cs.append(Cfg("cpp/c++17+nofloat", "cpp", nofloat, std="c++17", only=mx))
    # CETL is not available offline: generated and scanned, not compiled
    cs.append(Cfg("cpp/cetl++14-17+omit", "cpp", [], std="cetl++14-17", omit=True, compile_ok=False))
    # round 2: use_standard_types off is compiled now (fixed in 3a07e2e / 6ea230a); one option at a time on the shape matrix
    cs.append(Cfg("cpp/c++17+nostd+omit", "cpp", [], std="c++17", omit=True, overrides={"use_standard_types": False}, only=mx))
    cs.append(Cfg("cpp/c++14+nostd", "cpp", [], std="c++14", overrides={"use_standard_types": False}, only=mx))
    cs.append(Cfg("cpp/c++17+asserts", "cpp", ["--enable-serialization-asserts"], std="c++17", only=mx))
    cs.append(Cfg("cpp/c++20+ovr", "cpp", ["--enable-override-variable-array-capacity"], std="c++20", only=mx))
    cs.append(Cfg("cpp/c++17-pmr+allopts", "cpp", all_opts, std="c++17-pmr", only=mx))
    cs.append(Cfg("cpp/default-std", "cpp", [], only=mx))                    # no --language-standard: the built-in `std`
    cs.append(Cfg("cpp/cetl++14-17", "cpp", [], std="cetl++14-17", compile_ok=False, only=mx))
    if not quick:
        cs.append(Cfg("cpp/c++17+allopts", "cpp", all_opts, std="c++17"))
        cs.append(Cfg("cpp/c++20+asserts", "cpp", ["--enable-serialization-asserts"], std="c++20"))
        cs.append(Cfg("cpp/c++14+asserts", "cpp", ["--enable-serialization-asserts"], std="c++14"))
    # a documented value of ctor_convention that the generated types do not support themselves (finding): stress corpus only
    lead = {"options": {"variable_array_type_include": "<vector>", "variable_array_type_template": "std::vector<{TYPE}, {REBIND_ALLOCATOR}>",
                        "variable_array_type_constructor_args": "", "allocator_include": "<memory_resource>",
                        "allocator_type": "std::pmr::polymorphic_allocator", "allocator_is_default_constructible": True,
                        "ctor_convention": "uses-leading-allocator"}}
    cs.append(Cfg("cpp/c++17+leading-allocator+omit", "cpp", [], std="c++17", omit=True, overrides=lead, only="corpus:stress",
                  cause="cpp-uses-leading-allocator"))
    # round 2: the one combination of documented values that `_validate_language_options` accepts and that cannot compile
    # (theorem C06_documented_values_deliver_iff): an allocator-aware constructor convention without `allocator_include`
    noinc = {"options": {"allocator_include": "", "allocator_type": "std::pmr::polymorphic_allocator",
                         "variable_array_type_template": "std::vector<{TYPE}, {REBIND_ALLOCATOR}>",
                         "ctor_convention": "uses-trailing-allocator"}}
    cs.append(Cfg("cpp/c++17+alloc-noinclude+omit", "cpp", [], std="c++17", omit=True, overrides=noinc, only="corpus:stress",
                  cause="cpp-allocator-without-include"))
    # ---- Python
    cs.append(Cfg("py/default", "py", []))
    cs.append(Cfg("py/omit", "py", [], omit=True))
    return cs


# ---------------------------------------------------------------------------------------------------------------------
# generation
# ---------------------------------------------------------------------------------------------------------------------


def generate(uni, cfg, outdir, yaml_dir):
    """nnvg once per root into one output directory.  Returns error text or None."""
    env = dict(os.environ, PYTHONPATH=str(common.REPO / "src"), PYTHONDONTWRITEBYTECODE="1")
    for r in uni.roots:
        cmd = [common.PY, "-m", "nunavut"] + cfg.nnvg_args(yaml_dir) + ["-O", str(outdir), str(r["dir"])]
        for l in r["lookup"]:
            cmd += ["-I", str(l)]
        try:
            p = subprocess.run(cmd, env=env, capture_output=True, text=True, timeout=NNVG_TIMEOUT, cwd=str(yaml_dir))
        except subprocess.TimeoutExpired:
            return "timeout"
        if p.returncode != 0:
            lines = [l for l in p.stderr.strip().splitlines() if l.strip()]
            return (lines[-1] if lines else f"exit {p.returncode}")[:400]
    return None


# ---------------------------------------------------------------------------------------------------------------------
# token scan of generated text (knows the token -> facility table, nothing else)
# ---------------------------------------------------------------------------------------------------------------------

_C_COMMENT = re.compile(r"/\*.*?\*/", re.S)
_LINE_COMMENT = re.compile(r"//[^\n]*")
_STRING = re.compile(r'"(?:\\.|[^"\\\n])*"')

C_TOKENS = [
    ("cFixedInt", re.compile(r"(?<![\w.>])u?int(?:8|16|32|64)_t\b")),
    ("cSizeT", re.compile(r"(?<![\w.>])size_t\b")),
    ("cBool", re.compile(r"(?<![\w.>])(?:bool|true|false)\b")),
    ("cNull", re.compile(r"(?<![\w.>])NULL\b")),
    ("cStaticAssert", re.compile(r"(?<![\w.>])static_assert\b")),
    ("cString", re.compile(r"(?<![\w.>])mem(?:set|move|cpy)\s*\(")),
    ("cMath", re.compile(r"(?<![\w.>])isfinite\s*\(")),
    ("cSupport", re.compile(r"(?<![\w.>])(?:NUNAVUT_[A-Z0-9_]+|nunavut[A-Z]\w*)\b")),
]
CPP_STD = {
    "size_t": "xSizeT", "numeric_limits": "xLimits", "array": "xArray", "bitset": "xBitset",
    "variant": "xVariant", "get_if": "xVariant", "variant_alternative": "xVariant", "variant_npos": "xVariant", "monostate": "xVariant",
    "add_pointer": "xTypeTraits", "add_lvalue_reference": "xTypeTraits", "add_const_t": "xTypeTraits", "aligned_storage": "xTypeTraits",
    "forward": "xUtility", "move": "xUtility", "addressof": "xMemory", "allocator_traits": "xMemory",
    "min": "xAlgorithm", "max": "xAlgorithm", "isfinite": "xCmath", "memcpy": "xCstring", "memset": "xCstring", "memmove": "xCstring",
    "allocator_arg": "xAlloc",
}
_CPP_STD_TOKEN = re.compile(r"\bstd::(\w+)")
_CPP_FIXED = re.compile(r"(?<![\w.>])(?:std::)?u?int(?:8|16|32|64)_t\b")
_CPP_BARE_SIZE_T = re.compile(r"(?<![\w.>:])size_t\b")
_CPP_NEW = re.compile(r"\bnew\s*\(")
_CPP_SUPPORT = re.compile(r"\bnunavut::support\b")
_INCLUDE = re.compile(r"^[ \t]*#[ \t]*include[ \t]+(\S+)", re.M)


_LEX = re.compile(r"//(?:\\[ \t]*\n|\?\?/[ \t]*\n|[^\n])*|/\*[\s\S]*?\*/|" + r'"(?:\\.|[^"\\\n])*"' + "|" + r"'(?:\\.|[^'\\\n])*'")


def _lex_repl(m):
    g = m.group(0)
    if g.startswith("//") or g.startswith("/*"):
        return " "          # a line comment continued by a trailing backslash (or ??/) swallows the next line, as in the compiler
    return '""' if g.startswith('"') else "''"


def strip_text(text):
    includes = _INCLUDE.findall(_LEX.sub(lambda m: " " if m.group(0)[:2] in ("//", "/*") else m.group(0), text))
    t = _LEX.sub(_lex_repl, text)
    t = "\n".join(l for l in t.split("\n") if not l.lstrip().startswith("#"))   # macro bodies are not compiled until used
    return includes, t


def scan_c(text):
    includes, t = strip_text(text)
    return includes, {name for name, rx in C_TOKENS if rx.search(t)}


def scan_cpp(text, vla_template, alloc_type):
    includes, t = strip_text(text)
    # the configured templates are facilities of their own: take them out before looking at std:: names
    facs = set()
    vla_head = vla_template.split("<")[0].strip() if vla_template else ""
    if vla_head and re.search(r"(?<![\w:])" + re.escape(vla_head) + r"\b", t):
        facs.add("xVla")
        t = re.sub(r"(?<![\w:])" + re.escape(vla_head) + r"\b", "VLA_T", t)
    if alloc_type and re.search(r"(?<![\w:])" + re.escape(alloc_type) + r"\b", t):
        facs.add("xAlloc")
        t = re.sub(r"(?<![\w:])" + re.escape(alloc_type) + r"\b", "ALLOC_T", t)
    if _CPP_FIXED.search(t):
        facs.add("xFixedInt")
    t2 = _CPP_FIXED.sub("FIXED_T", t)
    for m in _CPP_STD_TOKEN.finditer(t2):
        facs.add(CPP_STD.get(m.group(1), "unknown:std::" + m.group(1)))
    if _CPP_BARE_SIZE_T.search(t2):
        facs.add("unknown:size_t")
    if _CPP_NEW.search(t2):
        facs.add("xNew")
    if _CPP_SUPPORT.search(t2):
        facs.add("xSupport")
    return includes, facs


SCAN_COLLIDING_NAMES = re.compile(r"^(u?int(8|16|32|64)_t|size_t|bool|true|false|NULL|static_assert|mem(set|move|cpy)|isfinite|nunavut\w*|NUNAVUT_\w*|std|new)$")


def attribute_names(t):
    import pydsdl
    parts = [t.request_type, t.response_type] if isinstance(t, pydsdl.ServiceType) else [t]
    return [a.name for p in parts for a in p.attributes if a.name]


# ---------------------------------------------------------------------------------------------------------------------
# compilers
# ---------------------------------------------------------------------------------------------------------------------


def have(tool):
    return shutil.which(tool) is not None


def compile_jobs_for(cfg, outdir, headers, flags, quick):
    jobs = []
    if cfg.target == "c":
        for h in headers:
            jobs.append((outdir, h, ["gcc", "-std=c11"] + flags["c"] + flags["gnu_extra"], "c"))
            jobs.append((outdir, h, ["clang", "-std=c11"] + flags["c"], "c"))
            if quick and cfg.ident not in ("c/default", "c/omit"):
                continue     # the C header inside a C++ TU: quick tier only for these two configurations
            jobs.append((outdir, h, ["g++", "-std=c++14"] + flags["cxx"] + flags["c_in_cxx_extra"] + flags["gnu_extra"], "c++"))
            jobs.append((outdir, h, ["clang++", "-std=c++14"] + flags["cxx"] + flags["c_in_cxx_extra"], "c++"))
    elif cfg.target == "cpp":
        std = "-std=" + (cfg.std or "c++14").replace("-pmr", "")
        for k, h in enumerate(headers):
            # quick tier: one of the two compilers per (header, configuration), alternating, so that every header meets both
            pick = (k + sum(map(ord, cfg.ident))) % 2 if quick else None
            if pick in (None, 0):
                jobs.append((outdir, h, ["g++", std] + flags["cxx"] + flags["gnu_extra"], "c++"))
            if pick in (None, 1):
                jobs.append((outdir, h, ["clang++", std] + flags["cxx"], "c++"))
    return jobs


def job_args(job):
    return job[4] if len(job) > 4 else ()


def run_compile(job):
    outdir, header, cmd, xlang = job[:4]
    full = cmd + ["-fsyntax-only", "-I", str(outdir), "-x", xlang, "-"]
    if "--enable-serialization-asserts" in job_args(job):
        full.insert(1, "-DNUNAVUT_ASSERT(x)=assert(x)")   # the definition both support headers document for the user of this option
    try:
        p = subprocess.run(full, input=f'#include "{header}"\n', capture_output=True, text=True, timeout=CC_TIMEOUT)
    except subprocess.TimeoutExpired:
        return job, "timeout", ""
    if p.returncode == 0 and not p.stderr.strip():
        return job, None, ""
    lines = p.stderr.splitlines()
    first = next((l for l in lines if re.search(r"\b(error|warning)\b", l)), lines[0] if lines else f"exit {p.returncode}")
    return job, first, "\n".join(lines[:12])


_MACRO_CACHE = {}


def defined_macros(job):
    """Names of the macros visible after including every header of the output tree (one preprocessor run per tree and compiler)."""
    outdir, header, cmd, xlang = job[:4]
    key = (str(outdir), cmd[0], cmd[1])
    if key in _MACRO_CACHE:
        return _MACRO_CACHE[key]
    hs = sorted(p.relative_to(outdir).as_posix() for p in pathlib.Path(outdir).rglob("*.h*"))
    _MACRO_CACHE[key] = set()
    try:
        p = subprocess.run(cmd[:2] + ["-dM", "-E", "-I", str(outdir), "-x", xlang, "-"], input="".join(f'#include "{h}"\n' for h in hs),
                           capture_output=True, text=True, timeout=CC_TIMEOUT)
    except subprocess.TimeoutExpired:
        return set()
    _MACRO_CACHE[key] = set(re.findall(r"^#define (\w+)", p.stdout, re.M))
    return _MACRO_CACHE[key]


def dsdl_identifiers(uni):
    import pydsdl
    names = set()
    for ts in uni.types.values():
        for t in ts:
            names.update(t.full_namespace.split("."))
            names.add(t.short_name)
            names.update(attribute_names(t))
            for c in reach(t).values():
                names.update(c.full_namespace.split("."))
                names.add(c.short_name)
                names.update(a.name for a in c.attributes if a.name)
    return names


def job_command(job, tu):
    outdir, header, cmd, xlang = job[:4]
    full = cmd + ["-fsyntax-only", "-I", str(outdir), "-x", xlang, str(tu)]
    if "--enable-serialization-asserts" in job_args(job):
        full.insert(1, "-DNUNAVUT_ASSERT(x)=assert(x)")   # the definition both support headers document for the user of this option
    return full


def run_compile_jobs(jobs, workdir, parallel=32):
    """All compile jobs through `parallel` shell scripts that each run their share one after the other.  (Spawning every
    compiler from this process serialises on fork/exec latency on a loaded machine: 0.2 s per job whatever the pool size.)
    Returns [(job, first diagnostic line or None, detail)]."""
    global CC_TIMEOUT
    import shlex
    workdir.mkdir(parents=True, exist_ok=True)
    tus = {}
    shards = [[] for _ in range(parallel)]
    for idx, job in enumerate(jobs):
        key = (str(job[0]), job[1], job[3])
        if key not in tus:
            tu = workdir / f"tu{len(tus)}.{'c' if job[3] == 'c' else 'cpp'}"
            tu.write_text(f'#include "{job[1]}"\n')
            tus[key] = tu
        cmd = " ".join(shlex.quote(x) for x in ["timeout", str(CC_TIMEOUT)] + job_command(job, tus[key]))
        shards[idx % parallel].append(f"{cmd} > /dev/null 2> {idx}.err < /dev/null; echo $? > {idx}.rc\n")
    procs = []
    for k, lines in enumerate(shards):
        if lines:
            (workdir / f"shard{k}.sh").write_text("".join(lines))
            procs.append(subprocess.Popen(["sh", f"shard{k}.sh"], cwd=str(workdir), stdin=subprocess.DEVNULL, stdout=subprocess.DEVNULL,
                                          stderr=subprocess.DEVNULL))
    for pr in procs:
        pr.wait()
    results = []
    for idx, job in enumerate(jobs):
        try:
            rc = int((workdir / f"{idx}.rc").read_text().strip() or "1")
            err = (workdir / f"{idx}.err").read_text(errors="replace")
        except (OSError, ValueError):
            rc, err = 125, "the compile job did not run"
        if rc == 0 and not err.strip():
            results.append((job, None, ""))
            continue
        lines = err.replace(str(tus[(str(job[0]), job[1], job[3])]), "<tu>").splitlines()
        first = "timeout" if rc == 124 else next((l for l in lines if re.search(r"\b(error|warning)\b", l)), lines[0] if lines else f"exit {rc}")
        results.append((job, first, "\n".join(lines[:12])))
    shutil.rmtree(workdir, ignore_errors=True)
    # a job that ran into the time limit while 32 shards shared an overloaded machine: once more, alone, with a long limit
    for k, (job, first, detail) in enumerate(results):
        if first == "timeout":
            saved, CC_TIMEOUT = CC_TIMEOUT, 900
            try:
                results[k] = run_compile(job)
            finally:
                CC_TIMEOUT = saved
    return results


def classify(cfg, cmd, first, guard_collision):
    """Name of the defect class of a diagnostic (the key of the failure)."""
    cc = cmd[0]
    if guard_collision:
        return "include-guard-collision"
    if re.search(r"integer constant is so large that it is unsigned|integer literal is too large to be represented in a signed integer type", first):
        return "int64-min-literal"
    if re.search(r"magnitude of floating-point constant too large|floating constant exceeds range", first):
        return "float-constant-literal-range"
    if re.match(r"\s*nunavut/support/", first.strip()):
        return "support-header:" + cfg.ident
    m = re.search(r"\[-W(?:error[=,])?-?W?([\w+-]+)\]", first)
    flag = m.group(1) if m else None
    if cfg.target == "c" and cc == "clang++" and flag in ("zero-as-null-pointer-constant", "nested-anon-types"):
        return "c-header-in-clang++:" + flag
    msg = re.sub(r"^.*?(error|warning): ", "", first)
    msg = re.sub(r"[‘'`\"][^’'`\"]*[’'`\"]", "N", msg)
    msg = re.sub(r"\d+", "#", msg)
    msg = re.sub(r"\b\w+(?:\.\w+)+\.#\.#", "T", msg)     # dotted DSDL type names
    return f"{cfg.target}:{flag or 'error'}:{msg[:70]}"


PY_IMPORT_SCRIPT = r"""
import sys, importlib, warnings, json, pathlib
warnings.simplefilter("error")
out = pathlib.Path(sys.argv[1]); only = sys.argv[2:] ; res = {}
files = sorted(out.rglob("*.py"))
for f in files:
    rel = f.relative_to(out)
    if str(rel) == "__init__.py":
        res["__stray__"] = "top-level __init__.py"; continue
    if only and str(rel) not in only:
        continue
    try:
        compile(f.read_text(), str(f), "exec")
    except BaseException as e:
        res[str(rel)] = f"py_compile: {type(e).__name__}: {e}"[:300]; continue
    parts = list(rel.with_suffix("").parts)
    if parts[-1] == "__init__":
        parts.pop()
    try:
        importlib.import_module(".".join(parts))
    except BaseException as e:
        res[str(rel)] = f"import: {type(e).__name__}: {e}"[:300]
print("RESULT " + json.dumps(res))
"""


def ensure_numpy(ctx):
    try:
        p = subprocess.run([common.PY, "-c", "import numpy"], capture_output=True, timeout=60)
        if p.returncode == 0:
            return None
    except Exception:
        pass
    d = ctx.scratch / "np"
    p = subprocess.run([common.PY, "-m", "pip", "install", "-q", "--no-index", "--find-links", "/opt/veriftools/wheels", "--target", str(d), "numpy"],
                       capture_output=True, text=True, timeout=600)
    if p.returncode != 0:
        raise RuntimeError("cannot install numpy for the generated Python code: " + p.stderr[-300:])
    return d


def python_import(outdir, np_dir, only=()):
    env = dict(os.environ, PYTHONPATH=os.pathsep.join([str(outdir)] + ([str(np_dir)] if np_dir else [])), PYTHONDONTWRITEBYTECODE="1")
    try:
        p = subprocess.run([common.PY, "-c", PY_IMPORT_SCRIPT, str(outdir)] + list(only), env=env, capture_output=True, text=True, timeout=600,
                           cwd=str(outdir.parent))
    except subprocess.TimeoutExpired:
        return {"*": "timeout"}
    m = re.search(r"^RESULT (.*)$", p.stdout, re.M)
    if not m:
        return {"*": ("no result: " + p.stderr.strip()[-300:])}
    return json.loads(m.group(1))


# ---------------------------------------------------------------------------------------------------------------------
# the check
# ---------------------------------------------------------------------------------------------------------------------


def deps_impl(t, transitive):
    from nunavut._dependencies import DependencyBuilder
    d = DependencyBuilder(t).transitive() if transitive else DependencyBuilder(t).direct()
    names = sorted(enc_name(c) for c in d.composite_types)
    flags = "".join("1" if x else "0" for x in [d.uses_integer, d.uses_float, d.uses_variable_length_array, d.uses_array,
                                                 d.uses_boolean_static_array, d.uses_bool, d.uses_primitive_static_array, d.uses_union])
    return ";".join(names) if names else "!", flags


def canon_deps_answer(a):
    names, flags = a.split("|")
    return (";".join(sorted(names.split(";"))) if names != "!" else "!"), flags


def replay_blob(uni, cfg, extra):
    r = {"universe": uni.name, "roots": [{"name": x["dir"].name, "lookup": [l.name for l in x["lookup"]]} for x in uni.roots],
         "dsdl": uni.texts(), "config": cfg.ident, "target": cfg.target, "std": cfg.std, "omit": cfg.omit, "args": cfg.args, "overrides": cfg.overrides}
    r.update(extra)
    return r


# ---------------------------------------------------------------------------------------------------------------------
# round 2: option record, standard_version, reference names, #define names
# ---------------------------------------------------------------------------------------------------------------------

STD_SPELLINGS = ["c++14", "c++17", "c++20", "c++17-pmr", "cetl++14-17", "c11", "gnu++14", "gnu++17", "gnu++20", "c++11", "c++03", "c++98",
                 "c++23", "c++26", "c++2a", "c++1z", "gnu++2b", "c++", "c++1", "c+17", "C++17", "xc++17", " c++17", "c++17 ", "c++170",
                 "c++_7", "c++1_", "c++0x", "gnu17", "g++17", "gnu++", "gnu++1", "gnuc++17", "++17", "c++17-foo", "c++9_", ""]


def language_standard_choices():
    """The choices of --language-standard as argparse holds them in the tree under check."""
    from nunavut.cli import _make_parser
    for a in _make_parser()._actions:
        if "--language-standard" in a.option_strings:
            return list(a.choices)
    raise RuntimeError("--language-standard not found in the argument parser")


def option_and_name_ties(ctx, drv, unis):
    from nunavut.lang import LanguageContextBuilder, Language
    import pydsdl
    reqs, exp = [], []
    # (a) the option record of every --language-standard choice (and none), omit x use_standard_types
    for std in [None] + language_standard_choices():
        for omit in (False, True):
            for use_std in (True, False):
                c = Cfg(f"cpp/{std}", "cpp", [], std=std, omit=omit, overrides={} if use_std else {"use_standard_types": False})
                try:
                    real = c.model_opts()
                except Exception as e:  # noqa
                    real = "raises " + type(e).__name__
                reqs.append(f"cliopts {std or '-'} {'1' if omit else '0'} {'1' if use_std else '0'} 0")
                exp.append(("cliopts", {"std": std, "omit": omit, "use_standard_types": use_std}, real))
    # (b) standard_version on many spellings of `std` (the value the language object ends up with)
    for sp in STD_SPELLINGS:
        b = LanguageContextBuilder(include_experimental_languages=True).set_target_language("cpp")
        b.set_target_language_configuration_override(Language.WKCV_LANGUAGE_OPTIONS, {"std": sp})
        lang = b.create().get_target_language()
        final = str(lang.get_option("std", ""))
        try:
            real = str(lang.standard_version)
        except ValueError:
            real = "err:badStdNumber"
        reqs.append(f"stdver {enc(final)}")
        exp.append(("stdver", {"std_option": sp, "std_after_validation": final}, real))
        ctx.count("standard_version:" + ("raises" if real.startswith("err") else "number" if real != "0" else "zero"))
    # (c) reference names of every composite (nested request / response included) through the real filters
    from nunavut.lang.c import filter_full_reference_name as c_ref
    from nunavut.lang.cpp import filter_full_reference_name as x_ref, filter_full_macro_name as x_mac
    langs = {}
    for strop in (True, False):
        for tgt in ("c", "cpp"):
            b = LanguageContextBuilder(include_experimental_languages=True).set_target_language(tgt)
            b.set_target_language_configuration_override(Language.WKCV_ENABLE_STROPPING, strop)
            langs[(tgt, strop)] = b.create().get_target_language()
    seen = set()
    for u in unis:
        for ts in u.types.values():
            for t in ts:
                parts = [t.request_type, t.response_type] if isinstance(t, pydsdl.ServiceType) else [t]
                for dt in parts + list(reach(t).values()):
                    key = (u.name, str(dt))
                    if key in seen:
                        continue
                    seen.add(key)
                    sv = f"{dt.short_name}_{dt.version.major}_{dt.version.minor}"
                    joined = "_".join(dt.full_namespace.split(".") + [sv])
                    for strop in (True, False):
                        lc, lx = langs[("c", strop)], langs[("cpp", strop)]
                        tbl_c = f"{enc(joined)}>{enc(lc.filter_id(joined))}" if strop and lc.filter_id(joined) != joined else "!"
                        pairs = {x: lx.filter_id(x) for x in dt.full_namespace.split(".") + [sv]} if strop else {}
                        tbl_x = ";".join(f"{enc(a)}>{enc(b)}" for a, b in sorted(pairs.items()) if a != b) or "!"
                        en = "1" if strop else "0"
                        reqs.append(f"cref {en} {tbl_c} {enc_name(dt)}")
                        exp.append(("cref", {"universe": u.name, "type": str(dt), "stropping": strop}, enc(c_ref(lc, dt))))
                        reqs.append(f"cppref {en} {tbl_x} {enc_name(dt)}")
                        exp.append(("cppref", {"universe": u.name, "type": str(dt), "stropping": strop}, enc(x_ref(lx, dt))))
                        reqs.append(f"cppmacro {en} {tbl_x} {enc_name(dt)}")
                        exp.append(("cppmacro", {"universe": u.name, "type": str(dt), "stropping": strop}, enc(x_mac(lx, dt))))
    # (d) filter_to_snake_case: every dotted full name, then a seeded stream over an alphabet that exercises all four passes
    from nunavut.lang.c import filter_to_snake_case
    texts = sorted({str(dt.full_name) for u in unis for ts in u.types.values() for t in ts for dt in [t] + list(reach(t).values())})
    texts += ["port.SubjectIDList", " aa bb. cCcAAa_aAa_AAaAa_AAaA_a ", "scotec.mcu.Timer", "HTTPServerID", "aB", "ABc", "A_B", "_A", "a..b", ".a.", "",
              "ABCdefGHI", "xABCd", "X1Y2z", "a-b--c", "\tTabbed Name\n"]
    alphabet = "ABCXYZabcxyz019__.. -"
    for _ in range(300 if ctx.quick else 3000):
        texts.append("".join(ctx.rng.choice(alphabet) for _ in range(ctx.rng.randint(0, 14))))
    for tx in texts:
        reqs.append(f"snake {enc(tx)}")
        exp.append(("snake", {"text": tx}, enc(filter_to_snake_case(tx))))
    ans = drv.ask(reqs, timeout=900)
    for (stream, inp, real), a in zip(exp, ans):
        ctx.traces += 1
        ctx.count("tie:" + stream)
        if stream == "snake" and a != real:
            ctx.disagree(stream, inp, common.dec(a) if re.fullmatch(r"[\d.]+|-", a) else a, common.dec(real))
            continue
        if a != real:
            ctx.disagree(stream, inp, common.dec(a) if stream in ("cref", "cppref", "cppmacro") and re.fullmatch(r"[\d.]+|-", a) else a,
                         common.dec(real) if stream in ("cref", "cppref", "cppmacro") else real)


def comp_names_tokens(c):
    """`<isUnion> <fields> <consts>` of the driver for one PyDSDL composite (raw DSDL names, padding left out)."""
    import pydsdl
    inner = c.inner_type if isinstance(c, pydsdl.DelimitedType) else c
    fs = []
    for f in c.fields_except_padding:
        k = "v" if isinstance(f.data_type, pydsdl.VariableLengthArrayType) else "a" if isinstance(f.data_type, pydsdl.ArrayType) else "s"
        fs.append(f"{enc(f.name)}:{k}")
    cs = [enc(k.name) for k in c.constants]
    return f"{'1' if isinstance(inner, pydsdl.UnionType) else '0'} {';'.join(fs) or '!'} {';'.join(cs) or '!'}"


_DEFINE = re.compile(r"^[ \t]*#[ \t]*define[ \t]+(\w+)", re.M)


def c_name_clash(c):
    """Independent predicate: a constant of the composite is named like a macro suffix the C templates generate."""
    import pydsdl
    fixed = {"FULL_NAME_", "FULL_NAME_AND_VERSION_", "EXTENT_BYTES_", "SERIALIZATION_BUFFER_SIZE_BYTES_", "HAS_FIXED_PORT_ID_", "FIXED_PORT_ID_",
             "DISABLE_SERIALIZATION_BUFFER_CHECK_", "UNION_OPTION_COUNT_"}
    arr = [f.name for f in c.fields_except_padding if isinstance(f.data_type, pydsdl.ArrayType)]
    gen = fixed | {a + "_ARRAY_CAPACITY_" for a in arr} | {a + "_ARRAY_IS_VARIABLE_LENGTH_" for a in arr}
    return sorted(k.name for k in c.constants if k.name in gen)


def cpp_name_clash(c):
    """Independent predicate: an attribute of the union is named like a member the C++ templates generate for it."""
    import pydsdl
    inner = c.inner_type if isinstance(c, pydsdl.DelimitedType) else c
    if not isinstance(inner, pydsdl.UnionType):
        return []
    fields = [f.name for f in c.fields_except_padding]
    gen = {"VariantType", "union_value", "_traits_", "MAX_INDEX", "IndexOf", "allocator_type"}
    for f in fields:
        gen |= {"is_" + f, "get_" + f, "get_" + f + "_if", "set_" + f}
    return sorted(a.name for a in c.attributes if a.name and a.name in gen)


_NAME_ORACLE_SEEN = set()


def c_reference_name_oracle(ctx, u, c, lang, out, all_types, flags):
    """The property's predicate on the implementation: two different composite types of one universe must not get one C
    reference name.  Witnessed with the compiler: a translation unit that includes both headers and uses a member only the
    second type has."""
    import pydsdl
    from nunavut.lang.c import filter_full_reference_name as c_ref
    by_name = {}
    for t in all_types:
        for dt in ([t, t.request_type, t.response_type] if isinstance(t, pydsdl.ServiceType) else [t]):
            by_name.setdefault(c_ref(lang, dt), []).append((t, dt))
    for name, group in sorted(by_name.items()):
        if len(group) < 2:
            continue
        key = (u.name, name, c.ident)
        if key in _NAME_ORACLE_SEEN:
            continue
        _NAME_ORACLE_SEEN.add(key)
        (ta, a), (tb, b) = group[0], group[1]
        fa = {f.name for f in a.fields_except_padding}
        fb = {f.name for f in b.fields_except_padding}
        first_t, second_t, member = (ta, tb, sorted(fb - fa)) if fb - fa else (tb, ta, sorted(fa - fb))
        diag = None
        if member and not isinstance(first_t, pydsdl.ServiceType) and not isinstance(second_t, pydsdl.ServiceType):
            tu = (f'#include "{lang_path(lang, first_t)}"\n#include "{lang_path(lang, second_t)}"\n'
                  f"static inline void probe_(const {name}* const p) {{ (void) p->{lang.filter_id(member[0])}; }}\n")
            cmd = ["gcc", "-std=c11"] + flags["c"] + flags["gnu_extra"] + ["-fsyntax-only", "-I", str(out), "-x", "c", "-"]
            try:
                p = subprocess.run(cmd, input=tu, capture_output=True, text=True, timeout=CC_TIMEOUT)
                lines = p.stderr.replace(str(out) + "/", "").splitlines()
                diag = next((l for l in lines if re.search(r"\berror\b", l)), None) if p.returncode != 0 else "(compiles: the member exists in both)"
            except subprocess.TimeoutExpired:
                diag = "timeout"
        ctx.fail({"kind": "c-reference-name-collision"},
                 f"{a} and {b} ({c.ident}) both get the C reference name {name}; a translation unit that includes both headers sees one "
                 f"definition only" + (f": {diag}" if diag else ""),
                 replay_blob(u, c, {"colliding_types": [str(a), str(b)], "c_name": name, "probe_member": member[:1], "diagnostic": diag}))


HISTORY = common.VERIF / "corpus" / "C06_history"


def run_histories(ctx, flags):
    """Round 2 (wave 7): state carried between runs through the output directory.  Run 1 generates root `first` with option set A,
    run 2 generates root `second` into the SAME directory with option set B, in the default mode and with --no-overwrite.  The
    property on the implementation: every run that reports success leaves headers (the ones it produced) that build on their own;
    and the support header in the tree is the one of the options of the last successful run (compared with a fresh directory).
    A run that refuses (non-zero exit) is fine."""
    c_sets = {"default": [], "little": ["--target-endianness", "little"], "asserts": ["--enable-serialization-asserts"],
              "nofloat": ["--omit-float-serialization-support"], "ovr": ["--enable-override-variable-array-capacity"]}
    hist = []
    for a, b in [("default", "little"), ("default", "asserts"), ("little", "default"), ("default", "nofloat"), ("default", "default")] + \
                ([] if ctx.quick else [("asserts", "ovr"), ("nofloat", "little"), ("little", "little")]):
        for mode in ("no-overwrite", "overwrite"):
            hist.append(("c", None, c_sets[a], None, c_sets[b], f"c/{a}->{b}/{mode}", mode))
    for (sa, a), (sb, b) in [(("c++17", "default"), ("c++17", "little")), (("c++14", "default"), ("c++17", "default")),
                             (("c++17", "default"), ("c++17-pmr", "default")), (("c++17", "default"), ("c++17", "default"))] + \
                            ([] if ctx.quick else [(("c++20", "asserts"), ("c++20", "default")), (("c++17-pmr", "default"), ("c++14", "little"))]):
        for mode in ("no-overwrite", "overwrite"):
            hist.append(("cpp", sa, c_sets[a], sb, c_sets[b], f"cpp/{sa}+{a}->{sb}+{b}/{mode}", mode))
    env = dict(os.environ, PYTHONPATH=str(common.REPO / "src"), PYTHONDONTWRITEBYTECODE="1")

    def nnvg(target, std, args, out, root, extra=()):
        cmd = [common.PY, "-m", "nunavut", "--target-language", target, "--experimental-languages"] + list(args) + list(extra)
        if std:
            cmd += ["--language-standard", std]
        cmd += ["-O", str(out), str(HISTORY / root)]
        try:
            p = subprocess.run(cmd, env=env, capture_output=True, text=True, timeout=NNVG_TIMEOUT, cwd=str(ctx.scratch))
        except subprocess.TimeoutExpired:
            return 124, "timeout"
        lines = [l for l in p.stderr.strip().splitlines() if l.strip()]
        return p.returncode, (lines[-1] if lines else "")[:300]

    def one(k_h):
        k, (target, sa, aa, sb, ab, ident, mode) = k_h
        base = ctx.scratch / "hist" / str(k)
        out, fresh = base / "out", base / "fresh"
        ext = ".h" if target == "c" else ".hpp"
        r1 = nnvg(target, sa, aa, out, "first")
        if r1[0] != 0:
            return ident, "run1-failed", r1[1], []
        r2 = nnvg(target, sb, ab, out, "second", ["--no-overwrite"] if mode == "no-overwrite" else [])
        if r2[0] != 0:
            return ident, "run2-refused", r2[1], []
        rf = nnvg(target, sb, ab, fresh, "second")
        bad = []
        if rf[0] == 0:
            sup = sorted(p.relative_to(fresh).as_posix() for p in (fresh / "nunavut").rglob("*" + ext)) if (fresh / "nunavut").exists() else []
            for srel in sup:
                if not (out / srel).exists() or (out / srel).read_text() != (fresh / srel).read_text():
                    bad.append(("support-differs", srel, "the support header in the tree is not the one the options of the last successful run generate"))
        for h in sorted(p.relative_to(out).as_posix() for p in (out / "second").rglob("*" + ext)):
            if target == "c":
                cmd = ["gcc", "-std=c11"] + flags["c"] + flags["gnu_extra"]
            else:
                cmd = ["g++", "-std=" + sb.replace("-pmr", "")] + flags["cxx"] + flags["gnu_extra"]
            job, first, detail = run_compile((out, h, cmd, "c" if target == "c" else "c++", tuple(ab)))
            if first is not None:
                bad.append(("diagnostic", h, first.replace(str(out) + "/", "")))
        return ident, "run2-succeeded", r2[1], bad

    with cf.ThreadPoolExecutor(max_workers=8) as ex:
        results = list(ex.map(one, enumerate(hist)))
    for (target, sa, aa, sb, ab, ident, mode), (_, status, msg, bad) in zip(hist, results):
        ctx.case(("history", ident), True)
        ctx.count("history:" + status + ":" + mode)
        if status == "run1-failed":
            ctx.fail({"kind": "generation-error", "lang": target, "cause": "history-run1"}, f"history {ident}: the first run fails: {msg}",
                     {"history": ident, "error": msg})
        for kind, where, text in bad:
            cause = "stale-support-header" if kind == "support-differs" or "static assertion failed" in text or "static_assert" in text \
                else re.sub(r"\d+", "#", re.sub(r"[‘'`\"][^’'`\"]*[’'`\"]", "N", re.sub(r"^.*?(error|warning): ", "", text)))[:70]
            ctx.fail({"kind": "history-tree-does-not-build", "cause": cause},
                     f"history {ident}: run 2 reports success but {where}: {text}",
                     {"history": ident, "target": target, "run1": {"std": sa, "args": aa, "root": "corpus/C06_history/first"},
                      "run2": {"std": sb, "args": ab, "root": "corpus/C06_history/second", "mode": mode}, "where": where, "observed": text,
                      "expected": "a run that reports success leaves headers that build on their own with the support header in the tree"})


def ns_shadow_in_tu(types):
    """Independent predicate on the DSDL types of a translation unit: some type refers to a composite whose first namespace
    component is also the name of a namespace declared (by a type of the TU) directly inside one of the referring type's enclosing
    namespaces — unqualified lookup of `first::...` then finds that inner namespace instead of the outer one."""
    import pydsdl
    declared = set()
    for t in types:
        comps = t.full_namespace.split(".") + ([t.short_name] if isinstance(t, pydsdl.ServiceType) else [])
        for k in range(2, len(comps) + 1):
            declared.add(tuple(comps[:k]))
    for t in types:
        ns = t.full_namespace.split(".") + ([t.short_name] if isinstance(t, pydsdl.ServiceType) else [])
        for d in reach(t).values():
            first = d.full_namespace.split(".")[0]
            for p in declared:
                if p[-1] == first and list(p[:-1]) == ns[:len(p) - 1]:
                    return True
    return False


def regenerate_tables(ctx):
    """The generated tables Model/DepsOpts.lean reads (shared with C13 / C08 / C17): rewritten only when the tree changed."""
    import importlib.util
    tr = ctx.extra.setdefault("translator", {})

    def load(name):
        spec = importlib.util.spec_from_file_location("verif_translate_" + name, str(common.VERIF / "translate" / (name + ".py")))
        m = importlib.util.module_from_spec(spec)
        spec.loader.exec_module(m)
        return m
    jobs = [("cppdefaults", lambda m: m.main(common.REPO)), ("clioptions", lambda m: m.main(common.REPO)),
            ("supportfiles", lambda m: m.main(common.LEAN / "NunavutVerif" / "Gen" / "SupportFiles.lean")["changed"])]
    for name, call in jobs:
        try:
            tr[name] = "rewritten" if call(load(name)) else "unchanged"
        except Exception as e:  # noqa  (the translator can no longer express the source: tie broken)
            ctx.broken.append({"kind": "translator", "translator": name, "error": repr(e)[:300]})
    try:
        if str(common.VERIF) not in sys.path:
            sys.path.insert(0, str(common.VERIF))
        from translate import optiondomain
        optiondomain.generate()
        tr["optiondomain"] = "ran"
    except Exception as e:  # noqa
        ctx.broken.append({"kind": "translator", "translator": "optiondomain", "error": repr(e)[:300]})


def run(ctx: common.Ctx):
    regenerate_tables(ctx)
    drivers = ctx.prove(["C06"], exes=["deps"])
    drv = drivers.get("deps")
    quick = ctx.quick
    flags = read_flag_sets()
    ctx.extra["flag_sets"] = flags
    tools = {t: have(t) for t in ["gcc", "clang", "g++", "clang++"]}
    ctx.extra["compilers"] = tools
    if not all(tools.values()):
        raise RuntimeError(f"compilers missing: {tools}")
    ctx.rule = ("one case = (type, generation configuration); types from the corpus namespaces (hand-written stress: keyword / reserved names, "
                "services, deprecated, empty, 64-bit wide, sealed and non-sealed unions, cross-root dependencies, include-guard twins) plus seeded "
                "dsdlgen / dsdlgen_simple namespaces; configurations = C / C++14,17,20,17-pmr,built-in std / Python x serialization enabled|omitted x "
                "option sets (endianness any|little|big, asserts, capacity override, omit float, use_standard_types on|off, constructor conventions; "
                "cetl generated and scanned only); corpus `matrix` (service, deprecated, padding-only, zero-bit, unions of composites / arrays, "
                "fixed / variable arrays of bool / primitives / composites / delimited fixed-size composites, arrays nested two deep) meets every "
                "configuration in both tiers; option record of every --language-standard choice x omit x use_standard_types, 37 std spellings, "
                "reference names of every composite with stropping on and off; "
                "non-trivial = the type has a dependency, a union, an array or a fixed port-ID; distinct by (universe, type, configuration)")
    ctx.assumptions = [
        "the compilers of this sandbox (gcc/g++ 12, clang/clang++ 14, libstdc++) judge 'no diagnostic'; -fsyntax-only (no optimiser-dependent warnings)",
        "stropping (filter_id / filter_short_reference_name) and macrofy enter the model as tables computed by the real code (C09 / C11 cover them)",
        "`provides`: standard headers by the C/C++ standard, `<limits>` also providing std::size_t (library practice), the option-given includes "
        "provide what the options of the same name promise",
        "the cetl++14-17 flavour is generated and scanned, not compiled (CETL is not available offline)",
        "the option tables (Gen/CppDefaults, CliOptions, SupportFiles, OptionDomain) are regenerated from the tree on every run; the pattern "
        "classes \\d / \\w of standard_version are modelled over ASCII",
        "stropping enters the name theorems as a function (its table comes from the real filter_id on the tie); collisions through stropping "
        "are excluded by the property statement",
    ]
    import time
    phases = ctx.extra.setdefault("phase_seconds", {})
    t_phase = [time.time()]

    import resource
    cpu = ctx.extra.setdefault("phase_cpu_seconds", {})
    c_phase = [0.0]

    def cpu_now():
        a, b = resource.getrusage(resource.RUSAGE_CHILDREN), resource.getrusage(resource.RUSAGE_SELF)
        return a.ru_utime + a.ru_stime + b.ru_utime + b.ru_stime

    def phase(name):
        phases[name] = round(time.time() - t_phase[0], 1)
        t_phase[0] = time.time()
        cpu[name] = round(cpu_now() - c_phase[0], 1)
        c_phase[0] = cpu_now()
    np_dir = ensure_numpy(ctx)
    yaml_dir = ctx.scratch / "yaml"
    yaml_dir.mkdir()

    # ---- universes -----------------------------------------------------------------------------------------------
    unis = corpus_universes()
    ncorpus = len(unis)
    unis += generated_universes(ctx, n_gen=1 if quick else 7, n_simple=2 if quick else 7, n_types=18 if quick else 30)
    good = []
    for u in unis:
        if u.read():
            good.append(u)
        else:
            ctx.count("universe_rejected_by_front_end")
            if u.origin == "corpus":
                ctx.disagree("corpus", u.name, "accepted by the front end", u.error)
    unis = good
    if os.environ.get("C06_ONLY"):
        unis = [u for u in unis if any(x in u.name for x in os.environ["C06_ONLY"].split(","))]
    phase("setup+universes")
    ctx.extra["universes"] = {"corpus": ncorpus, "total_accepted": len(unis), "types": sum(len(v) for u in unis for v in u.types.values())}
    cfgs = configurations(quick)
    ctx.extra["configurations"] = [c.ident for c in cfgs]

    # ---- tie 1: DependencyBuilder ----------------------------------------------------------------------------------
    if drv is not None:
        reqs, exp = [], []
        for u in unis:
            for ri, ts in u.types.items():
                for t in ts:
                    top = enc_top(t)
                    for mode, tr in (("d", False), ("t", True)):
                        reqs.append(f"deps fix {mode} {top}")
                        exp.append((u, t, mode, deps_impl(t, tr)))
        ans = drv.ask(reqs, timeout=900)
        for (u, t, mode, real), a in zip(exp, ans):
            ctx.traces += 1
            if "|" not in a or canon_deps_answer(a) != real:
                ctx.disagree("deps-" + mode, {"universe": u.name, "type": str(t), "dsdl": u.texts() if len(ctx.disagreements) < 3 else "(omitted)"}, a, real)
            # closure: every name is a type the front end has read (the harness's own walk of the model)
            if mode == "t":
                rk = {enc_name(c) for c in reach(t).values()}
                if real[0] != "!" and not set(real[0].split(";")) <= rk:
                    ctx.disagree("deps-closure", {"universe": u.name, "type": str(t)}, sorted(rk), real[0])

    phase("deps-tie")
    if drv is not None:
        option_and_name_ties(ctx, drv, unis)
    phase("options+names-tie")
    # ---- generation (parallel) ---------------------------------------------------------------------------------------
    gen_jobs = []
    for ui, u in enumerate(unis):
        for ci, c in enumerate(cfgs):
            named = bool(c.only)      # the configuration names this universe: it meets it whatever its LIGHT mark says
            if c.only and not any(x in u.name for x in ([c.only] if isinstance(c.only, str) else c.only)):
                continue
            # quick tier: the corpus meets every configuration; a generated universe the three basic ones and every second of the rest
            # (round 2: 48 configurations — in the thorough tier the generated universes meet the basic ones and two of every three others)
            if u.origin != "corpus" and c.ident not in ("c/default", "c/little", "cpp/c++17", "py/default") and (
                    (ci + ui) % 2 if quick else (ci + ui) % 3 == 0):
                continue
            if quick and getattr(u, "light", False) and c.ident not in LIGHT_CONFIGS and not named:
                continue
            out = ctx.scratch / "out" / f"u{ui}" / c.ident.replace("/", "_")
            out.mkdir(parents=True)
            gen_jobs.append((u, c, out))
    with cf.ThreadPoolExecutor(max_workers=14) as ex:
        gen_res = list(ex.map(lambda j: generate(j[0], j[1], j[2], yaml_dir), gen_jobs))
    runs = []
    for (u, c, out), err in zip(gen_jobs, gen_res):
        ctx.count("nnvg_runs")
        if err is not None:
            m_exc = re.match(r"\s*([A-Za-z_][\w.]*)\s*(?::|$)", err)
            cause = "py-pickle-recursion" if (c.target == "py" and "RecursionError" in err) else (m_exc.group(1).split(".")[-1] if m_exc else re.sub(r"\d+", "#", err)[:60])
            ctx.fail({"kind": "generation-error", "lang": c.target, "cause": cause},
                     f"generation fails for a namespace the front end accepts ({c.ident}): {err}", replay_blob(u, c, {"error": err}))
            ctx.count("generation_errors")
            continue
        runs.append((u, c, out))

    phase("generation")
    # ---- scan + model ------------------------------------------------------------------------------------------------
    compile_jobs, job_ctx = [], {}
    reqs, meta = [], []
    py_runs = []
    for u, c, out in runs:
        lang = c.language()
        ext = lang.extension
        all_types = [t for ts in u.types.values() for t in ts]
        if c.target in ("c", "cpp"):
            headers = sorted(p.relative_to(out).as_posix() for p in out.rglob("*" + ext))
            header_set = set(headers)
            texts = {h: (out / h).read_text() for h in headers}
            guards = {}
            for h, txt in texts.items():
                m = re.search(r"^#ifndef (\w+)\s*\n#define \1\b", txt, re.M)
                if m:
                    guards.setdefault(m.group(1), []).append(h)
                else:
                    ctx.fail({"kind": "no-include-guard"}, "generated header without include guard", replay_blob(u, c, {"header": h}))
            collided = {h: g for g, hs in guards.items() if len(hs) > 1 for h in hs}
            for g, hs in guards.items():
                if len(hs) > 1:
                    ctx.fail({"kind": "include-guard-collision"}, f"different generated headers share the include guard {g}",
                             replay_blob(u, c, {"guard": g, "headers": hs}))
            # quoted-include closure per header (for attributing consequences of a guard collision; missing files)
            # project-relative operands: the quoted ones; with prefer_system_includes the <...> ones that name a path with a directory
            prefer_sys = lang.get_config_value_as_bool("prefer_system_includes", False)
            quoted = {h: [i[1:-1] for i in _INCLUDE.findall(txt) if i.startswith('"') or (prefer_sys and i.startswith("<") and "/" in i)]
                      for h, txt in texts.items()}

            def closure(h, seen=None, quoted=quoted):
                seen = set() if seen is None else seen
                for q in quoted.get(h, []):
                    if q not in seen:
                        seen.add(q)
                        closure(q, seen, quoted)
                return seen
            mopts = c.model_opts()
            type_of_header = {lang_path(lang, t): t for t in all_types}
            if c.target == "c":
                c_reference_name_oracle(ctx, u, c, lang, out, all_types, flags)
            vla_t = str(lang.get_option("variable_array_type_template", "")) if c.target == "cpp" else ""
            alloc_t = str(lang.get_option("allocator_type", "")) if c.target == "cpp" else ""
            for t in all_types:
                rel = lang_path(lang, t)
                case = (u.name, str(t), c.ident)
                tags = shape_tags(t)
                ctx.case(case, bool(tags - {"constants", "w64"}) or bool(reach(t)))
                for tg in tags:
                    ctx.count("shape:" + tg)
                ctx.count("cfg:" + c.ident)
                if rel not in header_set:
                    ctx.fail({"kind": "missing-file", "lang": c.target}, "no file generated for a type", replay_blob(u, c, {"type": str(t), "expected": rel}))
                    continue
                includes, facs = scan_c(texts[rel]) if c.target == "c" else scan_cpp(texts[rel], vla_t, alloc_t)
                # oracle: every project-relative include is a generated file
                external = {str(lang.get_option(k, "")).strip('"') for k in ("allocator_include", "variable_array_type_include")} if c.target == "cpp" else set()
                for q in quoted[rel]:
                    if q not in header_set and q not in external:
                        ctx.fail({"kind": "missing-file", "lang": c.target, "cause": "include-not-generated"},
                                 f"{rel} includes {q} which generating the involved namespaces does not produce",
                                 replay_blob(u, c, {"header": rel, "include": q}))
                comps = list(reach(t).values())
                pc = c.path_cfg(comps)
                top = enc_top(t)
                reqs.append(f"inc {c.target} fix {mopts} {pc} {top}")
                meta.append(("inc", u, c, t, rel, includes))
                skip_fac = any(SCAN_COLLIDING_NAMES.match(n) for n in attribute_names(t))
                if skip_fac:
                    ctx.count("facility_tie_skipped_attribute_named_like_a_token")
                else:
                    reqs.append(f"fac {c.target} fix {mopts} {pc} {top}")
                    meta.append(("fac", u, c, t, rel, facs))
                if c.target == "c":
                    # round 2: the #define'd names of the header in file order (include guard aside) vs the model
                    import pydsdl
                    from nunavut.lang.c import filter_full_reference_name as c_ref
                    plain = _LEX.sub(lambda m: " " if m.group(0)[:2] in ("//", "/*") else m.group(0), texts[rel])
                    gm = re.search(r"^#ifndef (\w+)\s*\n#define \1\b", plain, re.M)
                    defs = [d for d in _DEFINE.findall(plain) if not (gm and d == gm.group(1))]
                    ovr = "1" if "--enable-override-variable-array-capacity" in c.args else "0"
                    fp = "1" if t.has_fixed_port_id else "0"
                    if isinstance(t, pydsdl.ServiceType):
                        rq, rs = t.request_type, t.response_type
                        reqs.append(f"cdefs {ovr} S {enc(c_ref(lang, t))} {fp} {enc(c_ref(lang, rq))} {comp_names_tokens(rq)} "
                                    f"{enc(c_ref(lang, rs))} {comp_names_tokens(rs)}")
                        parts_ = [rq, rs]
                    else:
                        reqs.append(f"cdefs {ovr} M {enc(c_ref(lang, t))} {fp} {comp_names_tokens(t)}")
                        parts_ = [t]
                    meta.append(("cdefs", u, c, t, rel, defs))
                    for pt in parts_:
                        reqs.append(f"cclear {comp_names_tokens(pt)}")
                        meta.append(("cclear", u, c, t, rel, "0" if c_name_clash(pt) else "1"))
                if c.target == "cpp":
                    nsn = [lang.filter_id(x) if lang.enable_stropping else x for x in t.full_namespace.split(".")]
                    reqs.append("nsopen " + "|".join(enc(x) for x in nsn))
                    meta.append(("nsopen", u, c, t, rel, texts[rel]))
                    reqs.append("nsclose " + "|".join(enc(x) for x in nsn))
                    meta.append(("nsclose", u, c, t, rel, texts[rel]))
                    body = strip_text(texts[rel])[1]
                    if body.count("{") != body.count("}"):
                        ctx.fail({"kind": "unbalanced-braces"}, "generated C++ header with unbalanced braces", replay_blob(u, c, {"header": rel}))
                # the include guard from the dotted full name: the model's macrofy; only filter_id(., "macro") enters as a table
                from nunavut.lang.c import filter_to_screaming_snake_case
                cl = c_lang_for_macrofy()
                raw = filter_to_screaming_snake_case(str(t.full_name))
                mtbl = f"{enc(raw)}>{enc(cl.filter_id(raw, 'macro'))}" if cl.filter_id(raw, "macro") != raw else "!"
                reqs.append(f"guardname {'1' if cl.enable_stropping else '0'} {mtbl} {enc(str(t.full_name))} {t.version.major} {t.version.minor} "
                            f"{enc('_INCLUDED_' if c.target == 'c' else '_HPP_INCLUDED')}")
                meta.append(("guard", u, c, t, rel, texts[rel]))
            if c.compile_ok:
                to_compile = headers
                if "--omit-float-serialization-support" in c.args and not c.omit:
                    floaty = {lang_path(lang, t) for t in all_types if uses_float(t)}
                    to_compile = [h for h in headers if h not in floaty]
                    ctx.count("headers_not_judged_under_omit_float(type uses float)", len(headers) - len(to_compile))
                for j in compile_jobs_for(c, out, to_compile, flags, quick):
                    j = j + (tuple(c.args),)
                    compile_jobs.append(j)
                    job_ctx[id(j)] = (u, c, collided, closure, type_of_header)
        else:
            py_runs.append((u, c, out))
            for t in all_types:
                case = (u.name, str(t), c.ident)
                ctx.case(case, bool(reach(t)))
                ctx.count("cfg:" + c.ident)
                rel = lang_path(lang, t)
                f = out / rel
                if not f.exists():
                    ctx.fail({"kind": "missing-file", "lang": "py"}, "no file generated for a type", replay_blob(u, c, {"type": str(t), "expected": rel}))
                    continue
                txt = f.read_text()
                head = txt.split("\nclass ", 1)[0] if "\nclass " in txt else txt
                imps = re.findall(r"^import ([\w.]+)$", head, re.M)
                mods = []
                if re.search(r"^from nunavut_support import", head, re.M):
                    mods.append("nunavut_support")
                for mname, rx in (("numpy", r"^import numpy as"), ("numpy.typing", r"^from numpy\.typing import"), ("pydsdl", r"^import pydsdl as"),
                                  ("warnings", r"^import warnings as")):
                    if re.search(rx, head, re.M):
                        mods.append(mname)
                comps = list(reach(t).values())
                pairs = {}
                for dt in comps:
                    for x in dt.full_namespace.split("."):
                        pairs[x] = lang.filter_id(x)
                tbl = ";".join(f"{enc(a)}>{enc(b)}" for a, b in sorted(pairs.items()) if a != b) or "!"
                reqs.append(f"pyimp {'1' if lang.enable_stropping else '0'} {tbl} {enc_top(t)}")
                meta.append(("pyimp", u, c, t, rel, imps))
                reqs.append(f"pymod fix {'1' if c.omit else '0'} {'1' if t.deprecated else '0'}")
                meta.append(("pymod", u, c, t, rel, mods))
                # oracle: every imported package is generated (or the support module / a documented requirement)
                for i in imps:
                    if not (out / pathlib.Path(*i.split(".")) / "__init__.py").exists():
                        ctx.fail({"kind": "missing-file", "lang": "py", "cause": "import-not-generated"},
                                 f"{rel} imports {i} which generating the involved namespaces does not produce", replay_blob(u, c, {"module": rel, "import": i}))
                if "nunavut_support" in mods and not (out / "nunavut_support.py").exists():
                    ctx.fail({"kind": "missing-file", "lang": "py", "cause": "support-module-not-generated"},
                             f"{rel} imports nunavut_support which is not generated" + (" with --omit-serialization-support" if c.omit else ""),
                             replay_blob(u, c, {"module": rel, "import": "nunavut_support"}))

    phase("scan")
    if drv is not None and reqs:
        ans = drv.ask(reqs, timeout=1800)
        for (kind, u, c, t, rel, real), a in zip(meta, ans):
            ctx.traces += 1
            where = {"universe": u.name, "config": c.ident, "type": str(t), "file": rel}
            if kind == "inc":
                model = [common.dec(x) for x in a[3:].split("|")] if a.startswith("ok ") and a != "ok !" else ([] if a == "ok !" else a)
                if model != real:
                    where["dsdl"] = u.texts() if len(ctx.disagreements) < 3 else "(omitted)"
                    ctx.disagree("includes", where, model, real)
            elif kind == "fac":
                m = re.match(r"must=(\S+) may=(\S+) uncovered=(\S+)$", a)
                if not m:
                    ctx.disagree("facilities", where, a, sorted(real))
                    continue
                must, may, unc = [set() if x == "-" else set(x.split(",")) for x in m.groups()]
                if not (must <= real <= (must | may)):
                    ctx.disagree("facilities", where, {"must": sorted(must), "may": sorted(may)}, sorted(real))
                # the hypothesis of C06_facilities_covered_cpp_map (`mapDelivers`), read off the real options
                lo = c.language()
                opts_ok = c.target == "c" or (
                    (str(lo.get_option("ctor_convention", "default")) == "default" or str(lo.get_option("allocator_include", "")) != "")
                    and str(lo.get_option("variable_array_type_include", "")) != "")
                if unc and opts_ok:
                    ctx.disagree("facility-coverage", where, {"uncovered": sorted(unc)}, "theorem C06_facilities_covered says none")
                elif unc:
                    ctx.count("uncovered_outside_the_theorem_hypotheses(cpp, option map does not deliver its includes)")
                for f in real:
                    ctx.count("facility:" + f)
            elif kind == "cdefs":
                model = [common.dec(x) for x in a.split("|")] if a not in ("!", "bad-op") else ([] if a == "!" else a)
                if model != real:
                    ctx.disagree("c-defines", where, model, real)
            elif kind == "cclear":
                if a != real:
                    ctx.disagree("c-consts-clear", where, a, real)
            elif kind in ("nsopen", "nsclose"):
                s = common.dec(a)
                if s not in real:
                    ctx.disagree(kind, where, s, "(text not found in the generated header)")
            elif kind == "guard":
                g = common.dec(a)
                if not re.search(r"^#ifndef " + re.escape(g) + r"\s*\n#define " + re.escape(g) + r"\s*$", real, re.M) or not real.rstrip().endswith("#endif // " + g):
                    ctx.disagree("guard", where, g, "(guard lines not found in the generated header)")
            elif kind in ("pyimp", "pymod"):
                model = [common.dec(x) for x in a.split("|")] if a != "!" else []
                if (model != real) if kind == "pyimp" else (sorted(model) != sorted(real)):
                    ctx.disagree(kind, where, model, real)

    phase("model-tie")
    # ---- oracle: the compilers -------------------------------------------------------------------------------------------
    ctx.extra["compile_jobs"] = len(compile_jobs)
    ndiag = 0
    ident_cache = {}
    if True:
        for job, first, detail in run_compile_jobs(compile_jobs, ctx.scratch / "cc"):
            ctx.count("compiled:" + job[2][0])
            if first is None:
                continue
            ndiag += 1
            u, c, collided, closure, type_of_header = job_ctx[id(job)]
            outdir, header, cmd, xlang = job[:4]
            inc_set = [header] + sorted(closure(header))
            gs = [collided[x] for x in inc_set if x in collided]
            gc = len(set(gs)) < len(gs)      # the translation unit contains two headers with one include guard
            cause = c.cause or classify(c, cmd, first, gc)
            if not c.cause and not gc:
                # round 2: a DSDL attribute named like something the templates generate for the same type (the independent
                # predicates c_name_clash / cpp_name_clash say so for a type defined in this translation unit)
                import pydsdl
                here = [type_of_header[h] for h in inc_set if h in type_of_header]
                parts_ = [p for t in here for p in ([t.request_type, t.response_type] if isinstance(t, pydsdl.ServiceType) else [t])]
                if c.target == "c" and re.search(r"redefined", first) and any(c_name_clash(p) for p in parts_):
                    cause = "c-constant-named-like-generated-macro"
                elif c.target == "cpp" and any(cpp_name_clash(p) for p in parts_) and re.search(r"\berror\b", first):
                    cause = "cpp-attribute-named-like-generated-member"
            if c.target == "cpp" and cause.startswith("cpp:") and re.search(
                    r"no member named .* in namespace|in namespace .* does not name a type", first) and ns_shadow_in_tu(
                        [type_of_header[h] for h in inc_set if h in type_of_header]):
                # references are emitted as a::b::T without a leading `::`: a nested namespace named like the first component of a
                # referenced name (declared in an enclosing namespace of the referring type) captures the lookup
                cause = "cpp-nested-namespace-shadows-outer-namespace"
            if c.target == "cpp" and cause.startswith("cpp:"):
                # a DSDL name that the C++ configuration leaves alone although it is a macro of an included C library header
                if id(u) not in ident_cache:
                    ident_cache[id(u)] = dsdl_identifiers(u)
                hit = sorted(ident_cache[id(u)] & defined_macros(job))
                if hit:
                    cause = "cpp-unstropped-c-macro-name"
                    detail = f"DSDL names that are macros here: {hit[:6]}\n" + detail
            first_rel = first.replace(str(outdir) + "/", "")
            ctx.fail({"kind": "diagnostic", "cause": cause},
                     f"{header} ({c.ident}) alone in a translation unit: {cmd[0]} {cmd[1]}: {first_rel}",
                     replay_blob(u, c, {"header": header, "compiler": cmd, "xlang": xlang, "first_diagnostic": first_rel, "detail": detail.replace(str(outdir) + "/", "")}))
    ctx.extra["diagnostics"] = ndiag

    phase("compile")
    run_histories(ctx, flags)
    phase("histories")
    # ---- oracle: Python ---------------------------------------------------------------------------------------------------
    def py_one(r):
        u, c, out = r
        return r, python_import(out, np_dir)
    nmods = 0
    with cf.ThreadPoolExecutor(max_workers=8) as ex:
        for (u, c, out), res in ex.map(py_one, py_runs):
            nmods += len(list(out.rglob("*.py")))
            for rel, msg in sorted(res.items()):
                if rel == "__stray__":
                    ctx.count("py_top_level_init_py_of_an_empty_root_namespace(not imported)")
                    continue
                cause = re.sub(r"\b\w+_#_#\.py", "F.py", re.sub(r"\d+", "#", re.sub(r"'[^']*'", "N", msg)))[:70]
                if "nunavut_support" in msg and c.omit:
                    cause = "support-module-not-generated"
                ctx.fail({"kind": "python-import", "cause": cause}, f"{rel} ({c.ident}): {msg}", replay_blob(u, c, {"module": rel, "message": msg}))
    ctx.extra["python_modules_imported"] = nmods
    # each module in a fresh interpreter (a sample in the quick tier)
    singles = []
    for u, c, out in py_runs:
        mods = sorted(p.relative_to(out).as_posix() for p in out.rglob("*.py"))
        if quick:
            mods = ctx.rng.sample(mods, min(4, len(mods)))
        singles += [((u, c, out), m) for m in mods]

    def py_single(x):
        (u, c, out), m = x
        return x, python_import(out, np_dir, only=[m])
    with cf.ThreadPoolExecutor(max_workers=16) as ex:
        for ((u, c, out), m), res in ex.map(py_single, singles):
            ctx.count("python_fresh_interpreter_imports")
            for rel, msg in res.items():
                if rel == "__stray__":
                    continue
                cause = re.sub(r"\b\w+_#_#\.py", "F.py", re.sub(r"\d+", "#", re.sub(r"'[^']*'", "N", msg)))[:70]
                if "nunavut_support" in msg and c.omit:
                    cause = "support-module-not-generated"
                ctx.fail({"kind": "python-import", "cause": cause}, f"{rel} ({c.ident}), fresh interpreter: {msg}", replay_blob(u, c, {"module": rel, "message": msg}))
    phase("python")
    if os.environ.get("C06_DEBUG"):
        seen = set()
        for d in ctx.disagreements:
            k = (d["stream"], d["input"].get("config") if isinstance(d["input"], dict) else None)
            if k in seen:
                continue
            seen.add(k)
            inp = {a: b for a, b in d["input"].items() if a != "dsdl"} if isinstance(d["input"], dict) else d["input"]
            print("DISAGREE", d["stream"], json.dumps(inp)[:300], "\n   model:", json.dumps(d["model"])[:600], "\n   impl: ", json.dumps(d["impl"])[:600], file=sys.stderr)
    if runs:
        u, c, out = runs[0]
        ctx.sample({"universe": u.name, "config": c.ident, "files": sorted(p.relative_to(out).as_posix() for p in out.rglob("*") if p.is_file())[:8]})
    for (kind, u, c, t, rel, real), a in list(zip(meta, ans if (drv is not None and reqs) else []))[:400:97]:
        ctx.sample({"kind": kind, "config": c.ident, "type": str(t), "model": a[:200], "impl": (sorted(real) if isinstance(real, set) else real)[:12] if not isinstance(real, str) else "(header text)"})


_C_LANG = None


def c_lang_for_macrofy():
    global _C_LANG
    if _C_LANG is None:
        from nunavut.lang import LanguageContextBuilder
        _C_LANG = LanguageContextBuilder().set_target_language("c").create().get_target_language()
    return _C_LANG


def lang_path(lang, t):
    from nunavut.lang._common import IncludeGenerator
    return IncludeGenerator.make_path(t, lang, lang.extension).as_posix()


# ---------------------------------------------------------------------------------------------------------------------
# replay
# ---------------------------------------------------------------------------------------------------------------------


def replay(ctx, path):
    r = json.loads(open(path).read())
    rp = r.get("replay", {})
    if "history" in rp:
        # the two-run history again
        import types
        fake = types.SimpleNamespace(quick=False, scratch=ctx.scratch, case=lambda *a, **k: None, count=lambda *a, **k: None, fails=[])
        fake.fail = lambda key, what, replay: fake.fails.append((key, what)) if replay.get("history") == rp["history"] else None
        run_histories(fake, read_flag_sets())
        print(json.dumps({"history": rp["history"], "failures": [w for _, w in fake.fails][:3]}))
        ctx.cleanup()
        return 1 if fake.fails else 0
    if "dsdl" not in rp:
        print("nothing to replay (no failing input in the file)")
        return 1
    base = ctx.scratch / "replay"
    roots = []
    for i, root in enumerate(rp["roots"]):
        d = base / f"r{i}" / root["name"]
        roots.append(d)
    for k, txt in rp["dsdl"].items():
        i, rest = k.split("/", 1)
        f = base / f"r{i}" / rest
        f.parent.mkdir(parents=True, exist_ok=True)
        f.write_text(txt)
    name_to_dir = {d.name: d for d in roots}
    uni = Universe(rp["universe"], [{"dir": d, "lookup": [name_to_dir[l] for l in root["lookup"]]} for d, root in zip(roots, rp["roots"])], "replay")
    cfg = Cfg(rp["config"], rp["target"], rp["args"], std=rp["std"], omit=rp["omit"], overrides=rp["overrides"])
    out = ctx.scratch / "replay_out"
    out.mkdir()
    ydir = ctx.scratch / "yaml"
    ydir.mkdir(exist_ok=True)
    err = generate(uni, cfg, out, ydir)
    if err:
        print(json.dumps({"generation_error": err}))
        return 1
    if "compiler" in rp:
        job, first, detail = run_compile((out, rp["header"], rp["compiler"], rp["xlang"], tuple(rp.get("args") or ())))
        print(json.dumps({"header": rp["header"], "compiler": rp["compiler"][:2], "first_diagnostic": first and first.replace(str(out) + "/", "")}))
        rc = 1 if first else 0
        if first and cfg.target == "cpp" and uni.read():
            # the same routing as in run(): is the reproduced diagnostic the namespace-shadowing class, and is that a known finding?
            lang = cfg.language()
            toh = {lang_path(lang, t): t for ts in uni.types.values() for t in ts}
            seen, todo = set(), [rp["header"]]
            while todo:
                h = todo.pop()
                if h in seen or not (out / h).exists():
                    continue
                seen.add(h)
                todo += [i[1:-1] for i in _INCLUDE.findall((out / h).read_text()) if i.startswith('"')]
            cause = classify(cfg, rp["compiler"], first, False)
            if re.search(r"no member named .* in namespace|in namespace .* does not name a type", first) and ns_shadow_in_tu(
                    [toh[h] for h in sorted(seen) if h in toh]):
                cause = "cpp-nested-namespace-shadows-outer-namespace"
            print(json.dumps({"key": {"kind": "diagnostic", "cause": cause}}))
            try:
                known = json.loads((common.VERIF / "known_findings.json").read_text())
                known = known.get("findings", known) if isinstance(known, dict) else known
                for e in known:
                    if e.get("property") == "C06" and e.get("match") == {"kind": "diagnostic", "cause": cause}:
                        print(f"KNOWN-FINDING: property=C06 {e['id']}: {e['what']}")
                        rc = 0
            except (OSError, ValueError):
                pass
        ctx.cleanup()
        return rc
    if "module" in rp:
        res = python_import(out, ensure_numpy(ctx), only=[rp["module"]])
        print(json.dumps(res))
        ctx.cleanup()
        return 1 if res else 0
    if "colliding_types" in rp:
        import pydsdl
        from nunavut.lang.c import filter_full_reference_name as c_ref
        uni.read()
        lang = cfg.language()
        names = {str(t): c_ref(lang, t) for ts in uni.types.values() for t in ts if str(t) in rp["colliding_types"]}
        print(json.dumps({"c_reference_names": names}))
        ctx.cleanup()
        return 1 if len(set(names.values())) < len(names) else 0
    if "guard" in rp:
        gs = [re.search(r"^#ifndef (\w+)", (out / h).read_text(), re.M).group(1) for h in rp["headers"]]
        print(json.dumps({"headers": rp["headers"], "guards": gs}))
        ctx.cleanup()
        return 1 if len(set(gs)) < len(gs) else 0
    if "include" in rp:
        ok = (out / rp["include"]).exists()
        print(json.dumps({"include": rp["include"], "generated": ok}))
        ctx.cleanup()
        return 0 if ok else 1
    print("generated without error; nothing else to replay")
    ctx.cleanup()
    return 0
