"""
C13 — configuration sources are merged with a fixed, order-insensitive precedence.

Proof: lean/NunavutVerif/Properties/C13.lean (value model `Model/Config.lean`, object/heap model
`Model/ConfigHeap.lean`, C++ shorthand groups regenerated from properties.yaml by translate/cppdefaults.py).

Tie (model vs real code, `config` driver):
  * `deep_update` on corpus + exhaustive small domain + random nested dicts, sequences of 1-5 merges: merged
    value (key order included), every source afterwards, and which of the initial dict objects are reachable from
    the result (`is`-sharing) against the heap model;
  * `LanguageConfig.update` sequences; `LanguageContextBuilder` with real YAML files in scratch, random
    interleavings of add_config_files / set_target_language_configuration_override, C and C++ targets (the C++
    `std` shorthand groups), the CLI's `_create_language_context` (DefaultValue wrapping) in-process and a few real
    `nnvg --list-configuration` runs; sequences of 2-3 builders in one process;
  * `_validate_language_options` of the C++ language class on random option sets;
  * round 2 (harness/c13_ctx.py, model `Model/ConfigCtx.lean`, theorems `Properties/C13Ctx.lean`): process histories
    (2-4 builders in one process, override-file PATHS reused with changed content, every context read through every
    access path - ctx.config, get_target_language(), get_language(x) for target and non-target x,
    get_supported_languages(), the ln.<lang> / options globals of a real template environment - before and after the
    lazily built language map exists; a few builders re-run in a fresh process); the C++ shorthand by file / API /
    command line / for a non-target language; YAML documents as text (null / non-mapping documents and sections, repeated
    keys, anchors and aliases) with the object-level model.
Failing-input search: the sub-properties as independent predicates on the real functions (sources unmodified,
precedence by an independent `pick`, deep union, key-order insensitivity, default never displaces explicit,
interleaving independence, an earlier context is not changed by later builders).
"""
import contextlib
import copy
import importlib.util
import io
import itertools
import json
import os
import re
import subprocess
import sys

from . import common

_spec = importlib.util.spec_from_file_location("verif_translate_cppdefaults", str(common.VERIF / "translate" / "cppdefaults.py"))
cppdefaults = importlib.util.module_from_spec(_spec)
_spec.loader.exec_module(cppdefaults)
_spec2 = importlib.util.spec_from_file_location("verif_translate_clioptions", str(common.VERIF / "translate" / "clioptions.py"))
clioptions = importlib.util.module_from_spec(_spec2)
_spec2.loader.exec_module(clioptions)
_spec3 = importlib.util.spec_from_file_location("verif_translate_langtable", str(common.VERIF / "translate" / "langtable.py"))
langtable = importlib.util.module_from_spec(_spec3)
_spec3.loader.exec_module(langtable)

_RAW = re.compile(r"[A-Za-z0-9_.:+-]+")


def DV():
    from nunavut._utilities import DefaultValue
    return DefaultValue


# ------------------------------------------------------------------------------------------------------
# wire format
# ------------------------------------------------------------------------------------------------------
def enc_atom(s: str) -> str:
    return s if _RAW.fullmatch(s) else "%" + s.encode("utf-8").hex()


def atom_any(x) -> str:
    """scalar -> typed atom; a non-scalar *list element* is an opaque atom (lists are leaves of the merge)"""
    try:
        return cppdefaults.atom(x)
    except cppdefaults.CannotTranslate:
        return "j:" + json.dumps(x, sort_keys=False, default=repr)


class Cyclic(Exception):
    pass


def wire(v, _stack=None) -> str:
    if isinstance(v, DV()):
        return "D" + enc_atom(atom_any(v.value))
    if isinstance(v, dict):
        st = _stack if _stack is not None else set()
        if id(v) in st:
            raise Cyclic()
        st.add(id(v))
        out = "{" + ";".join(enc_atom(str(k)) + "=" + wire(x, st) for k, x in v.items()) + "}"
        st.discard(id(v))
        return out
    if isinstance(v, (list, tuple)):
        return "[" + ",".join(enc_atom(atom_any(x)) for x in v) + "]"
    return "S" + enc_atom(atom_any(v))


def heap_of(roots):
    """Number every dict object reachable from the roots (pre-order) and encode the heap."""
    idmap, objs = {}, []

    def visit(d):
        if id(d) in idmap:
            return
        idmap[id(d)] = len(objs)
        objs.append(d)
        for x in d.values():
            if isinstance(x, dict):
                visit(x)

    for r in roots:
        if isinstance(r, dict):
            visit(r)

    def entry(x):
        return "@%d" % idmap[id(x)] if isinstance(x, dict) else wire(x)

    enc = "|".join("{" + ";".join(enc_atom(k) + "=" + entry(x) for k, x in d.items()) + "}" for d in objs) or "-"
    return enc, idmap, objs


def reach_initial(v, idmap):
    seen, out = set(), set()

    def visit(d):
        if id(d) in seen:
            return
        seen.add(id(d))
        if id(d) in idmap:
            out.add(idmap[id(d)])
        for x in d.values():
            if isinstance(x, dict):
                visit(x)

    if isinstance(v, dict):
        visit(v)
    return sorted(out)


def dict_ids(v, acc=None):
    acc = set() if acc is None else acc
    if isinstance(v, dict) and id(v) not in acc:
        acc.add(id(v))
        for x in v.values():
            dict_ids(x, acc)
    return acc


# ------------------------------------------------------------------------------------------------------
# independent statement of the sub-properties (never calls the model, never calls deep_update)
# ------------------------------------------------------------------------------------------------------
_ABSENT = ("absent",)


def at(v, path):
    for k in path:
        if not isinstance(v, dict) or k not in v:
            return _ABSENT
        v = v[k]
    return v


def is_default(v):
    return isinstance(v, DV())


def is_leaf(v):
    return v is not _ABSENT and not isinstance(v, dict)


def same(a, b):
    """equality that sees the DefaultValue marking and ignores key order"""
    if a is _ABSENT or b is _ABSENT:
        return a is b
    if is_default(a) != is_default(b):
        return False
    if is_default(a):
        return same(a.value, b.value)
    if isinstance(a, dict) or isinstance(b, dict):
        return isinstance(a, dict) and isinstance(b, dict) and a.keys() == b.keys() and all(same(a[k], b[k]) for k in a)
    return type(a) is type(b) and a == b


def all_paths(v, prefix=()):
    if isinstance(v, dict):
        for k, x in v.items():
            yield prefix + (k,)
            yield from all_paths(x, prefix + (k,))


def compat(src, path):
    """source does not mention the path, or has a leaf exactly there; prefixes it mentions are mappings"""
    v = src
    for i, k in enumerate(path):
        if not isinstance(v, dict):
            return False
        if k not in v:
            return True
        v = v[k]
    return not isinstance(v, dict)


def unmentioned(src, path):
    v = src
    for k in path:
        if not isinstance(v, dict):
            return False
        if k not in v:
            return True
        v = v[k]
    return False


def pick(values):
    """the precedence rule: last explicit leaf, else last default-marked leaf"""
    present = [v for v in values if v is not _ABSENT]
    for v in reversed(present):
        if not is_default(v):
            return v
    for v in reversed(present):
        return v
    return _ABSENT


def shuffled(v, rng):
    if isinstance(v, dict):
        items = [(k, shuffled(x, rng)) for k, x in v.items()]
        rng.shuffle(items)
        return dict(items)
    return v


def frozen(v):
    """deep snapshot (sources are compared against it afterwards)"""
    return wire(v)


# ------------------------------------------------------------------------------------------------------
# generators
# ------------------------------------------------------------------------------------------------------
KEYS = ["a", "b", "c"]
SCALARS = [0, 1, "x", "", None, True, False, "y z"]


def gen_leaf(rng):
    r = rng.random()
    if r < 0.5:
        return rng.choice(SCALARS)
    if r < 0.8:
        return DV()(rng.choice(SCALARS))
    return [rng.choice(SCALARS) for _ in range(rng.randint(0, 2))]


def gen_dict(rng, depth, embed=None, nkeys=None):
    """random tree; `embed` = [obj]: an existing dict object put somewhere inside (at most once)"""
    n = rng.randint(0, 3) if nkeys is None else nkeys
    keys = rng.sample(KEYS, n)
    d = {}
    slot = rng.randrange(n) if (embed and n) else -1
    for i, k in enumerate(keys):
        if i == slot and embed:
            if depth > 1 and rng.random() < 0.5:
                d[k] = gen_dict(rng, depth - 1, embed, nkeys=rng.randint(1, 2))
            else:
                d[k] = embed.pop()
        elif depth > 1 and rng.random() < 0.55:
            d[k] = gen_dict(rng, depth - 1)
        else:
            d[k] = gen_leaf(rng)
    return d


def gen_merge_case(rng):
    """(kind, target, sources): kind tree | dag (sources share objects / repeat) | alias (target shares with sources)"""
    r = rng.random()
    kind = "tree" if r < 0.6 else ("dag" if r < 0.85 else "alias")
    n = rng.choice([1, 2, 2, 3, 3, 4, 5])
    pool = [gen_dict(rng, rng.randint(1, 3)) for _ in range(2)] if kind != "tree" else []
    target = gen_dict(rng, rng.randint(1, 4), embed=[rng.choice(pool)] if kind == "alias" else None)
    if rng.random() < 0.04:
        target = gen_leaf(rng)
    sources = []
    for _ in range(n):
        if kind != "tree" and sources and rng.random() < 0.25:
            sources.append(rng.choice(sources))
        elif kind != "tree" and rng.random() < 0.6:
            sources.append(gen_dict(rng, rng.randint(1, 4), embed=[rng.choice(pool)]))
        elif kind != "tree" and rng.random() < 0.15:
            sources.append(rng.choice(pool))
        else:
            sources.append(gen_dict(rng, rng.randint(1, 4)))
    if kind == "tree" and rng.random() < 0.03:
        sources[rng.randrange(n)] = gen_leaf(rng)
    return kind, target, sources


# ------------------------------------------------------------------------------------------------------
# deep_update: run, compare, search
# ------------------------------------------------------------------------------------------------------
def exc_kind(e):
    if isinstance(e, AttributeError):
        return "err:notMapping"
    if isinstance(e, RecursionError):
        return "err:recursion"
    if isinstance(e, RuntimeError) and "changed size" in str(e):
        return "err:changedSize"
    return "err:" + type(e).__name__


class MergeRun:
    """One sequence of real deep_update calls, with everything the comparisons and predicates need."""

    def __init__(self, kind, target, sources):
        from nunavut._utilities import deep_update
        self.kind, self.sources = kind, sources
        self.t_wire = wire(target)
        self.s_wire = [wire(s) for s in sources]
        self.all_dict_sources = all(isinstance(s, dict) for s in sources)
        self.heap, self.idmap, self._keep = heap_of([target] + list(sources))
        self.t_entry = "@%d" % self.idmap[id(target)] if isinstance(target, dict) else wire(target)
        self.s_addrs = [self.idmap[id(s)] for s in sources] if self.all_dict_sources else None
        self.pre_shared = bool(dict_ids(target) & set().union(*[dict_ids(s) for s in sources])) if sources else False
        # independent copies for the predicates
        self.t_copy = copy.deepcopy(target)
        self.s_copies = [copy.deepcopy(s) for s in sources]
        self.before = []           # target value (deep copy) before each merge
        self.mutated = None        # (merge index, source index) of the first source seen modified
        self.error = None
        t = target
        for i, s in enumerate(sources):
            self.before.append(copy.deepcopy(t))
            try:
                t = deep_update(t, s)
            except Exception as e:  # noqa
                self.error = exc_kind(e)
                break
            if self.mutated is None:
                for j, s2 in enumerate(sources):
                    try:
                        changed = frozen(s2) != self.s_wire[j]
                    except Cyclic:
                        changed = True
                    if changed:
                        self.mutated = (i, j)
                        break
        self.result = t
        self.cyclic = False
        try:
            wire(t)
            for s2 in sources:
                wire(s2)
        except Cyclic:
            self.cyclic = True

    def impl_value_answer(self):
        if self.cyclic:
            return "cyclic"
        return self.error or ("ok " + wire(self.result))

    def impl_heap_answer(self):
        if self.error:
            return self.error
        if self.cyclic:
            return "cyclic"
        shared = ",".join(map(str, reach_initial(self.result, self.idmap))) or "-"
        return "ok %s %s %s" % (wire(self.result), shared, "|".join(wire(s) for s in self.sources) or "-")

    def value_line(self):
        return "merge " + " ".join([self.t_wire] + self.s_wire)

    def heap_line(self, fix):
        return "hmerge %d %s %s %s" % (fix, self.heap, self.t_entry, ",".join(map(str, self.s_addrs)) or "-")

    def describe(self):
        return {"kind": self.kind, "target": self.t_wire, "sources": self.s_wire, "heap": self.heap,
                "target_entry": self.t_entry, "source_addrs": self.s_addrs}


def search_merge(ctx, run: MergeRun, rng):
    """The sub-properties on the real deep_update (independent oracles)."""
    from nunavut._utilities import deep_update
    if run.error or not run.all_dict_sources:
        return
    if run.cyclic:
        ctx.count("cyclic_result")
    desc = run.describe()
    # P1 source documents unmodified (by their own merge or by a later one)
    if run.mutated is not None and not run.pre_shared:
        i, j = run.mutated
        ctx.fail({"kind": "source-mutated", "when": "own-merge" if i == j else "later-merge"},
                 "deep_update modified a source document",
                 dict(desc, merge_index=i, source_index=j, source_before=run.s_wire[j],
                      source_after="cyclic" if run.cyclic else wire(run.sources[j])))
    if run.kind == "alias" or not isinstance(run.t_copy, dict) or run.cyclic:
        return
    srcs = run.s_copies
    # replay on private copies: the merged value must not depend on sharing
    t = copy.deepcopy(run.t_copy)
    steps = [copy.deepcopy(t)]
    for s in srcs:
        t = deep_update(t, copy.deepcopy(s))
        steps.append(copy.deepcopy(t))
    final = steps[-1]
    if wire(final) != wire(run.result) and run.mutated is None:
        ctx.fail({"kind": "sharing-dependent-result"}, "merging shared source objects gives another value than merging equal copies",
                 dict(desc, with_copies=wire(final), with_sharing=wire(run.result)))
    # P2 precedence at every shape-compatible path
    chain = [run.t_copy] + srcs
    paths = set()
    for v in chain:
        paths.update(all_paths(v))
    for p in sorted(paths):
        if all(compat(v, p) for v in chain):
            want = pick([at(v, p) for v in chain])
            got = at(final, p)
            ctx.count("precedence_paths")
            if not same(want, got):
                ctx.fail({"kind": "precedence"}, "effective value is not last-explicit-else-last-default",
                         dict(desc, path=list(p), expected=wire(want) if want is not _ABSENT else None,
                              observed=wire(got) if got is not _ABSENT else None))
    # P3 deep union + P4 default never displaces, per merge step
    for i, s in enumerate(srcs):
        pre, post = steps[i], steps[i + 1]
        for p in set(all_paths(pre)) | set(all_paths(s)):
            if unmentioned(s, p):
                ctx.count("deep_union_paths")
                if not same(at(pre, p), at(post, p)):
                    ctx.fail({"kind": "deep-union"}, "a path the source does not mention changed",
                             dict(desc, merge_index=i, path=list(p)))
            sv, tv = at(s, p), at(pre, p)
            if is_default(sv) and tv is not _ABSENT and not is_default(tv):
                ctx.count("default_vs_explicit_paths")
                if not same(tv, at(post, p)):
                    ctx.fail({"kind": "default-displaced-explicit"}, "a default-marked value displaced a non-default one",
                             dict(desc, merge_index=i, path=list(p)))
    # P5 key order of the sources is not observable
    t2 = shuffled(copy.deepcopy(run.t_copy), rng)
    for s in srcs:
        t2 = deep_update(t2, shuffled(copy.deepcopy(s), rng))
    if not same(final, t2):
        ctx.fail({"kind": "key-order"}, "permuting keys inside the sources changed a lookup",
                 dict(desc, expected=wire(final), observed=wire(t2)))


def corpus_merge_cases():
    out = []
    d = common.VERIF / "corpus" / "C13"
    if d.exists():
        for f in sorted(d.glob("merge_*.json")):
            for c in json.loads(f.read_text()):
                out.append(("tree", from_json(c["target"]), [from_json(s) for s in c["sources"]]))
    return out


def from_json(j):
    """{"$d": x} = DefaultValue(x)"""
    if isinstance(j, dict):
        if set(j.keys()) == {"$d"}:
            return DV()(j["$d"])
        return {k: from_json(v) for k, v in j.items()}
    return j


def small_universe(leaves):
    """all dicts over keys a,b of depth <= 2 with the given leaves"""
    d1 = []
    for va, vb in itertools.product([_ABSENT] + leaves, repeat=2):
        d1.append({k: v for k, v in (("a", va), ("b", vb)) if v is not _ABSENT})
    d2 = []
    opts = [_ABSENT] + leaves + d1
    for va, vb in itertools.product(range(len(opts)), repeat=2):
        d2.append((va, vb))

    def build(i):
        va, vb = d2[i]
        return {k: copy.deepcopy(opts[j]) for k, j in (("a", va), ("b", vb)) if opts[j] is not _ABSENT}

    return len(d2), build


def stream_merge(ctx, drv, rng):
    runs = []
    ncorpus = 0
    for kind, t, ss in corpus_merge_cases():
        runs.append(MergeRun(kind, t, ss))
        ncorpus += 1
    # exhaustive small domain: every (target, source) pair
    leaves = [1, DV()(2)] if ctx.quick else [1, DV()(2), [3]]
    n, build = small_universe(leaves)
    for i in range(n):
        for j in range(n):
            runs.append(MergeRun("tree", build(i), [build(j)]))
    nexh = len(runs) - ncorpus
    # the same universe, sampled triples (sequences of two merges, second key order reversed)
    ntrip = 3000 if ctx.quick else 40000
    for _ in range(ntrip):
        a, b, c = build(rng.randrange(n)), build(rng.randrange(n)), build(rng.randrange(n))
        c = dict(reversed(list(c.items())))
        runs.append(MergeRun("tree", a, [b, c]))
    nrand = 4000 if ctx.quick else 60000
    for _ in range(nrand):
        runs.append(MergeRun(*gen_merge_case(rng)))
    ctx.extra["merge_domain"] = {"corpus": ncorpus, "exhaustive_pairs": nexh, "exhaustive_universe": n,
                                 "sampled_triples": ntrip, "random_sequences": nrand}
    # model answers
    vruns = [r for r in runs if r.kind != "alias"]
    hruns = [r for r in runs if r.all_dict_sources]
    vans = drv.ask([r.value_line() for r in vruns], timeout=1200) if drv else []
    hans = drv.ask([r.heap_line(1) for r in hruns], timeout=1200) if drv else []
    for r, m in zip(vruns, vans):
        ctx.traces += 1
        got = r.impl_value_answer()
        if m != got:
            ctx.disagree("deep_update/value", r.describe(), m, got)
    old_needed = []
    for r, m in zip(hruns, hans):
        ctx.traces += 1
        got = r.impl_heap_answer()
        if "?" in m:   # the model's unfolding ran out of fuel: a cycle
            m = "cyclic"
        if m != got:
            old_needed.append((r, m, got))
    if old_needed and drv:
        olds = drv.ask([r.heap_line(0) for r, _, _ in old_needed[:200]])
        for (r, m, got), o in zip(old_needed[:200], olds):
            ctx.disagree("deep_update/heap", dict(r.describe(), matches_BeforeFix_model=(o == got)), m, got)
        for r, m, got in old_needed[200:]:
            ctx.disagree("deep_update/heap", r.describe(), m, got)
    # counting + failing-input search
    for idx, r in enumerate(runs):
        nontrivial = isinstance(r.result, dict) and any(isinstance(s, dict) and s for s in r.sources)
        ctx.case((r.t_wire, tuple(r.s_wire), r.heap if r.kind != "tree" else ""), nontrivial)
        ctx.count("merge_kind=" + r.kind)
        ctx.count("merges_in_sequence=%d" % len(r.sources))
        if r.error:
            ctx.count("merge_" + r.error)
        if r.pre_shared:
            ctx.count("target_shares_with_source_before")
        if not r.error and r.all_dict_sources:
            src_ids = set().union(*[dict_ids(s) for s in r.sources])
            if dict_ids(r.result) & src_ids:
                ctx.count("result_shares_dict_with_source")
        # the search is run on everything but the bulk of the exhaustive pairs (those are covered by sampling)
        if idx < ncorpus or idx >= ncorpus + nexh or idx % 7 == 0:
            search_merge(ctx, r, rng)
    for r in runs[ncorpus + nexh + ntrip: ncorpus + nexh + ntrip + 3]:
        ctx.sample({"target": r.t_wire, "sources": r.s_wire, "result": r.impl_value_answer()})


# ------------------------------------------------------------------------------------------------------
# LanguageConfig / LanguageContextBuilder
# ------------------------------------------------------------------------------------------------------
SECTIONS_OK = ["nunavut.lang.c", "nunavut.lang.cpp", "nunavut.lang.py", "nunavut.lang.zz9", "nunavut.lang.a_b"]
SECTIONS_BAD = ["foo", "nunavut.lang.", "nunavut.lang.1x", "nunavut.lang.c.d", "Nunavut.lang.c", "nunavut.lang.c\n"]


def cfg_exc_kind(e):
    if isinstance(e, AttributeError):
        return "err:notMapping"
    if isinstance(e, (ValueError, TypeError)):
        m = str(e)
        if "Section name" in m or "section names" in m:
            return "err:badSection"
        if "'std' option must be" in m:
            return "err:missingStd"
        if "unhashable" in m:
            return "err:unhashable"
        if "No constructor convention" in m:
            return "err:missingCtor"
        if "Invalid ConstructorConvention" in m:
            return "err:badCtor"
        if "allocator_type property must be specified" in m:
            return "err:allocatorRequired"
        if "dictionary update sequence" in m or "not iterable" in m or "cannot convert dictionary update" in m:
            return "err:groupNotMapping"
    return "err:" + type(e).__name__ + ":" + str(e)[:60]


def gen_doc(rng, yaml_only=False):
    """a configuration document: section name -> section data"""
    r = rng.random()
    if r < 0.04:
        return rng.choice([None, [1], "x"])
    doc = {}
    for _ in range(rng.randint(0, 3)):
        name = rng.choice(SECTIONS_OK) if rng.random() < 0.9 else rng.choice(SECTIONS_BAD)
        if rng.random() < 0.05:
            doc[name] = rng.choice([None, 3, [1, 2]])
        else:
            d = gen_dict(rng, rng.randint(1, 3))
            if yaml_only:
                d = strip_defaults(d)
            doc[name] = d
    return doc


def strip_defaults(v):
    if isinstance(v, DV()):
        return v.value
    if isinstance(v, dict):
        return {k: strip_defaults(x) for k, x in v.items()}
    return v


def generic_precedence(ctx, via, chain, final, desc):
    """pick() over the chain at every path all sources are shape-compatible with (null / "" / 0 / false are explicit values)"""
    if not all(isinstance(d, dict) for d in chain):
        return
    paths = set()
    for d in chain:
        paths.update(all_paths(d))
    for p in sorted(paths):
        if len(p) >= 2 and all(compat(v, p) for v in chain):
            want, got = pick([at(v, p) for v in chain]), at(final, p)
            ctx.count("precedence_paths_" + via)
            if not same(want, got):
                ctx.fail({"kind": "precedence", "via": via}, "effective value is not last-explicit-else-last-default (an explicit null / empty / 0 / false is a value)",
                         dict(desc, path=list(p), expected=wire(want) if want is not _ABSENT else None,
                              observed=wire(got) if got is not _ABSENT else None))


def stream_language_config(ctx, drv, rng):
    from nunavut.lang._config import LanguageConfig
    n = 600 if ctx.quick else 8000
    lines, impl, descs = [], [], []
    for _ in range(n):
        docs = [gen_doc(rng) for _ in range(rng.randint(1, 4))]
        cfg = LanguageConfig()
        ans = None
        for d in docs:
            try:
                cfg.update(d)
            except Exception as e:  # noqa
                ans = cfg_exc_kind(e)
                break
        if ans is None:
            ans = "ok " + wire(cfg.sections())
            generic_precedence(ctx, "LanguageConfig", docs, cfg.sections(), {"docs": [wire(d) for d in docs]})
        lines.append("cfg {} " + " ".join(wire(d) for d in docs))
        impl.append(ans)
        descs.append([wire(d) for d in docs])
        ctx.case(("cfg", tuple(descs[-1])), ans.startswith("ok") and len(docs) > 1)
        ctx.count("cfg_" + (ans.split(" ")[0] if ans.startswith("ok") else ans))
    if drv:
        for d, m, g in zip(descs, drv.ask(lines), impl):
            ctx.traces += 1
            if m != g:
                ctx.disagree("LanguageConfig.update", {"docs": d}, m, g)


CPP_STDS = ["c++14", "c++17", "c++20", "c++17-pmr", "cetl++14-17", "nope"]
C_OPTION_KEYS = ["enable_serialization_asserts", "omit_float_serialization_support", "target_endianness", "std",
                 "enable_override_variable_array_capacity", "cast_format", "zz_new"]


def gen_options(rng, cpp, explicit_only=False):
    o = {}
    for k in rng.sample(C_OPTION_KEYS, rng.randint(0, 4)):
        if k == "std":
            v = rng.choice(CPP_STDS if cpp else ["c11", "c99"])
        elif k == "target_endianness":
            v = rng.choice(["any", "big", "little"])
        elif k == "cast_format":
            v = "(({type}) {value})"
        else:
            v = rng.choice([True, False])
        if not explicit_only and rng.random() < 0.4:
            v = DV()(v)
        o[k] = v
    if cpp and rng.random() < 0.5:
        o["allocator_type"] = rng.choice(["", "my::alloc", None])
    if cpp and rng.random() < 0.4:
        o["ctor_convention"] = rng.choice(["default", "uses-leading-allocator", "Uses_Trailing_Allocator", "bogus"])
    return o


FALSY = [None, "", 0, False]


def gen_file_doc(rng, lang_sections, extra=("nunavut.lang.zz9",), falsy=True):
    """a YAML override file (plain YAML values only); explicit nulls, empty strings, 0 and false occur at the top level
    of a section and nested (they are values like any other: `stropping_suffix:` overrides an earlier `_`)"""
    doc = {}
    for _ in range(rng.randint(1, 2)):
        sec = rng.choice(list(lang_sections) + list(extra))
        body = {}
        if rng.random() < 0.8:
            body["options"] = gen_options(rng, sec.endswith("cpp"), explicit_only=True)
            if falsy and rng.random() < 0.4:
                body["options"][rng.choice(["zz_new", "cast_format", "zz_other"])] = rng.choice(FALSY)
        if falsy and rng.random() < 0.5:
            for key in rng.sample(["stropping_suffix", "stropping_prefix", "namespace_file_stem", "new_key", "encoding_prefix"], rng.randint(1, 2)):
                body[key] = rng.choice(FALSY + FALSY + ["_", "x"])
        if falsy and rng.random() < 0.15:
            body["named_values"] = {rng.choice(["true", "mine"]): rng.choice(FALSY + ["T"])}
        if rng.random() < 0.4:
            key = rng.choice(["extension", "namespace_file_stem", "stropping_prefix", "new_key"])
            body[key] = rng.choice([".h", ".hpp", ".hxx"]) if key == "extension" else rng.choice([".h", ".hpp", "x", "_"])
        if rng.random() < 0.2:
            body["named_types"] = {rng.choice(["byte", "mine"]): rng.choice(["uint8_t", "foo"])}
        if sec.endswith("cpp") and rng.random() < 0.25:
            grp = rng.choice(["c++17-pmr", "c++20", "mygroup"])
            body["defaults"] = {grp: {"std": rng.choice(["c++17", "c++20"]), "allocator_type": "file::alloc",
                                      "ctor_convention": rng.choice(["default", "uses-leading-allocator"])}}
        doc[sec] = body
    return doc


_FILE_SEQ = [0]


def scratch_yaml(ctx, rng, doc):
    """Write a YAML document under a random directory / file name: the path order of the files of one run is
    unrelated to the order in which they are handed to the builder."""
    import yaml
    _FILE_SEQ[0] += 1
    d = ctx.scratch / ("d%02x" % rng.randrange(256))
    d.mkdir(exist_ok=True)
    p = d / ("%06x_%d.yaml" % (rng.randrange(16 ** 6), _FILE_SEQ[0]))
    p.write_text(yaml.safe_dump(doc, sort_keys=False, allow_unicode=True), encoding="utf-8")
    return p


def builtin_sections_py():
    from nunavut.lang._language import LanguageClassLoader
    return LanguageClassLoader().config.sections()


def group_keys(*defaults_maps):
    keys = set()
    for d in defaults_maps:
        if isinstance(d, dict):
            for g in d.values():
                if isinstance(g, dict):
                    keys.update(g.keys())
    return keys


def precedence_oracle(ctx, via, builtin, files, sec, overrides, final, lang, desc):
    """Independent statement of the precedence on the real builder / CLI: at every path the files mention and at
    which all sources are shape-compatible, the effective value is `pick` over
    [built-in, files in CALL order, overrides] (last explicit, else last default-marked).  Options that a language
    class rewrites afterwards (C++ shorthand groups, Python's forced asserts) are left to their own oracles."""
    chain = [builtin] + list(files) + [{sec: overrides}]
    skip = set()
    if lang == "cpp":
        skip = group_keys(builtin.get(sec, {}).get("defaults"), final.get(sec, {}).get("defaults")) | {"std"}
    elif lang == "py":
        skip = {"enable_serialization_asserts"}
    paths = set()
    for f in files:
        paths.update(all_paths(f))
    for p in sorted(paths):
        if len(p) == 3 and p[0] == sec and p[1] == "options" and p[2] in skip:
            continue
        if all(compat(v, p) for v in chain):
            want = pick([at(v, p) for v in chain])
            got = at(final, p)
            ctx.count("file_precedence_paths_" + via)
            if not same(want, got):
                ctx.fail({"kind": "file-precedence", "via": via},
                         "effective value is not the one of the last source in call order (explicit over later file over earlier file over built-in)",
                         dict(desc, path=list(p), files_in_call_order=[wire(f) for f in files],
                              expected=wire(want) if want is not _ABSENT else None,
                              observed=wire(got) if got is not _ABSENT else None))


def type_change_pair(rng, sec, keep_options):
    """two consecutive files: the first replaces a built-in MAP by a non-map (null / scalar), the second gives a map for
    the same key — merged one after the other the built-in entries are gone (deep union is not associative here)"""
    k = rng.choice(["named_types", "named_values"] + ([] if keep_options else ["options"]))
    return [{sec: {k: rng.choice([None, "", 0, "x"])}}, {sec: {k: {rng.choice(["zz_a", "byte", "std"]): rng.choice(["v", "c11", None])}}}]


class BuilderRun:
    """One real LanguageContextBuilder driven by a random call sequence (and the same calls for the model)."""

    def __init__(self, ctx, rng, builtin_wire, shared_override=None, lang=None):
        import yaml
        from nunavut.lang import LanguageContextBuilder
        self.lang = lang or rng.choice(["c", "c", "cpp", "cpp", "py"])
        cpp = self.lang == "cpp"
        sec = "nunavut.lang." + self.lang
        self.section = sec
        calls = []
        for _ in range(rng.randint(0, 3)):
            calls.append(("file", gen_file_doc(rng, [sec, sec, "nunavut.lang.c"])))
        if rng.random() < 0.3:
            for d in type_change_pair(rng, sec, cpp or self.lang == "py"):
                calls.append(("file", d))
        for _ in range(rng.randint(0, 3)):
            r = rng.random()
            if r < 0.6:
                calls.append(("ovr", "options", shared_override if (shared_override is not None and rng.random() < 0.5)
                              else gen_options(rng, cpp)))
            elif r < 0.8:
                calls.append(("ovr", rng.choice(["extension", "namespace_file_stem", "new_key"]),
                              rng.choice([".h", ".hh", None, DV()("dv")])))
            else:
                calls.append(("ovr", "named_types", {"byte": rng.choice(["u8", DV()("d8")])}))
        files = [c for c in calls if c[0] == "file"]
        others = [c for c in calls if c[0] != "file"]
        rng.shuffle(calls)
        # keep the relative order inside each kind as generated (interleaving is what varies)
        fi, oi, seq = iter(files), iter(others), []
        for c in calls:
            seq.append(next(fi) if c[0] == "file" else next(oi))
        self.seq = seq
        self.files, self.others = files, others
        self.ops = ["L" + enc_atom(sec)]
        b = LanguageContextBuilder(include_experimental_languages=True)
        b.set_target_language(self.lang)
        self.error = None
        self.ctx_obj = None
        self.paths = []
        try:
            i = 0
            while i < len(seq):
                c = seq[i]
                if c[0] == "file":
                    # consecutive files go into ONE add_config_files call (as the CLI does) half of the time
                    j = i + 1
                    while j < len(seq) and seq[j][0] == "file" and rng.random() < 0.6:
                        j += 1
                    batch = []
                    for c2 in seq[i:j]:
                        batch.append(scratch_yaml(ctx, rng, c2[1]))
                        self.ops.append("F" + wire(c2[1]))
                    self.paths.append([str(x.relative_to(ctx.scratch)) for x in batch])
                    b.add_config_files(*batch)
                    i = j
                else:
                    self.ops.append("O" + enc_atom(c[1]) + "=" + ("!" if c[2] is None else wire(c[2])))
                    b.set_target_language_configuration_override(c[1], c[2])
                    i += 1
            self.ops.append("X" if cpp else ("P" if self.lang == "py" else "C"))
            self.ctx_obj = b.create()
        except Exception as e:  # noqa
            self.error = cfg_exc_kind(e)
        self.builder = b
        self.line = "build " + builtin_wire + " " + " ".join(self.ops)

    def impl_answer(self):
        if self.error:
            return "ok " + self.error
        return "ok " + wire(self.ctx_obj.config.sections())

    def reported(self):
        """what the context reports: every section, the target language's options and a few config values"""
        lang = self.ctx_obj.get_target_language()
        vals = {k: lang.get_config_value(k, "<unset>") for k in ("extension", "namespace_file_stem", "new_key")}
        return wire(self.ctx_obj.config.sections()), wire(dict(lang.get_options())), json.dumps(vals, sort_keys=True)


class MultiCreateRun:
    """ONE builder, several create() calls with files / overrides added in between; every context is compared."""

    def __init__(self, ctx, rng, builtin_wire, builtin_py):
        from nunavut.lang import LanguageContextBuilder
        self.lang = rng.choice(["c", "c", "cpp"])
        cpp = self.lang == "cpp"
        sec = self.section = "nunavut.lang." + self.lang
        b = LanguageContextBuilder(include_experimental_languages=True)
        b.set_target_language(self.lang)
        self.ops = ["L" + enc_atom(sec)]
        self.snapshots, self.error = [], None
        files, ovr = [], {}
        hot = rng.choice(["target_endianness", "enable_serialization_asserts", "zz_new"])
        hotvals = {"target_endianness": ["big", "little", "any"], "enable_serialization_asserts": [True, False], "zz_new": [1, 2, None]}[hot]
        try:
            for seg in range(rng.choice([2, 2, 3])):
                calls = []
                for _ in range(rng.randint(0, 2)):
                    calls.append(("file", gen_file_doc(rng, [sec], extra=())))
                if seg >= 1 and rng.random() < 0.7:
                    calls.append(("file", {sec: {"options": {hot: rng.choice(hotvals)}}}))
                for _ in range(rng.randint(0, 2)):
                    calls.append(("ovr", "options", gen_options(rng, cpp)))
                if seg == 0 and rng.random() < 0.7:
                    v = rng.choice(hotvals)
                    calls.append(("ovr", "options", {hot: v if rng.random() < 0.8 else DV()(v)}))
                if rng.random() < 0.3:
                    calls.append(("ovr", rng.choice(["namespace_file_stem", "new_key"]), rng.choice(["_o", None, ""])))
                rng.shuffle(calls)
                batch = [c for c in calls if c[0] == "file"]
                for c in calls:
                    if c[0] == "ovr":
                        self.ops.append("O" + enc_atom(c[1]) + "=" + ("!" if c[2] is None else wire(c[2])))
                        b.set_target_language_configuration_override(c[1], c[2])
                        if c[2] is not None:
                            ovr[c[1]] = c[2]
                if batch:
                    paths = [scratch_yaml(ctx, rng, c[1]) for c in batch]
                    for c in batch:
                        self.ops.append("F" + wire(c[1]))
                        files.append(c[1])
                    if rng.random() < 0.5:
                        b.add_config_files(*paths)
                    else:
                        for q in paths:
                            b.add_config_files(q)
                self.ops.append("X" if cpp else "C")
                lctx = b.create()
                secs = lctx.config.sections()
                self.snapshots.append(wire(secs))
                ctx.count("creates_on_reused_builder")
                # chronological chain: files so far, interleaved with the overrides as merged at each earlier create();
                # the overrides pending NOW are merged last (explicit API value over every file added so far)
                precedence_oracle(ctx, "builder-recreate", builtin_py, list(files), sec, dict(ovr), secs, self.lang,
                                  {"ops": list(self.ops), "create_number": seg + 1})
                files.append({sec: copy.deepcopy(ovr)})
        except Exception as e:  # noqa
            self.error = cfg_exc_kind(e)
        self.line = "build " + builtin_wire + " " + " ".join(self.ops)

    def impl_answer(self):
        return " ".join(["ok"] + self.snapshots + ([self.error] if self.error else []))


def stream_multi_create(ctx, drv, rng):
    builtin, builtin_py = builtin_sections_wire(), builtin_sections_py()
    n = 60 if ctx.quick else 700
    runs = [MultiCreateRun(ctx, rng, builtin, builtin_py) for _ in range(n)]
    for r in runs:
        ctx.case(("multi-create", tuple(r.ops)), True)
    if drv:
        for r, m in zip(runs, drv.ask([r.line for r in runs], timeout=1200)):
            ctx.traces += 1
            g = r.impl_answer()
            if m != g:
                mm, gg = m.split(" "), g.split(" ")
                k = next((i for i in range(min(len(mm), len(gg))) if mm[i] != gg[i]), min(len(mm), len(gg)))
                ctx.disagree("LanguageContextBuilder/repeated-create", {"ops": r.ops, "lang": r.lang, "first_differing_create": k},
                             (mm[k] if k < len(mm) else "<none>")[:3000], (gg[k] if k < len(gg) else "<none>")[:3000])


def builtin_sections_wire():
    from nunavut.lang._language import LanguageClassLoader
    return wire(LanguageClassLoader().config.sections())


def stream_builders(ctx, drv, rng):
    builtin = builtin_sections_wire()
    ctx.extra["builtin_config_wire_bytes"] = len(builtin)
    n = 120 if ctx.quick else 1500
    runs = [BuilderRun(ctx, rng, builtin) for _ in range(n)]
    if drv:
        for r, m in zip(runs, drv.ask([r.line for r in runs], timeout=1200)):
            ctx.traces += 1
            g = r.impl_answer()
            ctx.case(("build", r.line[len(builtin) + 6:]), len(r.seq) >= 2)
            ctx.count("builder_lang=" + r.lang)
            ctx.count("builder_" + ("ok" if not r.error else r.error))
            if m != g:
                ctx.disagree("LanguageContextBuilder", {"ops": r.ops, "lang": r.lang}, m[:4000], g[:4000])
    # search: options object reported == configuration; interleaving independence on the real builder
    builtin_py = builtin_sections_py()
    import yaml
    from nunavut.lang import LanguageContextBuilder
    for r in runs:
        if r.error:
            continue
        lang = r.ctx_obj.get_target_language()
        secs = r.ctx_obj.config.sections()
        cfg_opts = secs.get(r.section, {}).get("options", None)
        if isinstance(cfg_opts, dict) and any(not same(lang.get_option(k, _ABSENT), v) for k, v in cfg_opts.items()):
            ctx.fail({"kind": "options-differ-from-configuration"}, "get_option() does not report the options of the merged configuration",
                     {"ops": r.ops})
        # files first, then the other calls: must give the same configuration
        b = LanguageContextBuilder(include_experimental_languages=True)
        try:
            b.add_config_files(*[scratch_yaml(ctx, rng, c[1]) for c in r.files])
            for c in r.others:
                b.set_target_language_configuration_override(c[1], copy.deepcopy(c[2]))
            b.set_target_language(r.lang)
            other = wire(b.create().config.sections())
        except Exception as e:  # noqa
            other = cfg_exc_kind(e)
        ovr = {}
        for c in r.others:
            if c[2] is not None:
                ovr[c[1]] = c[2]
        precedence_oracle(ctx, "builder", builtin_py, [c[1] for c in r.files], r.section, ovr, secs, r.lang,
                          {"ops": r.ops, "file_paths_per_call": r.paths})
        if len(r.files) >= 2:
            b1 = LanguageContextBuilder(include_experimental_languages=True)
            try:
                for c in r.files:
                    b1.add_config_files(scratch_yaml(ctx, rng, c[1]))
                for c in r.others:
                    b1.set_target_language_configuration_override(c[1], copy.deepcopy(c[2]))
                b1.set_target_language(r.lang)
                single = wire(b1.create().config.sections())
            except Exception as e:  # noqa
                single = cfg_exc_kind(e)
            ctx.count("call_groupings_compared")
            if not (single == other == wire(secs)):
                ctx.fail({"kind": "call-grouping-dependence", "via": "builder"},
                         "add_config_files(f1, f2) is not add_config_files(f1); add_config_files(f2)",
                         {"ops": r.ops, "files_in_call_order": [wire(c[1]) for c in r.files], "files_per_call_as_called": r.paths,
                          "one_file_per_call": single[:3000], "all_files_in_one_call": other[:3000], "as_called": wire(secs)[:3000]})
        ctx.count("interleavings_compared")
        if other != wire(secs):
            ctx.fail({"kind": "interleaving-dependence"}, "the configuration at create() depends on how add_config_files and override calls are interleaved",
                     {"ops": r.ops, "files_first": other[:3000], "as_called": wire(secs)[:3000]})
    ctx.sample({"builder_ops": runs[0].ops, "error": runs[0].error})
    # sequences of 2-3 builders in one process
    nseq = 40 if ctx.quick else 500
    for _ in range(nseq):
        k = rng.choice([2, 3])
        shared = gen_options(rng, False) if rng.random() < 0.6 else None
        # a nested, caller-owned override object handed to several builders
        if shared is not None and rng.random() < 0.5:
            shared["zz_nested"] = {"p": {"q": rng.choice([1, 2])}}
        seq, reports = [], []
        for i in range(k):
            r = BuilderRun(ctx, rng, builtin, shared_override=shared, lang=rng.choice(["c", "cpp", "c"]))
            seq.append(r)
            reports.append(None if r.error else r.reported())
        ctx.count("builder_sequences")
        ctx.case(("builders", tuple(tuple(r.ops) for r in seq)), True)
        for i, r in enumerate(seq[:-1]):
            if r.error:
                continue
            now = r.reported()
            if now != reports[i]:
                ctx.fail({"kind": "earlier-context-changed"}, "a context created earlier reports other values after later builders were created",
                         {"builders": [x.ops for x in seq], "index": i, "before": [s[:2000] for s in reports[i]], "after": [s[:2000] for s in now]})
            # the second create() of an untouched builder changes nothing for generic languages (idempotence)
        if drv:
            for r, m in zip(seq, drv.ask([r.line for r in seq])):
                ctx.traces += 1
                if m != r.impl_answer():
                    ctx.disagree("LanguageContextBuilder/sequence", {"ops": r.ops, "lang": r.lang}, m[:4000], r.impl_answer()[:4000])


def stream_cli(ctx, drv, rng):
    """`ArgparseRunner._create_language_context` (DefaultValue wrapping of the store_true flags)"""
    import yaml
    from nunavut.cli import _make_parser
    from nunavut.cli.runners import ArgparseRunner
    builtin = builtin_sections_wire()
    n = 60 if ctx.quick else 600
    nsub = 2 if ctx.quick else 12
    builtin_py = builtin_sections_py()
    lines, impl, descs = [], [], []
    for i in range(n):
        lang = rng.choice(["c", "cpp", None])
        argv = ["--list-configuration", "--experimental-languages"]
        if lang:
            argv += ["--target-language", lang]
        flags = {}
        for f, key in (("--enable-serialization-asserts", "enable_serialization_asserts"),
                       ("--omit-float-serialization-support", "omit_float_serialization_support"),
                       ("--enable-override-variable-array-capacity", "enable_override_variable_array_capacity")):
            flags[key] = rng.random() < 0.4
            if flags[key]:
                argv.append(f)
        endian = rng.choice([None, "big", "little", "any"])
        if endian:
            argv += ["--target-endianness", endian]
        std = rng.choice([None, "c++17-pmr", "cetl++14-17", "c++20", "c++14"]) if lang == "cpp" else rng.choice([None, "c11"])
        if std:
            argv += ["--language-standard", std]
        ext = rng.choice([None, ".hh", "hxx"]) if lang else None   # without a language the extension selects one
        if ext:
            argv += ["--output-extension", ext]
        stem = rng.choice([None, "_ns"])
        if stem:
            argv += ["--namespace-output-stem", stem]
        files = []
        sec = "nunavut.lang." + (lang or "c")
        given = []
        for j in range(rng.choice([0, 1, 2, 2, 3])):
            doc = gen_file_doc(rng, [sec], extra=(), falsy=(i >= nsub))
            given.append((scratch_yaml(ctx, rng, doc), doc))
        if i >= nsub and rng.random() < 0.25:
            for doc in type_change_pair(rng, sec, lang == "cpp"):
                given.append((scratch_yaml(ctx, rng, doc), doc))
        if given:
            cut = rng.randrange(1, len(given)) if (len(given) > 1 and rng.random() < 0.2) else 0
            if cut:   # the flag given twice: argparse keeps the last group only
                argv += ["--configuration"] + [str(p) for p, _ in given[:cut]]
            argv += ["--configuration"] + [str(p) for p, _ in given[cut:]]
        args = _make_parser().parse_args(argv)
        bypath = {str(p): d for p, d in given}
        cfgarg = args.configuration if args.configuration is not None else []
        cfgarg = [cfgarg] if isinstance(cfgarg, __import__("pathlib").Path) else list(cfgarg)
        files = [(p, bypath[str(p)]) for p in cfgarg]
        # model: the calls of _create_language_context, from the parsed arguments
        opts = {}
        if args.target_endianness is not None:
            opts["target_endianness"] = args.target_endianness
        for key in ("omit_float_serialization_support", "enable_serialization_asserts", "enable_override_variable_array_capacity"):
            opts[key] = True if getattr(args, key) else DV()(False)
        if args.language_standard is not None:
            opts["std"] = args.language_standard
        ops = ["L" + enc_atom(sec) if lang else "L!"] + ["F" + wire(d) for _, d in files]
        ops.append("Oextension=" + ("!" if args.output_extension is None else wire(args.output_extension)))
        ops.append("Onamespace_file_stem=" + ("!" if args.namespace_output_stem is None else wire(args.namespace_output_stem)))
        ops.append("Ooptions=" + wire(opts))
        ops.append("X" if lang == "cpp" else "C")
        lines.append("build " + builtin + " " + " ".join(ops))
        try:
            runner = ArgparseRunner.__new__(ArgparseRunner)   # only the anchored method, not the namespace scan
            runner._args = args
            runner._language_context = runner._create_language_context()
            secs = runner._language_context.config.sections()
            ans = "ok " + wire(secs)
            # what was GIVEN on the command line (not what argparse made of absent flags)
            given_opts = {key: (True if flags[key] else DV()(False)) for key in flags}
            if endian:
                given_opts["target_endianness"] = endian
            if std:
                given_opts["std"] = std
            ovr = {"options": given_opts}
            if ext:
                ovr["extension"] = ext if ext.startswith(".") else "." + ext
            if stem:
                ovr["namespace_file_stem"] = stem
            precedence_oracle(ctx, "cli", builtin_py, [d for _, d in files], sec, ovr, secs, lang or "c",
                              {"argv": [a if not a.startswith(str(ctx.scratch)) else a[len(str(ctx.scratch)) + 1:] for a in argv]})
            if len(files) >= 2:
                from nunavut.lang import LanguageContextBuilder
                rb = LanguageContextBuilder(include_experimental_languages=True)
                try:
                    rb.set_target_language(args.target_language)
                    for pth, _ in files:
                        rb.add_config_files(pth)
                    rb.set_target_language_extension(args.output_extension)
                    rb.set_target_language_configuration_override("namespace_file_stem", args.namespace_output_stem)
                    rb.set_target_language_configuration_override("options", copy.deepcopy(opts))
                    ref = wire(rb.create().config.sections())
                except Exception as e:  # noqa
                    ref = cfg_exc_kind(e)
                ctx.count("cli_call_groupings_compared")
                if ref != wire(secs):
                    ctx.fail({"kind": "call-grouping-dependence", "via": "cli"},
                             "--configuration f1 f2 does not give what adding f1, then f2, gives",
                             {"argv": [a if not a.startswith(str(ctx.scratch)) else a[len(str(ctx.scratch)) + 1:] for a in argv],
                              "files_in_order": [wire(d) for _, d in files], "one_file_per_call": ref[:3000], "cli": wire(secs)[:3000]})
            # the file's explicit value must survive a flag that was not given (issue #329)
            fileval = _ABSENT
            for _, d in files:
                v = at(d, (sec, "options", "enable_serialization_asserts"))
                if v is not _ABSENT:
                    fileval = v
            p329 = (sec, "options", "enable_serialization_asserts")
            if not flags["enable_serialization_asserts"] and fileval is not _ABSENT and all(compat(d, p329) for _, d in files):
                got = runner._language_context.get_target_language().get_option("enable_serialization_asserts")
                ctx.count("cli_default_vs_file")
                if not same(got, fileval):
                    ctx.fail({"kind": "cli-default-displaced-file-value"}, "a command-line default displaced a value given in a configuration file",
                             {"argv": argv, "file_value": repr(fileval), "effective": repr(got)})
        except Exception as e:  # noqa
            ans = "ok " + cfg_exc_kind(e)
        impl.append(ans)
        descs.append({"argv": [a if not a.startswith(str(ctx.scratch)) else "<file>" for a in argv], "ops": ops})
        ctx.case(("cli", tuple(ops)), True)
        ctx.count("cli_cases")
        if i < nsub:
            env = dict(os.environ, PYTHONPATH=str(common.REPO / "src"))
            p = subprocess.run([common.PY, "-m", "nunavut"] + argv, capture_output=True, text=True, timeout=120, env=env, cwd=str(ctx.scratch))
            ctx.count("nnvg_subprocess_runs")
            if p.returncode == 0 and ans.startswith("ok {"):
                dumped = yaml.load(p.stdout, Loader=yaml.UnsafeLoader)
                dumped.pop("target_language", None)
                if wire(dumped_sorted_like(dumped, secs)) != wire(secs):
                    ctx.disagree("nnvg --list-configuration", descs[-1], wire(secs)[:3000], wire(dumped)[:3000])
            elif (p.returncode == 0) != ans.startswith("ok {"):
                ctx.disagree("nnvg --list-configuration", descs[-1], ans[:300], "rc=%d %s" % (p.returncode, p.stderr[-300:]))
    if drv:
        for d, m, g in zip(descs, drv.ask(lines, timeout=1200), impl):
            ctx.traces += 1
            if m != g:
                ctx.disagree("cli/_create_language_context", d, m[:4000], g[:4000])


def dumped_sorted_like(dumped, ref):
    """yaml.dump sorts keys; put the parsed dump back into the order of the in-process configuration"""
    if isinstance(dumped, dict) and isinstance(ref, dict):
        out = {}
        for k in ref:
            if k in dumped:
                out[k] = dumped_sorted_like(dumped[k], ref[k])
        for k in dumped:
            if k not in out:
                out[k] = dumped[k]
        return out
    return dumped


def stream_cppstd(ctx, drv, rng):
    from nunavut.lang import LanguageContextBuilder
    lang = LanguageContextBuilder(include_experimental_languages=True).set_target_language("cpp").create().get_target_language()
    from nunavut.lang._language import LanguageClassLoader
    real_defaults = LanguageClassLoader().config.sections()["nunavut.lang.cpp"]["defaults"]
    n = 500 if ctx.quick else 6000
    lines, impl, descs = [], [], []
    for _ in range(n):
        use_gen = rng.random() < 0.6
        if use_gen:
            defaults = copy.deepcopy(real_defaults)
        else:
            defaults = {}
            for g in rng.sample(["c++17-pmr", "g1", "c++20"], rng.randint(0, 2)):
                defaults[g] = rng.choice([3, None]) if rng.random() < 0.1 else {
                    k: (rng.choice(["uses-leading-allocator", "default", "bogus"]) if k == "ctor_convention"
                        else rng.choice(["c++17", "v", "", True, "uses-leading-allocator", "default"]))
                    for k in rng.sample(["std", "allocator_type", "ctor_convention", "q"], rng.randint(0, 4))}
        opts = {}
        r = rng.random()
        if r < 0.85:
            s = rng.choice(["c++17-pmr", "cetl++14-17", "c++20", "g1", "c++14"])
            opts["std"] = DV()(s) if rng.random() < 0.2 else s
        elif r < 0.9:
            opts["std"] = [1]
        for k in rng.sample(["allocator_type", "ctor_convention", "x", "std_flavor"], rng.randint(0, 4)):
            if k == "ctor_convention":
                opts[k] = rng.choice(["default", "DEFAULT", "uses-leading-allocator", "uses_trailing_allocator", "bogus"])
            elif k == "allocator_type":
                opts[k] = rng.choice(["", "a::b", None, DV()("dv::a"), DV()("")])
            else:
                opts[k] = rng.choice([1, "v", DV()(2)])
        if rng.random() < 0.5:
            items = list(opts.items())
            rng.shuffle(items)
            opts = dict(items)
        before = copy.deepcopy(opts)
        lines.append("cppstd %s %s" % ("gen" if use_gen else wire(defaults), wire(opts)))
        try:
            out = lang._validate_language_options(defaults, opts)
            ans = "ok " + wire(out)
            # search: the group is set as a unit, nothing else changes
            name = before.get("std")
            name = name.value if isinstance(name, DV()) else name
            grp = defaults.get(name) if isinstance(name, str) else None
            if isinstance(grp, dict):
                ctx.count("cpp_group_applied")
                bad = [k for k in grp if not same(out.get(k, _ABSENT), grp[k])] + \
                      [k for k in before if k not in grp and not same(out.get(k, _ABSENT), before[k])] + \
                      [k for k in out if k not in grp and k not in before]
                if bad:
                    ctx.fail({"kind": "cpp-shorthand-not-a-unit"}, "a std shorthand did not set exactly its documented group",
                             {"defaults": wire(defaults), "options": wire(before), "result": wire(out), "keys": bad})
            elif not same(out, before):
                ctx.fail({"kind": "cpp-options-changed-without-group"}, "options changed although std names no group",
                         {"defaults": wire(defaults), "options": wire(before), "result": wire(out)})
        except Exception as e:  # noqa
            ans = cfg_exc_kind(e)
        impl.append(ans)
        descs.append({"defaults": "gen" if use_gen else wire(defaults), "options": wire(before)})
        ctx.case(("cppstd", lines[-1]), True)
        ctx.count("cppstd_" + (ans if ans.startswith("err") else "ok"))
    if drv:
        for d, m, g in zip(descs, drv.ask(lines), impl):
            ctx.traces += 1
            if m != g:
                ctx.disagree("cpp/_validate_language_options", d, m, g)


def stream_cpp_shorthand_vs_files(ctx, rng):
    """Failing-input search for "the shorthand sets its group as a unit": for an explicitly requested shorthand S and
    every key k that ANY shorthand group sets, the effective value of k must not depend on what a configuration file
    says about k (explicit CLI/API value over files + the group applied as a unit).  The whole table: every S x k,
    file silent / file value A / file value B, through LanguageContextBuilder and through the CLI's
    _create_language_context; one pair through a real `nnvg --list-configuration`."""
    import yaml
    from nunavut.cli import _make_parser
    from nunavut.cli.runners import ArgparseRunner
    from nunavut.lang import LanguageContextBuilder
    sec = "nunavut.lang.cpp"
    builtin = builtin_sections_py()
    defaults = builtin.get(sec, {}).get("defaults", {})
    groups = [g for g, body in defaults.items() if isinstance(body, dict)]
    keys = sorted(group_keys(defaults))
    ctx.extra["cpp_shorthand_table"] = {"groups": groups, "keys_set_by_any_group": keys}

    def variants(k):
        if k == "ctor_convention":
            return ["uses-leading-allocator", "default"]
        if k == "std":
            return ["c++14", "c++20"]
        vals = [g[k] for g in defaults.values() if isinstance(g, dict) and k in g] + [builtin[sec].get("options", {}).get(k)]
        if any(isinstance(v, bool) for v in vals):
            return [True, False]
        return ["file_value_A", "file_value_B"]

    def via_builder(S, doc):
        b = LanguageContextBuilder(include_experimental_languages=True).set_target_language("cpp")
        if doc is not None:
            b.add_config_files(scratch_yaml(ctx, rng, doc))
        b.set_target_language_configuration_override("options", {"std": S})
        return b.create().get_target_language()

    def via_cli(S, doc):
        argv = ["--list-configuration", "--experimental-languages", "--target-language", "cpp", "--language-standard", S]
        if doc is not None:
            argv += ["--configuration", str(scratch_yaml(ctx, rng, doc))]
        with contextlib.redirect_stderr(io.StringIO()):
            args = _make_parser().parse_args(argv)
        runner = ArgparseRunner.__new__(ArgparseRunner)
        runner._args = args
        return runner._create_language_context().get_target_language(), argv

    def observe(f):
        try:
            return f()
        except SystemExit:
            return "not-a-cli-choice"
        except Exception as e:  # noqa
            return "raised " + cfg_exc_kind(e)

    first_pair = None
    for S in groups:
        for k in keys:
            docs = [None] + [{sec: {"options": {k: v}}} for v in variants(k)]
            for via in ("builder", "cli"):
                seen = []
                for doc in docs:
                    if via == "builder":
                        r = observe(lambda: wire(via_builder(S, doc).get_option(k, _ABSENT)))
                    else:
                        r = observe(lambda: wire(via_cli(S, doc)[0].get_option(k, _ABSENT)))
                    seen.append(r)
                ctx.case(("shorthand-vs-file", via, S, k), True)
                ctx.count("cpp_shorthand_vs_file_" + via)
                if "not-a-cli-choice" in seen:
                    ctx.count("cpp_shorthand_not_a_cli_choice")
                    continue
                if len(set(seen)) != 1:
                    ctx.fail({"kind": "cpp-shorthand-depends-on-file", "via": via},
                             "with an explicitly requested std shorthand, an option of the shorthand vocabulary keeps what a configuration file said (the group is not set as a unit)",
                             {"shorthand": S, "option": k, "file_documents": [None if d is None else wire(d) for d in docs],
                              "effective_values": seen})
                    if first_pair is None:
                        j = next(i for i in range(1, len(seen)) if seen[i] != seen[0])
                        first_pair = (S, k, [docs[0], docs[j]])
    # one pair through the real command line (the pair that failed, else a fixed one)
    S, k, docs = first_pair or (groups[-1] if groups else None, "variable_array_type_include", None)
    if S is not None:
        docs = docs or [None, {sec: {"options": {k: "file_value_A"}}}]
        outs = []
        for doc in docs[:2]:
            argv = ["--list-configuration", "--experimental-languages", "--target-language", "cpp", "--language-standard", S]
            if doc is not None:
                argv += ["--configuration", str(scratch_yaml(ctx, rng, doc))]
            env = dict(os.environ, PYTHONPATH=str(common.REPO / "src"))
            p = subprocess.run([common.PY, "-m", "nunavut"] + argv, capture_output=True, text=True, timeout=120, env=env, cwd=str(ctx.scratch))
            ctx.count("nnvg_subprocess_runs")
            if p.returncode != 0:
                outs.append("rc=%d" % p.returncode)
            else:
                dumped = yaml.load(p.stdout, Loader=yaml.UnsafeLoader)
                outs.append(wire(at(dumped, (sec, "options", k))) if at(dumped, (sec, "options", k)) is not _ABSENT else "absent")
        if "rc=2" not in outs and len(set(outs)) != 1:
            ctx.fail({"kind": "cpp-shorthand-depends-on-file", "via": "nnvg"},
                     "nnvg --list-configuration: with --language-standard <shorthand> an option of the shorthand vocabulary depends on the configuration file",
                     {"shorthand": S, "option": k, "file_documents": [None if d is None else wire(d) for d in docs[:2]], "listed_values": outs})


def stream_cli_defaults_vs_files(ctx, rng):
    """Failing-input search for "values that are merely defaults of the command line never displace a value given in a
    file": the generated table of EVERY option `_create_language_context` reads; for every option O that reaches the
    configuration and every documented value v, a --configuration file setting O = v with the flag ABSENT must report v.
    In-process (`_create_language_context` on the parsed argv) for the whole table, real `nnvg --list-configuration` for
    a few."""
    import yaml
    from nunavut.cli import _make_parser
    from nunavut.cli.runners import ArgparseRunner
    try:
        rows = clioptions.table(common.REPO)
    except Exception:  # noqa  (already recorded as a broken translator)
        return
    builtin = builtin_sections_py()
    cpp_groups = set(builtin.get("nunavut.lang.cpp", {}).get("defaults", {}).keys())
    ctx.extra["cli_option_table"] = [{k: (repr(v) if k == "default" else v) for k, v in r.items()} for r in rows]
    nsub_left = 3 if ctx.quick else 12
    for r in rows:
        if r["role"] not in ("option", "config"):
            continue
        if r["choices"]:
            values = list(r["choices"])
        elif r["action"] == "store_true":
            values = [True, False]
        elif r["key"] == "extension":
            values = [".hh", ".hxx"]
        else:
            values = ["_file_a", "file_b"]
        for v in values:
            for lang in ("c", "cpp"):
                if r["key"] == "std":
                    if v in cpp_groups:
                        ctx.count("cli_default_vs_file_skipped_shorthand")
                        continue   # a shorthand rewrites std itself; covered by the shorthand oracles
                    if (lang == "cpp") != str(v).startswith("c++"):
                        continue
                sec = "nunavut.lang." + lang
                body = {"options": {r["key"]: v}} if r["role"] == "option" else {r["key"]: v}
                path = (sec, "options", r["key"]) if r["role"] == "option" else (sec, r["key"])
                doc = {sec: body}
                argv = ["--list-configuration", "--experimental-languages", "--target-language", lang,
                        "--configuration", str(scratch_yaml(ctx, rng, doc))]
                try:
                    args = _make_parser().parse_args(argv)
                    runner = ArgparseRunner.__new__(ArgparseRunner)
                    runner._args = args
                    lctx = runner._create_language_context()
                    got = at(lctx.config.sections(), path)
                    if r["role"] == "option":
                        rep = lctx.get_target_language().get_option(r["key"], _ABSENT)
                    else:
                        rep = lctx.get_target_language().get_config_value(r["key"], None)
                    obs = [wire(got) if got is not _ABSENT else "absent", wire(rep) if rep is not _ABSENT else "absent"]
                    bad = not same(strip_defaults(got), v) or not same(strip_defaults(rep), v)
                except Exception as e:  # noqa
                    obs, bad = ["raised " + cfg_exc_kind(e)], True
                ctx.case(("cli-default-vs-file", r["dest"], repr(v), lang), True)
                ctx.count("cli_table_default_vs_file")
                if bad:
                    ctx.fail({"kind": "cli-default-displaced-file-value", "option": r["dest"]},
                             "a configuration file sets the option, the command-line flag is absent, and the file's value is not the effective one",
                             {"flag_absent": r["flag"], "argparse_default": repr(r["default"]), "file_document": wire(doc),
                              "argv": argv[:-1] + ["<file>"], "expected": wire(v), "configuration_and_reported": obs})
                if (bad or r["dest"] == "target_endianness") and nsub_left > 0 and v not in ("any",):
                    nsub_left -= 1
                    env = dict(os.environ, PYTHONPATH=str(common.REPO / "src"))
                    p = subprocess.run([common.PY, "-m", "nunavut"] + argv, capture_output=True, text=True, timeout=120, env=env, cwd=str(ctx.scratch))
                    ctx.count("nnvg_subprocess_runs")
                    listed = "rc=%d" % p.returncode
                    if p.returncode == 0:
                        dumped = yaml.load(p.stdout, Loader=yaml.UnsafeLoader)
                        lv = at(dumped, path)
                        listed = wire(lv) if lv is not _ABSENT else "absent"
                    if listed != wire(v):
                        ctx.fail({"kind": "cli-default-displaced-file-value", "option": r["dest"], "via": "nnvg"},
                                 "nnvg --list-configuration does not list the value the configuration file gives although the flag is absent",
                                 {"flag_absent": r["flag"], "file_document": wire(doc), "argv": argv[:-1] + ["<file>"],
                                  "expected": wire(v), "listed": listed})


# ------------------------------------------------------------------------------------------------------
def run(ctx: common.Ctx):
    try:
        changed = cppdefaults.main(common.REPO)
        ctx.extra["translator"] = {"cppdefaults": "rewritten" if changed else "unchanged"}
    except Exception as e:  # noqa  (the translator can no longer express the source: tie broken)
        ctx.extra["translator"] = {}
        ctx.broken.append({"kind": "translator", "translator": "cppdefaults", "error": repr(e)})
    try:
        changed = clioptions.main(common.REPO)
        ctx.extra["translator"]["clioptions"] = "rewritten" if changed else "unchanged"
    except Exception as e:  # noqa
        ctx.broken.append({"kind": "translator", "translator": "clioptions", "error": repr(e)})
    try:
        changed = langtable.main(common.REPO)
        ctx.extra["translator"]["langtable"] = "rewritten" if changed else "unchanged"
    except Exception as e:  # noqa
        ctx.broken.append({"kind": "translator", "translator": "langtable", "error": repr(e)})
    drivers = ctx.prove(["C13", "C13Ctx"], exes=["config"])
    drv = drivers.get("config")
    ctx.rule = ("deep_update: every (target, source) pair of the universe {dicts over keys a,b, depth<=2, leaves scalar/DefaultValue(/list)} "
                "+ sampled two-merge sequences of it + seeded random trees/DAGs/aliased heaps (keys a,b,c, depth<=4, 1-5 merges); "
                "LanguageConfig.update sequences; real LanguageContextBuilder over YAML files in scratch with random call interleavings "
                "(c, cpp, py), the CLI's _create_language_context, sequences of 2-3 builders; _validate_language_options on random "
                "option sets; process histories of 2-4 builders with reused file paths read through every access path; the C++ "
                "shorthand by file/API/CLI/non-target; YAML texts (corpus + random: nulls, repeated keys, aliases). non-trivial = the merge reaches a non-empty mapping source / the sequence has >= 2 calls; distinct by "
                "the encoded inputs (heap included where objects are shared)")
    ctx.assumptions = [
        "sources are YAML-like values: str keys; leaves are scalars, DefaultValue(scalar) or lists (lists are opaque leaves)",
        "each source document is a tree (no dict object occurs twice inside one document; documents may share objects)",
        "Python dict = insertion-ordered map without duplicate keys (M.WF); PyYAML's safe_load/safe_dump round-trips the generated documents",
        "ConstructorConvention values in the correspondence are str",
        "process histories: a builder is not modified after its first create() (same-builder reuse is shared state by design); "
        "a builder that raised is dropped; the language map visits the sections in configuration order (the code iterates a set)",
        "list leaves are values in the model; the code merges them by reference (the configuration's list IS the source's list object): "
        "sound while nothing mutates a list in place - checked by re-reading every list-valued key and every caller-owned override after "
        "identifiers were stropped in every language and a template was rendered",
        "YAML syntax (scanner/parser/composer, `<<` merge keys) is PyYAML's; the model starts at the mapping nodes with their "
        "repeated keys, aliases are compared on the loaded object graph",
    ]
    ctx.exhaustive = False
    rng = ctx.rng
    stream_merge(ctx, drv, rng)
    stream_language_config(ctx, drv, rng)
    stream_cppstd(ctx, drv, rng)
    stream_builders(ctx, drv, rng)
    stream_multi_create(ctx, drv, rng)
    stream_cli(ctx, drv, rng)
    stream_cpp_shorthand_vs_files(ctx, rng)
    stream_cli_defaults_vs_files(ctx, rng)
    # round 2 (kept last so that the streams above see the same random numbers as before)
    from . import c13_ctx
    c13_ctx.stream_process_history(ctx, drv, rng)
    c13_ctx.stream_shorthand_routes(ctx, drv, rng)
    c13_ctx.stream_yaml_text(ctx, drv, rng)


def replay(ctx, path):
    """Re-evaluate the sub-properties on the recorded input against the tree under check; 1 = still failing."""
    import random
    r = json.loads(open(path).read())
    rp = r.get("replay", {})
    if "sources" in rp and "target" in rp:
        t = parse_wire(rp["target"])
        srcs = [parse_wire(s) for s in rp["sources"]]
        run = MergeRun("tree", t, srcs)
        search_merge(ctx, run, random.Random(0))
        print(json.dumps({"target": rp["target"], "sources": rp["sources"], "result": run.impl_value_answer(),
                          "sources_after": [wire(s) for s in srcs] if not run.cyclic else "cyclic",
                          "failures": [{"key": f["key"], "what": f["what"]} for f in ctx.failures]}))
        return 1 if ctx.failures else 0
    from . import c13_ctx
    rc = c13_ctx.replay(ctx, rp)
    if rc is not None:
        return rc
    if "defaults" in rp and "options" in rp and "result" in rp:
        print(json.dumps({"note": "C++ shorthand case; re-run the check to re-evaluate", "replay": rp})[:2000])
        return 1
    print("not replayable in-process: re-run ./check C13 with seed %s (builder / CLI call sequence in the file)" % r.get("seed"))
    return 1


def parse_wire(s):
    """inverse of wire() for replay (atoms back to Python scalars)"""
    pos = 0

    def atom():
        nonlocal pos
        if pos < len(s) and s[pos] == "%":
            m = re.compile(r"%([0-9a-f]*)").match(s, pos)
            pos = m.end()
            a = bytes.fromhex(m.group(1)).decode("utf-8")
        else:
            m = re.compile(r"[A-Za-z0-9_.:+-]+").match(s, pos)
            pos = m.end()
            a = m.group(0)
        return a

    def scalar(a):
        tag, _, body = a.partition(":")
        if tag == "n":
            return None
        if tag == "b":
            return body == "true"
        if tag == "i":
            return int(body)
        if tag == "f":
            return float.fromhex(body)
        if tag == "s":
            return body
        return json.loads(body) if tag == "j" else a

    def value():
        nonlocal pos
        c = s[pos]
        pos += 1
        if c == "S":
            return scalar(atom())
        if c == "D":
            return DV()(scalar(atom()))
        if c == "[":
            out = []
            while s[pos] != "]":
                out.append(scalar(atom()))
                if s[pos] == ",":
                    pos += 1
            pos += 1
            return out
        if c == "{":
            out = {}
            while s[pos] != "}":
                k = atom()
                pos += 1  # '='
                out[k] = value()
                if s[pos] == ";":
                    pos += 1
            pos += 1
            return out
        raise ValueError("bad wire value at %d" % (pos - 1))

    return value()
