"""
C17 — headers generated with different language options cannot be compiled together.

Proof: lean/NunavutVerif/Properties/C17.lean (guard relation for all option sets; enc injective on the whole generated
domain; identical documented sets accepted / different ones rejected with the differing options named; CRC-32).

Tie:
  * translator translate/optiondomain.py -> Gen/OptionDomain.lean (documented options, values, rendered names, the real
    filter's numbers, which keys the real templates define / assert) regenerated from $VERIF_REPO on every run;
  * enc: compiled Lean `enc` / `crc32` versus the real `filter_to_static_assertion_value` / `zlib.crc32` on every
    documented value, random strings (all planes) and random byte strings;
  * units with several type headers (2-3 headers generated with different option sets, both include orders, one header
    including another): per-header diagnostics versus the model's `togetherTU`;
  * guard: `python -m nunavut` generates a support header with option set o1 and type headers with o2 (CLI switches where
    they exist, a --configuration YAML for the rest); gcc/g++ (thorough: clang too) compile them together with
    -fsyntax-only; the set of options named by static-assertion / undeclared-name diagnostics in every type header is
    compared with the Lean model's `together` (and, for g++, the two numbers of "the comparison reduces to (A == B)" with
    the model's encodings).  Every single-option difference over the documented values, random multi-option
    differences, identical sets, undocumented (custom int / string / float) options, the omit case.

Failing-input search: the property itself over real compiles, independent of the model: two effective option sets that
differ must not compile together and a diagnostic must name a differing option; identical sets must compile; and the
real filter must not collide on the documented values of one option.
"""
import concurrent.futures
import json
import os
import pathlib
import re
import shutil
import subprocess
import sys
import zlib

from . import common
from .common import enc as penc, dec as pdec

sys.path.insert(0, str(common.VERIF))
from translate import optiondomain as od  # noqa: E402

ABSENT = "<absent>"          # marker for "option key not in the set" (keys that exist only under a CLI switch)
NS = "t"
DSDL = {
    "A.1.0.dsdl": "uint8 a\n@sealed\n",
    "B.1.0.dsdl": "A.1.0 x\nuint16[2] f\nint7 g\n@extent 64 * 8\n",
    "U.1.0.dsdl": "@union\nuint8 a\nuint16 b\n@sealed\n",
    "S.1.0.dsdl": "uint8 q\n@sealed\n---\nuint8 r\n@sealed\n",
}
TYPE_STEMS = ["A_1_0", "B_1_0", "U_1_0", "S_1_0"]
# CETL is not vendored in this sandbox (empty submodule); the cetl flavour of trivial types needs exactly this much of it
STUBS = {
    "cetl/pf17/sys/memory_resource.hpp":
        "#pragma once\n#include <cstddef>\nnamespace cetl { namespace pf17 { namespace pmr {\n"
        "template <typename T> class polymorphic_allocator { public: using value_type = T; };\n}}}\n",
    "cetl/variable_length_array.hpp": "#pragma once\n",
}
ERR_RE = re.compile(r"^(?P<file>[^:\n]+):(?P<line>\d+):(?P<col>\d+): (?P<sev>fatal error|error): (?P<msg>.*)$")
NOTE_RE = re.compile(r"^(?P<file>[^:\n]+):(?P<line>\d+):(?P<col>\d+): note: the comparison reduces to '\((\d+) == (\d+)\)'")
NWORK = max(4, min(16, os.cpu_count() or 4))


# ---------------------------------------------------------------------------------------------------------------------
# protocol
# ---------------------------------------------------------------------------------------------------------------------
def pval(v):
    if isinstance(v, bool):
        return "b1" if v else "b0"
    if isinstance(v, int):
        return f"i{v}"
    if isinstance(v, str):
        return "s" + penc(v)
    return "o"


def pset(lang, o):
    if not o:
        return "-"
    return ";".join(f"{penc(k)}~{penc(od.real_name(lang, k))}~{pval(v)}" for k, v in o.items())


def parse_diags(ans):
    if ans == "ok":
        return []
    if ans.startswith("diag "):
        out = []
        for t in ans[5:].split(","):
            kind, name = t.split(":", 1)
            out.append((kind, pdec(name)))
        return out
    return ans  # err:gen / bad-op


# ---------------------------------------------------------------------------------------------------------------------
# option sets
# ---------------------------------------------------------------------------------------------------------------------
class Domain:
    def __init__(self, dom, lang):
        self.lang = lang
        self.entries = dom[lang]["options"]
        self.by_key = {e["key"]: e for e in self.entries}
        self.presets = dom[lang]["presets"]
        self.order = [e["key"] for e in self.entries]
        self.defaults = {e["key"]: e["default"] for e in self.entries if e["always"]}

    def ordered(self, o):
        out = {k: o[k] for k in self.order if k in o and o[k] != ABSENT}
        for k, v in o.items():
            if k not in out and v != ABSENT:
                out[k] = v
        return out

    def effective(self, req):
        """What the templates see: built-in defaults, overridden by the request, then the language-standard preset."""
        eff = dict(self.defaults)
        for k, v in req.items():
            if v != ABSENT:
                eff[k] = v
        std = eff.get("std")
        if isinstance(std, str) and std in self.presets:
            eff.update(self.presets[std])
        return self.ordered(eff)

    def values(self, key):
        e = self.by_key[key]
        return list(e["values"]) + ([] if e["always"] else [ABSENT])


def canon(o):
    return json.dumps([[k, v] for k, v in o.items()], ensure_ascii=True)


def differing_keys(o1, o2):
    return sorted(k for k in set(o1) | set(o2)
                  if k not in o1 or k not in o2 or type(o1[k]) is not type(o2[k]) or o1[k] != o2[k])


# ---------------------------------------------------------------------------------------------------------------------
# generation with the real generator
# ---------------------------------------------------------------------------------------------------------------------
class Generated:
    def __init__(self):
        self.ok = False
        self.rc = None
        self.stderr = ""
        self.dir = None
        self.args = None
        self.header_options = None


class Workbench:
    def __init__(self, ctx, dom):
        self.ctx = ctx
        self.dom = {l: Domain(dom, l) for l in od.LANGS}
        self.root = ctx.scratch
        self.ns = self.root / "ns" / NS
        self.ns.mkdir(parents=True, exist_ok=True)
        for f, body in DSDL.items():
            (self.ns / f).write_text(body)
        self.stubs = self.root / "stubs"
        for f, body in STUBS.items():
            p = self.stubs / f
            p.parent.mkdir(parents=True, exist_ok=True)
            p.write_text(body)
        self.gen = {}    # (lang, canon(req), pod) -> Generated
        self.n = 0
        for lang in od.LANGS:
            ext = od.TYPE_EXT[lang]
            (self.root / f"tu_{lang}{'.c' if lang == 'c' else '.cpp'}").write_text(
                "".join(f'#include "{NS}/{s}{ext}"\n' for s in TYPE_STEMS))

    def nnvg_args(self, lang, req, outdir, cfgpath, pod=False):
        import yaml
        d = self.dom[lang]
        args = [str(self.ns), "--experimental-languages", "--target-language", lang, "--outdir", str(outdir)]
        cfg = {}
        for k, v in req.items():
            if v == ABSENT:
                continue
            src = d.by_key.get(k, {}).get("cli")
            if src and src["kind"] == "choice" and isinstance(v, str) and v in src["values"]:
                args += [src["switch"], v]
            elif src and src["kind"] == "flag" and isinstance(v, bool):
                if v:
                    args.append(src["switch"])
                elif d.defaults.get(k) is not False:
                    cfg[k] = v
            else:
                cfg[k] = v
        if cfg:
            cfgpath.write_text(yaml.safe_dump({"nunavut.lang." + lang: {"options": cfg}}, sort_keys=False, allow_unicode=True))
            args += ["--configuration", str(cfgpath)]
        if pod:
            args.append("--omit-serialization-support")
        return args

    def _generate(self, idx, lang, req, pod):
        g = Generated()
        g.dir = self.root / f"g{idx}"
        alld = g.dir / "all"
        g.dir.mkdir()
        g.args = self.nnvg_args(lang, req, alld, g.dir / "cfg.yaml", pod)
        p = od.run_nnvg(g.args, timeout=180)
        g.rc, g.stderr = p.returncode, p.stderr[-1500:]
        if p.returncode != 0:
            return g
        (g.dir / "sup").mkdir()
        (g.dir / "typ").mkdir()
        if (alld / "nunavut").exists():
            shutil.move(str(alld / "nunavut"), str(g.dir / "sup" / "nunavut"))
        shutil.move(str(alld / NS), str(g.dir / "typ" / NS))
        g.ok = True
        sup = g.dir / "sup" / od.SUPPORT_HEADER[lang]
        if sup.exists():
            g.header_options = read_option_comment(sup.read_text())
        return g

    def generate_all(self, specs):
        """specs: iterable of (lang, req, pod).  Generates every distinct one in parallel."""
        todo = {}
        for lang, req, pod in specs:
            key = (lang, canon(req), pod)
            if key not in self.gen and key not in todo:
                todo[key] = (lang, req, pod)
        with concurrent.futures.ThreadPoolExecutor(max_workers=NWORK) as ex:
            futs = {}
            for k, v in todo.items():
                self.n += 1
                futs[k] = ex.submit(self._generate, self.n, *v)
            for k, f in futs.items():
                self.gen[k] = f.result()

    def get(self, lang, req, pod=False):
        return self.gen[(lang, canon(req), pod)]


def read_option_comment(text):
    """The `// Language Options` comment block of a support header: what the generator says its option set was."""
    m = re.search(r"^// Language Options\n((?://     .*\n)*)", text, re.M)
    if not m:
        return None
    out = {}
    for line in m.group(1).splitlines():
        mm = re.match(r"([^:]+):\s*(.*)$", line[len("//     "):])
        if mm:
            out[mm.group(1).strip()] = mm.group(2).strip()
    return out


# ---------------------------------------------------------------------------------------------------------------------
# compiling and reading the diagnostics
# ---------------------------------------------------------------------------------------------------------------------
def assert_spans(lang, path):
    """[(first line, last line, rendered name)] of every option static_assert statement of a type header."""
    spans = []
    lines = path.read_text().split("\n")
    i = 0
    while i < len(lines):
        m = od.ASSERT_RE[lang].match(lines[i])
        if m:
            j = i
            while j < len(lines) and ");" not in lines[j]:
                j += 1
            spans.append((i + 1, j + 1, m.group(1)))
            i = j
        i += 1
    return spans


def compilers_for(lang, eff1, eff2, thorough):
    have_clang = shutil.which("clang") is not None
    if lang == "c":
        out = [("gcc-c11", ["gcc", "-std=c11"]), ("g++-c-in-c++14", ["g++", "-std=c++14", "-x", "c++"])]
        if thorough and have_clang:
            out.append(("clang-c11", ["clang", "-std=c11", "-ferror-limit=0"]))
        return out
    stds = []
    for o in (eff1, eff2):
        m = re.fullmatch(r"c\+\+(\d+)", str(o.get("std", "")))
        stds.append(int(m.group(1)) if m else 17)
    s = f"-std=c++{max(stds)}"
    out = [("g++" + s, ["g++", s])]
    if thorough and have_clang:
        out.append(("clang++" + s, ["clang++", s, "-ferror-limit=0"]))
    return out


def compile_pair(wb, lang, g1, g2, cname, cmd):
    """Support header from g1, type headers from g2.  Returns a dict: rc, per-header guard diagnostics, other errors."""
    tu = wb.root / f"tu_{lang}{'.c' if lang == 'c' else '.cpp'}"
    return compile_tu(wb, lang, g1.dir / "sup", g2.dir / "typ", tu, TYPE_STEMS, cname, cmd)


def compile_tu(wb, lang, supdir, typdir, tu, stems, cname, cmd):
    """One translation unit `tu` against the support header under `supdir` and the type headers under `typdir`."""
    full = cmd + ["-fsyntax-only", "-DNUNAVUT_ASSERT(x)=((void)0)", "-I", str(supdir), "-I", str(typdir), "-I", str(wb.stubs), str(tu)]
    try:
        p = subprocess.run(full, capture_output=True, text=True, timeout=180, env=dict(os.environ, LC_ALL="C"))
    except subprocess.TimeoutExpired:
        return {"rc": "timeout", "headers": {}, "other": ["timeout"], "cmd": full, "stderr": "", "nums": [], "names_in_text": set()}
    headers = {}
    spans = {}
    for s in stems:
        hp = (typdir / NS / (s + od.TYPE_EXT[lang])).resolve()
        spans[str(hp)] = assert_spans(lang, hp)
        headers[s] = {}
    other, nums = [], []
    last_primary = None
    for line in p.stderr.split("\n"):
        mn = NOTE_RE.match(line)
        if mn and last_primary is not None and last_primary[0] == "m":
            nums.append((last_primary[1], int(mn.group(4)), int(mn.group(5))))
            continue
        m = ERR_RE.match(line)
        if not m:
            continue
        last_primary = None
        f = str(pathlib.Path(m.group("file")).resolve())
        ln, msg = int(m.group("line")), m.group("msg")
        hit = None
        for a, b, name in spans.get(f, []):
            if a <= ln <= b:
                hit = name
        if hit is None:
            other.append(f"{pathlib.Path(f).name}:{ln}: {msg[:160]}")
            continue
        stem = pathlib.Path(f).stem
        if "static assertion failed" in msg or "static_assert failed" in msg:
            kind = "m"
        elif "undeclared" in msg or "not declared" in msg or "is not a member of" in msg or "no member named" in msg:
            kind = "u"
        elif "not an integer" in msg or "not an integral constant" in msg or "non-constant condition" in msg:
            kind = "secondary"
        else:
            kind = "x:" + msg[:80]
        prev = headers[stem].get(hit)
        if kind == "secondary":
            if prev is None:
                headers[stem][hit] = "secondary"
        elif prev is None or prev == "secondary":
            headers[stem][hit] = kind
        elif prev != kind:
            headers[stem][hit] = prev + "+" + kind
        last_primary = (kind, hit)
    # gcc reports an undeclared identifier once per translation unit; later headers only get the follow-up error
    undeclared = {n for d in headers.values() for n, k in d.items() if k == "u"}
    for d in headers.values():
        for n in d:
            if d[n] == "secondary" and n in undeclared:
                d[n] = "u"
    hd = {s: sorted((k, n) for n, k in d.items()) for s, d in headers.items()}
    return {"rc": p.returncode, "headers": hd, "other": other, "cmd": full, "stderr": p.stderr[:3000], "nums": nums,
            "names_in_text": {n for d in headers.values() for n in d if n in p.stderr}}


# ---------------------------------------------------------------------------------------------------------------------
# case construction
# ---------------------------------------------------------------------------------------------------------------------
def bases(d: Domain):
    out = [("default", dict(d.defaults))]
    for p in d.presets:
        out.append((p, d.effective({"std": p})))   # the preset spelled out (passes through YAML, no expansion)
    return out


def single_differences(d: Domain, base):
    out = []
    for k in d.order:
        vals = d.values(k)
        for a in vals:
            for b in vals:
                if a is b or (type(a) is type(b) and a == b):
                    continue
                o1, o2 = dict(base), dict(base)
                o1[k], o2[k] = a, b
                out.append((d.ordered(o1), d.ordered(o2), k))
    return out


def random_set(d: Domain, rng, base, nchanges):
    o = dict(base)
    for k in rng.sample(d.order, min(nchanges, len(d.order))):
        o[k] = rng.choice(d.values(k))
    return d.ordered(o)


def strictly_compilable(lang, d: Domain, eff):
    """Identical sets must compile *completely* when the set differs from the built-in defaults / a language-standard
    preset only in options that have a CLI switch, and names a language standard meaningful for the target; for other
    sets (e.g. a C++ cast format in C code, an allocator type without its include) only the guard itself is required to
    be silent."""
    if any(k not in d.by_key for k in eff):
        return False
    if lang == "cpp" and not re.fullmatch(r"c\+\+\d+", str(eff.get("std"))):
        return False
    for i, (_, b) in enumerate(bases(d)):
        # a preset fixes its own language standard (std::pmr needs C++17); the default set may be combined with any
        if all(eff.get(k) == b.get(k) or (d.by_key[k]["cli"] is not None and (k != "std" or i == 0)) for k in set(eff) | set(b)):
            return True
    return False


# ---------------------------------------------------------------------------------------------------------------------
# translation units that see several type headers, each generated with its own option set
# ---------------------------------------------------------------------------------------------------------------------
TU_LAYOUTS = [   # (name, top-level includes, which set each header is generated with: X = the support header's set)
    ("dependency-matches-then-includer-mismatches", ["B_1_0"], {"A_1_0": "X", "B_1_0": "Y"}),
    ("dependency-mismatches-then-includer-matches", ["B_1_0"], {"A_1_0": "Y", "B_1_0": "X"}),
    ("match-then-mismatch", ["A_1_0", "U_1_0"], {"A_1_0": "X", "U_1_0": "Y"}),
    ("mismatch-then-match", ["U_1_0", "A_1_0"], {"A_1_0": "X", "U_1_0": "Y"}),
    ("three-sets", ["A_1_0", "U_1_0", "S_1_0"], {"A_1_0": "X", "U_1_0": "Y", "S_1_0": "Z"}),
    ("three-sets-reversed", ["S_1_0", "U_1_0", "A_1_0"], {"A_1_0": "X", "U_1_0": "Y", "S_1_0": "Z"}),
    ("all-identical", ["B_1_0", "U_1_0"], {"A_1_0": "X", "B_1_0": "X", "U_1_0": "X"}),
]


def block_order(tops):
    """Order in which the guard blocks are reached: B_1_0 includes A_1_0 (before its own assertions)."""
    order = []
    for t in tops:
        if t == "B_1_0" and "A_1_0" not in order:
            order.append("A_1_0")
        if t not in order:
            order.append(t)
    return order


def build_tu(wb, lang, idx, reqX, tops, assign):
    """Mixed include tree: every header copied from the generation with its own option set.  assign: stem -> request."""
    mix = wb.root / f"mix{idx}"
    (mix / NS).mkdir(parents=True)
    ext = od.TYPE_EXT[lang]
    for stem, req in assign.items():
        shutil.copy(wb.get(lang, req).dir / "typ" / NS / (stem + ext), mix / NS / (stem + ext))
    tu = mix / ("tu.c" if lang == "c" else "tu.cpp")
    tu.write_text("".join(f'#include "{NS}/{t}{ext}"\n' for t in tops))
    return mix, tu


def tu_verdict(wb, lang, reqX, tops, assign, res):
    """The property on one compiled unit, independent of the model.  Returns None or (key, what)."""
    d = wb.dom[lang]
    eX = d.effective(reqX)
    order = block_order(tops)
    unnoticed = []
    anydiff = False
    for stem in order:
        e = d.effective(assign[stem])
        diff = differing_keys(eX, e)
        names = {od.real_name(lang, k): k for k in set(eX) | set(e)}
        named = {names.get(n, n) for _, n in res["headers"].get(stem, [])}
        if diff:
            anydiff = True
            if not (named & set(diff)):
                unnoticed.append((stem, diff))
        elif named:
            return ({"kind": "identical-sets-rejected", "lang": lang, "options": sorted(named), "unit": "several-headers"},
                    "a type header generated with the support header's options is rejected by the option guard")
    if unnoticed:
        stem, diff = unnoticed[0]
        return ({"kind": "mismatching-header-unnoticed", "lang": lang, "first_header_of_unit": order.index(stem) == 0},
                "a type header generated with different language options is not rejected when it is not the only / first "
                "generated header of the translation unit")
    if not anydiff and res["rc"] != 0:
        first = (res["other"] or ["?:0: ?"])[0]
        return ({"kind": "identical-sets-do-not-compile", "lang": lang, "file": first.split(":")[0], "error": first.split(": ", 1)[-1][:60]},
                "headers generated with identical language options do not compile together")
    return None


def tu_stream(ctx, wb, drv, cases):
    rng = ctx.rng
    npairs = 3 if ctx.quick else 12
    plan = []
    for lang in od.LANGS:
        d = wb.dom[lang]
        X = d.ordered(dict(d.defaults))
        cand = [c[3] for c in cases if c[0] == "single" and c[1] == lang and canon(c[2]) == canon(X)
                and wb.get(lang, c[3]).ok and differing_keys(d.effective(X), d.effective(c[3]))]
        rng.shuffle(cand)
        first = d.ordered(dict(X, target_endianness="little")) if "target_endianness" in d.by_key else None
        ys = ([first] if first else []) + cand[:npairs - 1]
        for i, Y in enumerate(ys):
            Z = ys[(i + 1) % len(ys)]
            for lname, tops, amap in TU_LAYOUTS:
                assign = {stem: {"X": X, "Y": Y, "Z": Z}[w] for stem, w in amap.items()}
                plan.append((lang, lname, X, tops, assign))
    wb.generate_all([(lang, r, False) for lang, _, X, _, assign in plan for r in [X] + list(assign.values())])
    jobs = []
    for idx, (lang, lname, X, tops, assign) in enumerate(plan):
        if not all(wb.get(lang, r).ok for r in [X] + list(assign.values())):
            ctx.count("tu:generation-rejected")
            continue
        d = wb.dom[lang]
        mix, tu = build_tu(wb, lang, idx, X, tops, assign)
        effs = [d.effective(r) for r in assign.values()]
        top = max(effs, key=lambda e: int((re.fullmatch(r"c\+\+(\d+)", str(e.get("std", ""))) or [0, 0])[1]))
        for cname, cmd in compilers_for(lang, d.effective(X), top, not ctx.quick):
            jobs.append((idx, cname, cmd, mix, tu))
    results = {}
    with concurrent.futures.ThreadPoolExecutor(max_workers=NWORK) as ex:
        futs = [(idx, cname, ex.submit(compile_tu, wb, plan[idx][0], wb.get(plan[idx][0], plan[idx][2]).dir / "sup", mix, tu,
                                       list(plan[idx][4]), cname, cmd)) for idx, cname, cmd, mix, tu in jobs]
        for idx, cname, f in futs:
            results[(idx, cname)] = f.result()
    model = {}
    if drv is not None and jobs:
        idxs = sorted({j[0] for j in jobs})
        lines = []
        for idx in idxs:
            lang, lname, X, tops, assign = plan[idx]
            d = wb.dom[lang]
            lines.append(f"tu {lang} 0 {pset(lang, d.effective(X))} " + "|".join(pset(lang, d.effective(assign[s])) for s in block_order(tops)))
        for idx, a in zip(idxs, drv.ask(lines)):
            model[idx] = [parse_diags(t) for t in a.split("|")] if not a.startswith("err") and a != "bad-op" else a
    for (idx, cname), res in results.items():
        lang, lname, X, tops, assign = plan[idx]
        d = wb.dom[lang]
        order = block_order(tops)
        ctx.case(("tu", lang, lname, canon(d.effective(X)), [canon(d.effective(assign[s])) for s in order], cname), True)
        ctx.count(f"tu:{lang}:{lname}")
        ctx.count("tu:compiled:" + ("accepted" if res["rc"] == 0 else "rejected"))
        replay = {"tu": True, "lang": lang, "layout": lname, "includes": tops, "options_support": X,
                  "options_per_header": assign, "guard_block_order": order}
        if idx in model:
            ctx.traces += 1
            m = model[idx]
            got = [res["headers"].get(s, []) for s in order]
            if not isinstance(m, list) or [sorted(x) for x in m] != got:
                ctx.disagree("tu:" + cname, replay, m, res["headers"])
            elif (all(len(x) == 0 for x in m)) != (res["rc"] == 0) and not res["other"]:
                ctx.disagree("tu-rc:" + cname, replay, m, {"rc": res["rc"], "stderr": res["stderr"][:500]})
        v = tu_verdict(wb, lang, X, tops, assign, res)
        if v is not None:
            ctx.fail(v[0], v[1], dict(replay, compiler=cname, cmd=" ".join(res["cmd"]), rc=res["rc"], diagnostics=res["headers"],
                                      other_errors=res["other"][:5], stderr=res["stderr"][:1200]))
    ctx.extra["tu_units_compiled"] = len(results)


# ---------------------------------------------------------------------------------------------------------------------
def enc_tie(ctx, drv, dom):
    rng = ctx.rng
    from binascii import crc32 as bcrc
    vals = [v for lang in od.LANGS for e in dom[lang]["options"] for v in e["values"]]   # every documented value
    ctx.extra["documented_values_compared"] = len(vals)
    # the doctest values, edge cases
    vals += ["", "Any", "123456789", "a", "\x00", "\x7f", "\x80", "߿", "ࠀ", "￿", "\U00010000", "\U0010ffff",
             True, False, 0, 1, -1, 123, 2 ** 31 - 1, 2 ** 31, 2 ** 32 - 1, 2 ** 32, 2 ** 63, -2 ** 63, 10 ** 30, 3.14, None, [1], {"a": 1}]
    n = 1500 if ctx.quick else 40000
    alph = [(0x20, 0x7e)] * 6 + [(0, 0x7f), (0x80, 0x7ff), (0x800, 0xd7ff), (0xe000, 0xffff), (0x10000, 0x10ffff)]
    for _ in range(n):
        L = rng.choice([0, 1, 2, 3, 5, 8, 13, 21, 40, 64, 200])
        s = "".join(chr(rng.randint(*rng.choice(alph))) for _ in range(L))
        vals.append(s)
    for _ in range(200 if ctx.quick else 3000):
        vals.append(rng.choice([rng.randint(-5, 5), rng.randint(-2 ** 64, 2 ** 64), rng.getrandbits(32), bool(rng.getrandbits(1))]))
    ans = drv.ask(["enc " + pval(v) for v in vals]) if drv else [None] * len(vals)
    for v, a in zip(vals, ans):
        try:
            real = str(od.real_enc(v))
        except ValueError:
            real = "err:value"
        ctx.count("enc:" + type(v).__name__)
        if a is not None:
            ctx.traces += 1
            if a != real:
                ctx.disagree("enc", repr(v), a, real)
    # crc32 on raw byte strings vs zlib and binascii
    bss = [b"", b"123456789", b"\x00", b"\xff" * 4]
    for _ in range(500 if ctx.quick else 10000):
        bss.append(bytes(rng.getrandbits(8) for _ in range(rng.choice([0, 1, 2, 3, 4, 7, 8, 9, 31, 32, 33, 100, 300]))))
    ans = drv.ask(["crc " + (b.hex() or "-") for b in bss]) if drv else [None] * len(bss)
    for b, a in zip(bss, ans):
        z = zlib.crc32(b)
        if z != bcrc(b):
            raise RuntimeError("zlib and binascii disagree")
        if a is not None:
            ctx.traces += 1
            if a != str(z):
                ctx.disagree("crc32", b.hex(), a, str(z))
    ctx.extra["enc_values_compared"] = len(vals)
    ctx.extra["crc_byte_strings_compared"] = len(bss)


def table_tie(ctx, drv, dom):
    """The driver must have been linked with the table generated in this run; names in the table are the real filters'."""
    for lang in od.LANGS:
        want = ";".join(f"{penc(e['key'])}~{penc(e['name'])}~{len(e['values'])}~"
                        f"{int(e['always'])}{int(e['defined'])}{int(e['asserted'])}" for e in dom[lang]["options"])
        if drv:
            got = drv.ask([f"dom {lang}"])[0]
            ctx.traces += 1
            if got != want:
                ctx.disagree("table", lang, got, want)
        # the property's precondition on the implementation: the real filter separates the documented values of an option
        for e in dom[lang]["options"]:
            seen = {}
            for v, n in zip(e["values"], e["enc"]):
                if n in seen:
                    ctx.fail({"kind": "enc-collision", "lang": lang, "option": e["key"]},
                             "two documented values of one option are rendered as the same number, so the guard cannot tell them apart",
                             {"lang": lang, "option": e["key"], "values": [seen[n], v], "number": n})
                seen[n] = v
            if not e["defined"] or not e["asserted"]:
                ctx.count(f"unguarded:{lang}:{e['key']}")


def build_cases(ctx, wb, dom):
    """[(stream, lang, req1, req2)] — corpus, single differences, random multi differences, identical sets."""
    rng = ctx.rng
    cases = []
    corpus = common.VERIF / "corpus" / "C17"
    for f in sorted(corpus.glob("*.json")) if corpus.exists() else []:
        for c in json.loads(f.read_text()):
            d = wb.dom[c["lang"]]
            r1, r2 = dict(d.defaults), dict(d.defaults)
            r1.update(c["o1"]); r2.update(c["o2"])
            cases.append(("corpus", c["lang"], d.ordered(r1), d.ordered(r2)))
    ncorpus = len(cases)
    for lang in od.LANGS:
        d = wb.dom[lang]
        bs = bases(d)
        for name, b in bs:
            cases.append(("identical", lang, d.ordered(b), d.ordered(b)))
        # identical sets reached through the CLI: the preset names themselves
        for p in d.presets:
            cases.append(("identical", lang, d.ordered(dict(d.defaults, std=p)), d.ordered(dict(d.defaults, std=p))))
        # identical sets for every documented value of every option
        for _, b in (bs[:1] if ctx.quick else bs):
            for k in d.order:
                for v in d.values(k):
                    o = d.ordered(dict(b, **{k: v}))
                    cases.append(("identical", lang, o, dict(o)))
        singles_main = single_differences(d, bs[0][1])
        singles_rest = [s for _, b in bs[1:] for s in single_differences(d, b)]
        if ctx.quick:
            rng.shuffle(singles_rest)
            singles_rest = singles_rest[:12]
            if lang == "cpp":
                rng.shuffle(singles_main)
                singles_main = singles_main[:40]
        for o1, o2, k in singles_main + singles_rest:
            cases.append(("single", lang, o1, o2))
        nrand = 12 if ctx.quick else 150
        for _ in range(nrand):
            _, b = rng.choice(bs)
            o1 = random_set(d, rng, b, rng.choice([0, 0, 1, 2, 4]))
            r = rng.random()
            if r < 0.12:
                o2 = dict(o1)
            else:
                o2 = random_set(d, rng, o1, rng.choice([1, 2, 2, 3, 5]))
            cases.append(("random", lang, o1, d.ordered(o2)))
    # free-form string options: two valid `cast_format` values on which the REAL filter collides although zlib.crc32
    # does not (birthday search; true CRC-32 collisions are skipped, so nothing is found while the filter is a CRC-32)
    nsearch = 250000
    for lang in od.LANGS:
        d = wb.dom[lang]
        basefmt = d.defaults.get("cast_format")
        if not isinstance(basefmt, str):
            continue
        seen, found, true_coll = {}, None, 0
        for _ in range(nsearch):
            sfx = f"{basefmt} /* {rng.getrandbits(48):012x} */"
            try:
                rn = od.real_enc(sfx)
            except Exception:
                break
            z = zlib.crc32(sfx.encode("utf-8"))
            prev = seen.get(rn)
            if prev is None:
                seen[rn] = (sfx, z)
            elif prev[0] != sfx:
                if prev[1] != z:
                    found = (prev[0], sfx)
                    break
                true_coll += 1
        ctx.count(f"collision-search:{lang}:" + ("found" if found else "none"))
        ctx.extra.setdefault("collision_search", {})[lang] = {"strings_tried": len(seen), "true_crc32_collisions_skipped": true_coll,
                                                              "filter_only_collision": list(found) if found else None}
        if found:
            cases.append(("collision", lang, d.ordered(dict(d.defaults, cast_format=found[0])),
                          d.ordered(dict(d.defaults, cast_format=found[1]))))
    # undocumented options: the model of the comparison itself (ints, uint32 storage, stropped names, ValueError)
    customs = [
        ({"verif_n": 7}, {"verif_n": 7}), ({"verif_n": 7}, {"verif_n": 8}), ({"verif_n": 1}, {"verif_n": True}),
        ({"verif_n": 4294967301}, {"verif_n": 5}), ({"verif_n": 4294967301}, {"verif_n": 4294967301}),
        ({"verif_n": -1}, {"verif_n": -1}), ({"verif_n": -1}, {"verif_n": 4294967295}), ({"verif_n": 2147483648}, {"verif_n": 2147483648}),
        ({"verif_n": 0}, {"verif_n": ""}), ({"verif_s": "x y"}, {"verif_s": "x  y"}), ({"verif_s": "é"}, {"verif_s": "é"}),
        ({}, {"verif_s": "only in types"}), ({"verif_s": "only in support"}, {}),
        ({"class": 1, "Mixed_Case9": 2}, {"class": 1, "Mixed_Case9": 3}),
        ({"verif_f": 1.5}, {}), ({}, {"verif_f": 1.5}), ({"verif_l": [1, 2]}, {"verif_l": [1, 2]}),
    ]
    for lang in od.LANGS:
        d = wb.dom[lang]
        for c1, c2 in customs:
            r1, r2 = dict(d.defaults), dict(d.defaults)
            r1.update(c1); r2.update(c2)
            cases.append(("custom", lang, r1, r2))
    return cases, ncorpus


def _mark(ctx, what):
    ctx.extra.setdefault("phase_seconds", {})[what] = round(common.time.time() - ctx.t0, 1)


def run(ctx: common.Ctx):
    try:
        dom = od.generate()
    except Exception as e:  # translator cannot express the source any more: broken obligation, keep searching
        ctx.broken.append({"kind": "translator", "error": f"{type(e).__name__}: {e}"[:1500]})
        dom = None
    drivers = ctx.prove(["C17"], exes=["options"])
    drv = drivers.get("options")
    _mark(ctx, "proved")
    ctx.rule = ("one case = (language, option set of the support header, option set of the type headers, compiler); every ordered pair of "
                "documented values of one option on the default set (quick: sampled for the preset sets / C++), random multi-option "
                "differences, identical sets for every language-standard preset, undocumented int/str/float options, the omit case; "
                "4 DSDL types (struct, nested+array, union, service) per translation unit; distinct by (language, effective sets, compiler)")
    ctx.assumptions = [
        "gcc/g++ 12 (and clang 14 in the thorough tier) with -fsyntax-only are the judges of 'compiles together'; LP64",
        "CETL is not available offline: the cetl flavour is compiled against a 6-line stub of cetl::pf17::pmr::polymorphic_allocator",
        "zlib.crc32 / binascii.crc32 are the reference for CRC-32",
        "numbers compared by the guard are below 2^63 in magnitude (documented ones are below 2^32: theorem C17_documented_values_fit)",
    ]
    if dom is None:
        try:
            dom = od.build_domain()
            for lang in od.LANGS:
                for e in dom[lang]["options"]:
                    e["name"] = od.real_name(lang, e["key"]); e["defined"] = e["asserted"] = True
                    e["enc"] = [od.real_enc(v) for v in e["values"]]
        except Exception as e:
            ctx.broken.append({"kind": "translator-domain", "error": f"{type(e).__name__}: {e}"[:1500]})
            return
        drv_table = None
    else:
        drv_table = drv
    if drv is not None:
        enc_tie(ctx, drv, dom)
    table_tie(ctx, drv_table, dom)

    _mark(ctx, "enc-tie")
    wb = Workbench(ctx, dom)
    cases, ncorpus = build_cases(ctx, wb, dom)
    # effective sets and generation
    specs = []
    for stream, lang, r1, r2 in cases:
        specs += [(lang, r1, False), (lang, r2, False)]
    for lang in od.LANGS:
        specs.append((lang, dict(wb.dom[lang].defaults), True))
    wb.generate_all(specs)
    ctx.extra["option_sets_generated"] = len(wb.gen)
    _mark(ctx, "generated")

    # ---- omit case: which assertions does a type header generated with --omit-serialization-support carry? -------------
    for lang in od.LANGS:
        d = wb.dom[lang]
        g = wb.get(lang, dict(d.defaults), True)
        if not g.ok:
            ctx.disagree("omit", lang, "generates", f"nnvg rc={g.rc}: {g.stderr[-300:]}")
            continue
        got = sorted({n for s in TYPE_STEMS for _, _, n in assert_spans(lang, g.dir / "typ" / NS / (s + od.TYPE_EXT[lang]))})
        ctx.count(f"omit:{lang}:{'asserts' if got else 'no-asserts'}")
        if (g.dir / "sup" / od.SUPPORT_HEADER[lang]).exists():
            ctx.disagree("omit", lang, "no support header", "support header generated under --omit-serialization-support")
        if drv is not None:
            a = parse_diags(drv.ask([f"tog {lang} 1 - {pset(lang, d.effective(d.defaults))}"])[0])
            ctx.traces += 1
            model = sorted(n for _, n in a) if isinstance(a, list) else a
            if model != got:
                ctx.disagree("omit", lang, model, got)

    # ---- the compile jobs ----------------------------------------------------------------------------------------------
    jobs = []   # (index, cname, cmd)
    infos = []
    for stream, lang, r1, r2 in cases:
        d = wb.dom[lang]
        g1, g2 = wb.get(lang, r1), wb.get(lang, r2)
        e1, e2 = d.effective(r1), d.effective(r2)
        info = {"stream": stream, "lang": lang, "req1": r1, "req2": r2, "eff1": e1, "eff2": e2, "g1": g1, "g2": g2, "results": {}}
        infos.append(info)
        if g1.ok and g2.ok:
            for cname, cmd in compilers_for(lang, e1, e2, not ctx.quick):
                jobs.append((len(infos) - 1, cname, cmd))
    with concurrent.futures.ThreadPoolExecutor(max_workers=NWORK) as ex:
        futs = [(i, cname, ex.submit(compile_pair, wb, infos[i]["lang"], infos[i]["g1"], infos[i]["g2"], cname, cmd)) for i, cname, cmd in jobs]
        for i, cname, f in futs:
            infos[i]["results"][cname] = f.result()
    ctx.extra["compiles"] = len(jobs)
    _mark(ctx, "compiled")

    # ---- the model's answers ---------------------------------------------------------------------------------------------
    if drv is not None:
        lines = [f"tog {x['lang']} 0 {pset(x['lang'], x['eff1'])} {pset(x['lang'], x['eff2'])}" for x in infos]
        lines += [f"exp {pset(x['lang'], x['eff1'])} {pset(x['lang'], x['eff2'])}" for x in infos]
        ans = drv.ask(lines)
        for x, a, b in zip(infos, ans[:len(infos)], ans[len(infos):]):
            x["model"], x["model_expected"] = parse_diags(a), parse_diags(b)
        encs = {}
        allv = []
        for x in infos:
            for o in (x["eff1"], x["eff2"]):
                for v in o.values():
                    if isinstance(v, (bool, int, str)) and pval(v) not in encs:
                        encs[pval(v)] = None; allv.append(pval(v))
        for k, a in zip(allv, drv.ask(["enc " + k for k in allv])):
            encs[k] = a
    else:
        encs = {}

    # ---- compare -----------------------------------------------------------------------------------------------------------
    for x in infos:
        lang, d = x["lang"], wb.dom[x["lang"]]
        e1, e2, g1, g2 = x["eff1"], x["eff2"], x["g1"], x["g2"]
        diff = differing_keys(e1, e2)
        ctx.count(f"{x['stream']}:{lang}")
        replay = {"lang": lang, "options_support": x["req1"], "options_types": x["req2"],
                  "effective_support": e1, "effective_types": e2}
        encodable = all(isinstance(v, (bool, int, str)) for o in (e1, e2) for v in o.values())
        # generation
        if not (g1.ok and g2.ok):
            bad = g1 if not g1.ok else g2
            valueerror = "Cannot convert object of type" in (g1.stderr + g2.stderr)
            ctx.case((lang, canon(e1), canon(e2), "gen"), True)
            ctx.count("generation-rejected" + (":ValueError" if valueerror else ":validation"))
            if "model" in x:
                ctx.traces += 1
                if valueerror != (x["model"] == "err:gen"):
                    ctx.disagree("generation", replay, x["model"], f"nnvg rc={bad.rc}: {bad.stderr[-300:]}")
            if encodable and x["stream"] != "random" and not re.search(r"ValueError|allocator_type property", g1.stderr + g2.stderr):
                ctx.disagree("generation", replay, "generates", f"nnvg rc={bad.rc}: {bad.stderr[-300:]}")
            continue
        # did the generator see the option set the harness thinks it asked for?
        for g, e in ((g1, e1), (g2, e2)):
            if g.header_options is not None:
                want = {k: str(v).strip() for k, v in e.items()}
                if g.header_options != want:
                    ctx.disagree("effective-options", replay, want, g.header_options)
        names = {od.real_name(lang, k): k for k in set(e1) | set(e2)}
        for cname, r in x["results"].items():
            ctx.case((lang, canon(e1), canon(e2), cname), True)
            per_header = list(r["headers"].values())
            guard = per_header[0] if per_header else []
            uniform = all(h == guard for h in per_header)
            accepted = r["rc"] == 0
            ctx.count("compiled:" + ("accepted" if accepted else "rejected"))
            for k in diff:
                ctx.count(f"differs:{lang}:{k}")
            # -- tie: model vs compiler
            if "model" in x:
                ctx.traces += 1
                m = sorted(x["model"]) if isinstance(x["model"], list) else x["model"]
                if not uniform or m != guard:
                    ctx.disagree("guard:" + cname, replay, m, r["headers"])
                if isinstance(x["model"], list):
                    if (x["model"] and accepted) or (not x["model"] and not accepted and not r["other"]):
                        ctx.disagree("guard-rc:" + cname, replay, m, {"rc": r["rc"], "stderr": r["stderr"][:500]})
                # key-level prediction agrees with the text-level model whenever the side conditions hold (documented sets)
                if x["stream"] != "custom" and sorted(x["model_expected"]) != m:
                    ctx.disagree("expected-vs-together", replay, m, sorted(x["model_expected"]))
                for name, a, b in r["nums"]:
                    k = names.get(name)
                    if k in e1 and k in e2 and encs.get(pval(e1[k])) not in (None, "err:value"):
                        ctx.traces += 1
                        want = (int(encs[pval(e1[k])]) % (2 ** 32 if lang == "cpp" else 2 ** 200), int(encs[pval(e2[k])]))
                        if (a, b) != want:
                            ctx.disagree("numbers:" + cname, replay, want, (a, b))
            # -- failing-input search: the property on the implementation
            if x["stream"] == "custom":
                continue   # undocumented options: tie only, the property does not quantify over them
            named = {names.get(n, n) for _, n in guard} | {names.get(n, n) for h in per_header for _, n in h}
            rp = dict(replay, compiler=cname, cmd=" ".join(r["cmd"]), rc=r["rc"], diagnostics=r["headers"], other_errors=r["other"][:5],
                      stderr=r["stderr"][:1200])
            if diff:
                only1 = [k for k in diff if k not in e2]
                if accepted:
                    key = {"kind": "different-sets-accepted", "lang": lang, "options": diff}
                    if only1 == diff:
                        key["only_in"] = "support"
                    ctx.fail(key, "headers generated with different language options compile together", rp)
                elif not (named & set(diff)):
                    ctx.fail({"kind": "rejected-without-naming-the-option", "lang": lang, "options": diff},
                             "the build fails but no static-assertion diagnostic names a differing option", rp)
                elif not r["names_in_text"]:
                    ctx.fail({"kind": "diagnostic-text-lacks-name", "lang": lang}, "the diagnostic text does not show the option name", rp)
            else:
                if named:
                    ctx.fail({"kind": "identical-sets-rejected", "lang": lang, "options": sorted(named)},
                             "headers generated with identical language options are rejected by the option guard", rp)
                elif not accepted and strictly_compilable(lang, d, e1):
                    first = (r["other"] or ["?:0: ?"])[0]
                    ctx.fail({"kind": "identical-sets-do-not-compile", "lang": lang, "file": first.split(":")[0],
                              "error": first.split(": ", 1)[-1][:60]},
                             "headers generated with identical (CLI-reachable) language options do not compile together", rp)
                elif not accepted:
                    ctx.count("identical:other-errors-outside-guard")
                    lst = ctx.extra.setdefault("identical_sets_with_errors_outside_the_guard", [])
                    (lst if len(lst) < 12 else []).append(
                        {"lang": lang, "non_default": {k: v for k, v in e1.items() if d.defaults.get(k) != v}, "compiler": cname,
                         "first_error": (r["other"] or ["?"])[0][:120]})
    _mark(ctx, "compared")
    tu_stream(ctx, wb, drv, cases)
    _mark(ctx, "tu-stream")
    # samples
    for x in infos:
        if x["results"] and x["stream"] in ("single", "random") and len(ctx.samples) < 4 and ctx.rng.random() < 0.05:
            cname, r = next(iter(x["results"].items()))
            ctx.sample({"lang": x["lang"], "differs_in": differing_keys(x["eff1"], x["eff2"]), "compiler": cname, "rc": r["rc"],
                        "named_by_diagnostics": r["headers"].get("A_1_0"), "model": x.get("model")})
    ctx.extra["domain"] = {"corpus": ncorpus, "cases": len(cases),
                           "documented_values": {l: {e["key"]: len(e["values"]) for e in dom[l]["options"]} for l in od.LANGS}}
    ctx.exhaustive = False
    if os.environ.get("VERIF_DEBUG_DUMP"):   # development aid: all disagreements / failures, not only the first of each class
        pathlib.Path(os.environ["VERIF_DEBUG_DUMP"]).write_text(json.dumps(
            {"disagreements": ctx.disagreements, "failures": ctx.failures, "broken": ctx.broken}, indent=1, default=str))


def replay(ctx, path):
    r = json.loads(open(path).read()).get("replay", {})
    if "options_support" not in r:
        print("nothing to replay (no failing input in the file)")
        return 1
    dom = od.generate(write=False)
    wb = Workbench(ctx, dom)
    lang = r["lang"]
    d = wb.dom[lang]
    if r.get("tu"):
        X, tops, assign = r["options_support"], r["includes"], r["options_per_header"]
        wb.generate_all([(lang, q, False) for q in [X] + list(assign.values())])
        if not all(wb.get(lang, q).ok for q in [X] + list(assign.values())):
            print(json.dumps({"generation": "failed"}))
            ctx.cleanup()
            return 1
        mix, tu = build_tu(wb, lang, 0, X, tops, assign)
        bad = 0
        effs = [d.effective(q) for q in assign.values()]
        for cname, cmd in compilers_for(lang, d.effective(X), effs[-1], True):
            res = compile_tu(wb, lang, wb.get(lang, X).dir / "sup", mix, tu, list(assign), cname, cmd)
            v = tu_verdict(wb, lang, X, tops, assign, res)
            bad += 1 if v else 0
            print(json.dumps({"compiler": cname, "rc": res["rc"], "diagnostics": res["headers"], "property_holds": v is None,
                              "violation": v[0] if v else None}))
        ctx.cleanup()
        return 1 if bad else 0
    r1, r2 = r["options_support"], r["options_types"]
    wb.generate_all([(lang, r1, False), (lang, r2, False)])
    g1, g2 = wb.get(lang, r1), wb.get(lang, r2)
    e1, e2 = d.effective(r1), d.effective(r2)
    bad = 0
    if not (g1.ok and g2.ok):
        print(json.dumps({"generation": [g1.rc, g2.rc], "stderr": (g1.stderr + g2.stderr)[-600:]}))
        ctx.cleanup()
        return 1
    for cname, cmd in compilers_for(lang, e1, e2, True):
        res = compile_pair(wb, lang, g1, g2, cname, cmd)
        diff = differing_keys(e1, e2)
        named = {n for h in res["headers"].values() for _, n in h}
        ok = (res["rc"] != 0 and bool(named)) if diff else (res["rc"] == 0)
        bad += 0 if ok else 1
        print(json.dumps({"compiler": cname, "differs_in": diff, "rc": res["rc"], "diagnostics": res["headers"].get("A_1_0"),
                          "property_holds": ok}))
    ctx.cleanup()
    return 1 if bad else 0
