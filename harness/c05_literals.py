"""
C05 (constants) — every DSDL constant is rendered as a C / C++ / Python literal that denotes exactly the DSDL value.

Proof: lean/NunavutVerif/Properties/C05Lit.lean over lean/NunavutVerif/Model/CLiteral.lean (the rendering filters
transcribed; a typing / evaluation model of C11 / C++14 literal expressions on LP64; binary32 / binary64 rounding as
exact arithmetic; Python's repr(float) and int / int).  The data part of the model (true / false tokens, cast_format of
the C and C++ languages) is regenerated from properties.yaml by translate/cliteralcfg.py on every run (`prepare`).

Tie (driver `cliteral`):
 (a) the real `filter_constant_value` / `filter_literal` of nunavut.lang.c and nunavut.lang.cpp called in-process
     through real Language objects (c; c++14, c++17; overridden named_values / cast_format; the cast_format argument)
     and the real templates (nnvg runs: `#define X (lit)`, `static constexpr T X = lit;`, `X: T = expr`) against the
     model's rendering, character by character, on boundary-biased and random constants of every type;
 (b) Python itself (repr(float), int / int, float(int)) against the model's arithmetic;
 (c) gcc / clang -std=c11 and g++ / clang++ -std=c++14 probes printing type (via _Generic / templates), sizeof and
     value (floats as bit patterns) of rendered and hand-written literal expressions against the model's `evalc`;
     CPython's eval of the rendered Python expressions against `evalpy`.
Failing-input search: the compiled value / type of every rendered constant against the exact DSDL value (integers:
equal, right signedness, at most 64 bits; floats: the C type of the declared width, within one ulp of the exact
rational, binary64: correctly rounded), independent of the model.
"""
import fractions
import json
import math
import os
import re
import struct
import subprocess

import pydsdl

from . import common
from .common import enc, dec

Fr = fractions.Fraction
CM = pydsdl.PrimitiveType.CastMode
FLT_MAX = {16: Fr(65504), 32: Fr((2 ** 24 - 1) * 2 ** 104), 64: Fr((2 ** 53 - 1) * 2 ** 971)}


# ------------------------------------------------------------------------------------------------------------
# translator
# ------------------------------------------------------------------------------------------------------------

def prepare(ctx):
    """Regenerate Gen/CLiteralCfg.lean from the tree under check. Call before the Lean build."""
    from translate import cliteralcfg
    try:
        changed = cliteralcfg.main(common.REPO)
        ctx.extra["cliteralcfg_rewritten"] = bool(changed)
    except cliteralcfg.CannotTranslate as e:
        ctx.broken.append({"kind": "translator", "translator": "translate/cliteralcfg.py", "error": str(e)[:500],
                           "meaning": "the language configuration read by filter_literal can no longer be expressed in the model"})


# ------------------------------------------------------------------------------------------------------------
# constants
# ------------------------------------------------------------------------------------------------------------

def dsdl_type(ty):
    k, w = ty[0], int(ty[1:] or 0)
    if k == "b":
        return pydsdl.BooleanType()
    if k == "u":
        return pydsdl.UnsignedIntegerType(w, CM.SATURATED if w % 2 else CM.TRUNCATED)
    if k == "s":
        return pydsdl.SignedIntegerType(w, CM.SATURATED)
    if k == "f":
        return pydsdl.FloatType(w, CM.SATURATED)
    raise ValueError(ty)


def make_constant(ty, v):
    t = dsdl_type(ty)
    if ty == "b":
        return pydsdl.Constant(t, "X", pydsdl.Boolean(bool(v)))
    return pydsdl.Constant(t, "X", pydsdl.Rational(Fr(v)))


def val_token(v):
    if isinstance(v, bool):
        return "T" if v else "F"
    v = Fr(v)
    return f"{v.numerator}/{v.denominator}"


def int_values(rng, unsigned, w, n_random):
    lo, hi = (0, 2 ** w - 1) if unsigned else (-(2 ** (w - 1)), 2 ** (w - 1) - 1)
    vals = {lo, hi, lo + 1, hi - 1, 0, 1, -1, 2, -2, 9, 10, -10, 99, 100}
    for k in range(0, w + 1):
        for d in (-1, 0, 1):
            vals.add(2 ** k + d)
            vals.add(-(2 ** k) + d)
    for k in range(1, 20):
        vals.add(10 ** k)
        vals.add(10 ** k - 1)
        vals.add(-(10 ** k))
    vals = sorted(v for v in vals if lo <= v <= hi)
    if len(vals) > 40:
        keep = {lo, hi, lo + 1, hi - 1, 0, 1, -1}
        rest = [v for v in vals if v not in keep]
        vals = sorted(v for v in keep if lo <= v <= hi) + rng.sample(rest, 33)
    out = list(vals)
    for _ in range(n_random):
        out.append(rng.randint(lo, hi) if rng.random() < 0.5 else max(lo, min(hi, rng.choice([-1, 1]) * rng.getrandbits(rng.randint(1, w)))))
    return out


def float_values(rng, w, n_random):
    """Fractions inside the range of float<w>: exact / inexact operands, huge terms, subnormals, near-midpoint cases."""
    mx = FLT_MAX[w]
    mant, emin = {16: (11, -24), 32: (24, -149), 64: (53, -1074)}[w]
    vals = [Fr(0), Fr(1), Fr(-1), Fr(3), Fr(-3), Fr(355, 113), Fr(-355, 113), Fr(1, 3), Fr(2, 3), Fr(1, 10), Fr(-1, 10), Fr(22, 7),
            mx, -mx, mx - 1, Fr(1, 2), Fr(1, 2 ** 10), Fr(5, 10), Fr(1, 7), Fr(100, 3), Fr(123456789, 1000), Fr(1, 1000), Fr(1, 10000),
            Fr(1, 100000), Fr(123, 10 ** 7), Fr(10 ** 15), Fr(10 ** 16), Fr(10 ** 17), Fr(10 ** 15, 3), Fr(10 ** 16 + 1), Fr(10 ** 22), Fr(10 ** 23),
            Fr(2 ** 53), Fr(2 ** 53 + 1), Fr(2 ** 53 + 2), Fr(2 ** 53 - 1), Fr(2 ** 54 + 2), Fr(2 ** 64), Fr(2 ** 64 + 1), Fr(-(2 ** 63)),
            Fr(2 ** emin), Fr(1, 2 ** (-emin)), Fr(3, 2 ** (-emin + 1)), Fr(1, 2 ** (-emin + 1)), Fr(1, 2 ** (-emin + 2)), Fr(-1, 2 ** (-emin + 1)),
            Fr(1, 10 ** 400), Fr(-1, 10 ** 400), Fr(10 ** 400 + 1, 10 ** 399), Fr(7, 10 ** 330), Fr(5, 10 ** 324), Fr(1, 10 ** 320), Fr(1, 10 ** 310),
            Fr(2 ** 60 + 2 ** 36 + 1, 2 ** 60), Fr(2251799947902975, 2251799813685247), Fr(2 ** 24 + 1, 2 ** 24), Fr(2 ** 25 + 3, 2 ** 25),
            Fr(2 ** 1022), Fr(2 ** 1023 - 2 ** 970), Fr(2 ** 1023), Fr(2 ** 1023 + 2 ** 971), Fr(1, 2 ** 1022), Fr(1, 2 ** 1023), Fr(2 ** 1023 - 1, 2 ** 1023),
            Fr(1, 2 ** 1023 - 1), Fr(3, 2 ** 1023 - 2 ** 970), Fr(10 ** 308), Fr(17976931348623157, 10 ** 16) * 10 ** 308, Fr(1, 3 * 2 ** 1070)]
    for k in (1, 5, 10, 20, 22, 23, 30, 38, 39, 45, 100, 200, 300, 308, 323, 324):
        vals += [Fr(10 ** k), Fr(1, 10 ** k), Fr(10 ** k + 1, 3), Fr(-7, 10 ** k), Fr(3 ** k, 2 ** k), Fr(2 ** k + 1, 5 ** min(k, 120))]
    for _ in range(n_random):
        r = rng.random()
        if r < 0.25:      # both operands exact in binary64
            n = rng.getrandbits(rng.randint(1, 53)) << rng.randint(0, 60)
            d = max(1, rng.getrandbits(rng.randint(1, 53))) << rng.randint(0, 60)
        elif r < 0.45:    # decimal text like DSDL authors write
            digs = rng.randint(1, 20)
            n = rng.randint(1, 10 ** digs)
            e = rng.randint(-340, 310)
            n, d = (n * 10 ** e, 1) if e >= 0 else (n, 10 ** -e)
        elif r < 0.65:    # huge inexact operands
            n = rng.getrandbits(rng.randint(54, 1200)) | 1
            d = rng.getrandbits(rng.randint(1, 1200)) | 1
        elif r < 0.8:     # around the smallest magnitudes
            n = rng.randint(1, 2 ** 12)
            d = 2 ** rng.randint(-emin - 14, -emin + 3) + rng.choice([0, 0, 1, 3])
        elif r < 0.9:     # close to a binary32 midpoint: 1 + (2k+1) 2^-24 + tiny
            k = rng.randint(0, 2 ** 20)
            base = Fr(2 ** 24 + 2 * k + 1, 2 ** 24)
            q = base + rng.choice([0, 1, -1]) * Fr(1, rng.choice([2 ** 60, 2 ** 80, 3 ** 50, 10 ** 30]))
            n, d = q.numerator, q.denominator
        else:
            n = rng.randint(1, 10 ** 6)
            d = rng.randint(1, 10 ** 6)
        q = Fr(n, d) * rng.choice([1, 1, -1])
        vals.append(q)
    out = []
    for q in vals:
        if abs(q) <= mx:
            out.append(q)
        else:           # scale into the range of the type (keeps the shape of the operands)
            s = q / (abs(q) / mx) if q else q
            out.append(Fr(s.numerator // 3, s.denominator) if s.numerator else s)
    return out


def gen_cases(rng, quick):
    """(ty, value): every primitive kind and width; boundary-biased + random."""
    cases = [("b", True), ("b", False)]
    widths = list(range(1, 65))
    for w in widths:
        nr = (3 if quick else 40)
        for unsigned in (True, False):
            if not unsigned and w < 2:
                continue
            vs = int_values(rng, unsigned, w, nr)
            if quick and w not in (1, 2, 7, 8, 15, 16, 17, 31, 32, 33, 63, 64):
                vs = vs[:7] + rng.sample(vs[7:], min(6, len(vs) - 7))
            cases += [(("u" if unsigned else "s") + str(w), v) for v in vs]
    for c in range(0, 128):      # uint8 X = 'c'
        cases.append(("u8", c))
    for w in (16, 32, 64):
        cases += [("f" + str(w), q) for q in float_values(rng, w, 120 if quick else 4000)]
    return cases


# ------------------------------------------------------------------------------------------------------------
# the real code
# ------------------------------------------------------------------------------------------------------------

def build_language(name, options=None, named_values=None):
    from nunavut.lang import LanguageContextBuilder
    from nunavut.lang._language import Language
    b = LanguageContextBuilder(include_experimental_languages=True).set_target_language(name)
    if options:
        b.set_target_language_configuration_override(Language.WKCV_LANGUAGE_OPTIONS, options)
    if named_values:
        b.set_target_language_configuration_override(Language.WKCV_NAMED_VALUES, named_values)
    return b.create().get_target_language()


def impl_render(fn, *args, **kw):
    try:
        return "ok " + enc(fn(*args, **kw))
    except OverflowError:
        return "err:overflow"
    except ZeroDivisionError:
        return "err:zero-division"
    except ValueError as e:
        return "err:not-a-literal-type" if "Cannot construct a literal" in str(e) else "exc:ValueError:" + str(e)[:80]
    except RuntimeError as e:
        s = str(e)
        if "cast_format" in s:
            return "err:cast-format-missing"
        if "larger than 64 bits" in s:
            return "err:too-wide"
        return "exc:RuntimeError:" + s[:80]
    except Exception as e:  # noqa
        return "exc:" + type(e).__name__ + ":" + str(e)[:80]


def fmt_pieces(template):
    import string
    out = []
    for lit, field, spec, conv in string.Formatter().parse(template):
        if lit:
            out.append("l" + enc(lit))
        if field == "type":
            out.append("t")
        elif field == "value":
            out.append("v")
        elif field is not None:
            raise ValueError(template)
    return ",".join(out) if out else "l-"


# ------------------------------------------------------------------------------------------------------------
# reference arithmetic (independent of the model): exact rounding with fractions
# ------------------------------------------------------------------------------------------------------------

def rne_bits(q, w):
    """Bit pattern of the non-negative rational q rounded to nearest-even into binary<w> (inf beyond the range)."""
    prec, bias, emax = {32: (24, 149, 253), 64: (53, 1074, 2045)}[w]
    if q == 0:
        return 0
    s = q * 2 ** bias                                   # value in units of the smallest subnormal
    e = s.numerator.bit_length() - s.denominator.bit_length()
    if Fr(2) ** e > s:
        e -= 1                                          # 2^e <= s < 2^(e+1)
    E = max(0, e - (prec - 1))
    t = s / 2 ** E
    m = t.numerator // t.denominator
    rem = t - m
    if rem > Fr(1, 2) or (rem == Fr(1, 2) and m % 2 == 1):
        m += 1
    bits = E * 2 ** (prec - 1) + m
    return min(bits, (emax + 2) * 2 ** (prec - 1))


def bits_value(bits, w):
    """Exact value (Fraction) of a finite non-negative pattern."""
    prec, bias = {32: (24, 149), 64: (53, 1074)}[w]
    E, m = divmod(bits, 2 ** (prec - 1))
    if E:
        m += 2 ** (prec - 1)
        E -= 1
    return Fr(m * 2 ** E, 2 ** bias)


def ulp(q, w):
    prec, bias = {16: (11, 24), 32: (24, 149), 64: (53, 1074)}[w]
    s = abs(q) * 2 ** bias
    if s == 0:
        return Fr(1, 2 ** bias)
    e = s.numerator.bit_length() - s.denominator.bit_length()
    if Fr(2) ** e > s:
        e -= 1
    return Fr(2) ** max(0, e - (prec - 1)) / 2 ** bias


# ------------------------------------------------------------------------------------------------------------
# compiled probes
# ------------------------------------------------------------------------------------------------------------

C_PROLOGUE = r"""
#include <stdio.h>
#include <stdbool.h>
#include <stdint.h>
#include <string.h>
#include <stddef.h>
static void p_s(long long v) { printf("%lld", v); }
static void p_u(unsigned long long v) { printf("%llu", v); }
static void p_f(float v) { uint32_t b; memcpy(&b, &v, 4); printf("%x", (unsigned) b); }
static void p_d(double v) { uint64_t b; memcpy(&b, &v, 8); printf("%llx", (unsigned long long) b); }
static void p_o() { printf("?"); }
#define TY(x) _Generic((x), _Bool: "bool", int: "int", unsigned int: "uint", long: "long", unsigned long: "ulong", \
    long long: "llong", unsigned long long: "ullong", float: "float", double: "double", default: "other")
#define PV(x) _Generic((x), _Bool: p_s, int: p_s, long: p_s, long long: p_s, unsigned int: p_u, unsigned long: p_u, \
    unsigned long long: p_u, float: p_f, double: p_d, default: p_o)(x)
#define P(i, x) do { printf("%d %s %zu ", i, TY(x), sizeof(x)); PV(x); putchar('\n'); } while (0)
int main(void) {
"""

CPP_PROLOGUE = r"""
#include <cstdio>
#include <cstring>
#include <cstdint>
#include <type_traits>
template <class T> struct TN { static const char* n() { return "other"; } };
#define TNAME(T, S) template <> struct TN<T> { static const char* n() { return S; } };
TNAME(bool, "bool") TNAME(int, "int") TNAME(unsigned int, "uint") TNAME(long, "long") TNAME(unsigned long, "ulong")
TNAME(long long, "llong") TNAME(unsigned long long, "ullong") TNAME(float, "float") TNAME(double, "double")
template <class T> void pv(T v) {
    if (std::is_same<T, float>::value) { float f = static_cast<float>(v); std::uint32_t b; std::memcpy(&b, &f, 4); std::printf("%x", static_cast<unsigned>(b)); }
    else if (std::is_same<T, double>::value) { double d = static_cast<double>(v); std::uint64_t b; std::memcpy(&b, &d, 8); std::printf("%llx", static_cast<unsigned long long>(b)); }
    else if (std::is_signed<T>::value) std::printf("%lld", static_cast<long long>(v));
    else std::printf("%llu", static_cast<unsigned long long>(v));
}
#define P(i, ...) { CE auto v = (__VA_ARGS__); std::printf("%d %s %zu ", i, TN<std::remove_cv<decltype(v)>::type>::n(), sizeof(v)); pv(v); std::puts(""); }
int main() {
"""

COMPILERS = {
    "c11": [("gcc", ["gcc", "-std=c11"]), ("clang", ["clang", "-std=c11"])],
    "cpp14": [("g++", ["g++", "-std=c++14"]), ("clang++", ["clang++", "-std=c++14"])],
}


def probe(ctx, dialect, tool, literals, constexpr, tag):
    """
    Compile and run one translation unit printing type / sizeof / value of every literal expression.
    -> (answers: list of (ctype, size, value:int) or None, diag: set of indices with a compiler diagnostic, log)
    """
    name, cmd = tool
    d = ctx.scratch / f"probe_{tag}_{name.replace('+', 'p')}"
    d.mkdir(parents=True, exist_ok=True)
    src = d / ("p.c" if dialect == "c11" else "p.cpp")
    lines = (C_PROLOGUE if dialect == "c11" else CPP_PROLOGUE.replace("CE", "constexpr" if constexpr else "")).split("\n")
    line_of = {}
    for i, lit in enumerate(literals):
        # gcc attributes a diagnostic inside a macro argument to the line of `P(`, of the literal, or of `);`
        for k in (1, 2, 3):
            line_of[len(lines) + k] = i
        lines.append(f"P({i},")
        lines.append(lit)
        lines.append(");")
    lines += ["return 0;", "}"]
    src.write_text("\n".join(lines) + "\n")
    exe = d / "p"
    try:
        p = subprocess.run(cmd + ["-O0", "-Wall", "-Wextra", "-pedantic", "-o", str(exe), str(src)], capture_output=True, text=True, timeout=600)
    except subprocess.TimeoutExpired:
        return None, set(), "compiler timed out"
    diag = set()
    for m in re.finditer(r"^[^\s:]+:(\d+):\d+: (warning|error)", p.stderr, re.M):
        ln = int(m.group(1))
        if ln in line_of:
            diag.add(line_of[ln])
    if p.returncode != 0:
        return None, diag, p.stderr[-3000:]
    try:
        r = subprocess.run([str(exe)], capture_output=True, text=True, timeout=120)
    except subprocess.TimeoutExpired:
        return None, diag, "probe timed out"
    ans = [None] * len(literals)
    for ln in r.stdout.split("\n"):
        t = ln.split()
        if len(t) == 4:
            v = int(t[3], 16) if t[1] in ("float", "double") else (int(t[3]) if t[3] != "?" else None)
            ans[int(t[0])] = (t[1], int(t[2]), v)
    return ans, diag, p.stderr[-3000:]


def parse_evalc(a):
    """driver answer -> (ctype, value) | ('err', kind)"""
    t = a.split()
    if t[0] == "int":
        return (t[1], int(t[2]))
    if t[0] == "flt":
        return (t[1], int(t[2], 16))
    return ("err", a)


SIZES = {"bool": 1, "int": 4, "uint": 4, "long": 8, "ulong": 8, "llong": 8, "ullong": 8, "float": 4, "double": 8}
SIGNED = {"int", "long", "llong"}


# ------------------------------------------------------------------------------------------------------------
# the property's own predicate on what the compiler observed
# ------------------------------------------------------------------------------------------------------------

def judge_constant(ty, v, lang, obs, diag):
    """None if the compiled constant carries the DSDL value in a proper type, else (cause, text)."""
    if obs is None:
        return ("no-observation", "the probe printed nothing for this constant")
    ctype, size, val = obs
    if ty == "b":
        if val != int(bool(v)):
            return ("bool-value", f"value {val}")
        return None
    if ty[0] in "us":
        v = int(v)
        special = "int64-min-literal" if (ty == "s64" and v == -2 ** 63) else None
        if ctype not in SIZES or ctype in ("float", "double", "bool") or size > 8:
            return (special or "int-type", f"type {ctype} of {size} bytes is not a standard integer type of at most 64 bits")
        if val != v:
            return (special or "int-value", f"value {val}")
        if (ctype in SIGNED) != (ty[0] == "s"):
            return (special or "int-signedness", f"type {ctype}")
        if diag:
            return (special or "int-diagnostic", "the compiler diagnoses the literal")
        return None
    w = int(ty[1:])
    q = Fr(v)
    want_type = "double" if w == 64 else "float"
    cw = 64 if want_type == "double" else 32
    if ctype != want_type:
        return ("float-type", f"type {ctype}, expected {want_type}")
    sign = val >> (cw - 1)
    mag = val & (2 ** (cw - 1) - 1)
    expo_all_ones = (mag >> ({32: 23, 64: 52}[cw])) == {32: 255, 64: 2047}[cw]
    if expo_all_ones:
        return ("float-constant-literal-range", "the constant is not finite")
    got = bits_value(mag, cw) * (-1 if sign else 1)
    if (q < 0 and not sign and got != 0) or (q > 0 and sign):
        return ("float-value", f"sign of {float(got)!r}")
    if abs(got - q) > ulp(q, w if w != 16 else 32) or (cw == 64 and mag != rne_bits(abs(q), 64)):
        cause = "float-constant-literal-range" if (got == 0) != (rne_bits(abs(q), cw) == 0) else "float-value"
        return (cause, f"{float(got)!r} (bits {val:x}) is not the exact value {str(q)[:60]} rounded to {want_type}")
    if diag:
        return ("float-diagnostic", "the compiler diagnoses the literal")
    return None


# ------------------------------------------------------------------------------------------------------------
# streams
# ------------------------------------------------------------------------------------------------------------

def python_arithmetic_stream(ctx, drv):
    """Python's repr(float), int / int, float(int) against the model (what _float_literal_expression relies on)."""
    rng = ctx.rng
    nrep = 3000 if ctx.quick else 120000
    pats = [0, 1, 2, 3, 0x000fffffffffffff, 0x0010000000000000, 0x0010000000000001, 0x7fefffffffffffff, 0x7fe0000000000000,
            0x3ff0000000000000, 0x3ff0000000000001, 0x3fefffffffffffff, 0x4340000000000000, 0x433fffffffffffff, 0x4341c37937e08000,
            0x3f1a36e2eb1c432d, 0x3ee4f8b588e368f1, 0x3eb0c6f7a0b5ed8d, 0x4202a05f20000000, 0x44b52d02c7e14af6, 0x0000000000000200]
    for k in range(-330, 310, 7):
        try:
            pats.append(struct.unpack("<Q", struct.pack("<d", float(f"1e{k}")))[0])
        except OverflowError:
            pass
    for e in range(0, 2047, 37):
        pats += [e << 52, (e << 52) | 1, (e << 52) | (2 ** 52 - 1)]
    while len(pats) < nrep:
        r = rng.random()
        if r < 0.5:
            b = rng.getrandbits(63)
        elif r < 0.7:
            b = struct.unpack("<Q", struct.pack("<d", rng.randint(1, 10 ** rng.randint(1, 17)) / 10 ** rng.randint(0, 20)))[0]
        elif r < 0.85:
            b = (rng.randint(0, 2046) << 52) | rng.choice([0, 1, 2 ** 52 - 1, 2 ** 51, rng.getrandbits(52)])
        else:
            b = rng.getrandbits(rng.randint(1, 52))
        if (b >> 52) & 0x7FF != 0x7FF:
            pats.append(b | (rng.getrandbits(1) << 63))
    reqs = [f"repr {b:x}" for b in pats] + [f"short {b:x}" for b in pats]
    ans = drv.ask(reqs, timeout=1800)
    for b, a, s in zip(pats, ans[:len(pats)], ans[len(pats):]):
        real = repr(struct.unpack("<d", struct.pack("<Q", b))[0])
        ctx.traces += 1
        ctx.case(("repr", b), True)
        if dec(a) != real:
            ctx.disagree("python-repr", f"{b:x}", dec(a), real)
        if s != "1":
            ctx.count("repr:shortest-search-failed")
            ctx.disagree("python-repr-shortest-search", f"{b:x}", "no digit string of <= 17 digits reads back", real)
    ctx.count("repr-doubles-compared", len(pats))
    # int / int and the exactness test
    n = 1500 if ctx.quick else 40000
    pairs, ints = [], []
    for _ in range(n):
        r = rng.random()
        if r < 0.3:
            a, b = rng.getrandbits(rng.randint(1, 1100)), rng.getrandbits(rng.randint(1, 1100)) or 1
        elif r < 0.6:
            a, b = rng.randint(0, 10 ** rng.randint(0, 30)), 10 ** rng.randint(0, 340)
        elif r < 0.8:     # ties and near ties
            k = rng.randint(53, 200)
            a, b = (rng.getrandbits(53) | 2 ** 52) * 2 ** (k - 52) + 2 ** (k - 53) + rng.choice([0, 0, 1, -1]), 2 ** rng.randint(0, 1200)
        else:
            a, b = rng.getrandbits(rng.randint(1000, 1100)), rng.getrandbits(rng.randint(1, 80)) or 1
        if rng.random() < 0.3:
            a = -a
        if rng.random() < 0.1:
            b = -b
        pairs.append((a, b))
    pairs += [(1, 0), (0, 5), (2 ** 1024, 1), (2 ** 1024 - 2 ** 970, 1), (2 ** 1024 - 2 ** 970 - 1, 1), (1, 2 ** 1074), (1, 2 ** 1075), (3, 2 ** 1075), (1, 2 ** 1076)]
    for _ in range(n):
        r = rng.random()
        if r < 0.4:
            x = rng.getrandbits(rng.randint(1, 53)) << rng.randint(0, 1000)
        elif r < 0.7:
            x = rng.getrandbits(rng.randint(54, 1100))
        else:
            x = 2 ** rng.randint(0, 1100) + rng.choice([-1, 0, 1])
        ints.append(-x if rng.random() < 0.3 else x)
    ints += [0, 1, -1, 2 ** 53, 2 ** 53 + 1, 2 ** 1023, 2 ** 1023 - 1, 2 ** 1023 - 2 ** 970, -(2 ** 1023), 2 ** 1022, 10 ** 22, 10 ** 23]
    ans = drv.ask([f"div {a} {b}" for a, b in pairs] + [f"isexact {x}" for x in ints], timeout=1800)
    for (a, b), got in zip(pairs, ans):
        try:
            real = "%x" % struct.unpack("<Q", struct.pack("<d", a / b))[0]
        except OverflowError:
            real = "err:overflow"
        except ZeroDivisionError:
            real = "err:zero-division"
        ctx.traces += 1
        ctx.case(("div", a, b), True)
        if got != real:
            ctx.disagree("python-int-true-division", [str(a)[:400], str(b)[:400]], got, real)
    for x, got in zip(ints, ans[len(pairs):]):
        real = "1" if (abs(x) < 2 ** 1023 and int(float(x)) == x) else "0"
        ctx.traces += 1
        ctx.case(("isexact", x), True)
        if got != real:
            ctx.disagree("python-float-of-int-exactness", str(x)[:400], got, real)
    # the rounding function itself against the independent Fraction reference, both formats
    rat = []
    for _ in range(n):
        r = rng.random()
        if r < 0.4:
            a, b = rng.getrandbits(rng.randint(1, 300)) + 1, rng.getrandbits(rng.randint(1, 300)) + 1
        elif r < 0.7:     # around binary32 / binary64 midpoints
            m = rng.getrandbits(24) | 2 ** 23
            a, b = (2 * m + 1) * 2 ** 40 + rng.choice([0, 0, 1, -1]), 2 ** rng.randint(0, 260)
        else:
            a, b = rng.randint(1, 10 ** 9), 2 ** rng.randint(100, 1200) + rng.randint(0, 5)
        rat.append((a, b))
    ans = drv.ask([f"rne 32 {a} {b}" for a, b in rat] + [f"rne 64 {a} {b}" for a, b in rat], timeout=1800)
    for i, got in enumerate(ans):
        a, b = rat[i % len(rat)]
        w = 32 if i < len(rat) else 64
        real = "%x" % rne_bits(Fr(a, b), w)
        ctx.traces += 1
        if got != real:
            ctx.disagree("round-to-nearest-even", [w, str(a)[:400], str(b)[:400]], got, real)
    ctx.count("arithmetic-cases", len(pairs) + len(ints) + 2 * len(rat))


def render_stream(ctx, drv, cases):
    """The real filters through real Language objects against the model's rendering. -> {lang: [rendered or None]}"""
    import nunavut.lang.c as LC
    import nunavut.lang.cpp as LCPP
    langs = [("c", "c", build_language("c"), LC), ("cpp14", "cpp", build_language("cpp", {"std": "c++14"}), LCPP),
             ("cpp17", "cpp", build_language("cpp", {"std": "c++17"}), LCPP)]
    rendered = {}
    consts = [make_constant(ty, v) for ty, v in cases]
    for lname, cfg, lang, mod in langs:
        reqs = [f"lit {cfg} {ty} {val_token(v)}" for ty, v in cases]
        model = drv.ask(reqs, timeout=1800)
        out = []
        for (ty, v), c, m in zip(cases, consts, model):
            real = impl_render(mod.filter_constant_value, lang, c)
            ctx.traces += 1
            ctx.case((lname, ty, str(v)), True)
            ctx.count(f"render:{lname}:{ty[0]}")
            if m != real:
                ctx.disagree("filter_constant_value:" + lname, {"type": ty, "value": str(v)[:600]}, dec(m[3:]) if m.startswith("ok ") else m,
                             dec(real[3:]) if real.startswith("ok ") else real)
            out.append(dec(real[3:]) if real.startswith("ok ") else None)
            if real.startswith("ok ") and ty[0] == "f":
                s = dec(real[3:])
                ctx.count("render:float-quotient" if " / " in s else ("render:float-integer" if re.search(r"[( ]-?\d+\.0\)", s) and "e" not in s else "render:float-decimal"))
        rendered[lname] = out
    # the hypothesis of C05_float_fallback_literal_partial on every constant that takes the decimal fallback
    fb = []
    for (ty, v), r in zip(cases, rendered["c"]):
        if ty[0] == "f" and r is not None and " / " not in r and not re.search(r"\) -?\d+\.0\)$", r):
            q = Fr(v)
            try:
                fb.append(struct.unpack("<Q", struct.pack("<d", q.numerator / q.denominator))[0])
            except OverflowError:
                pass
    for b, a in zip(fb, drv.ask([f"short {b:x}" for b in fb], timeout=1800)):
        ctx.traces += 1
        ctx.count("fallback:repr-reads-back-evaluated")
        if a != "1":
            ctx.disagree("fallback-hypothesis:reprReadsBack", f"{b:x}", "false", "the decimal text does not read back in the model")
    # overridden configuration, the cast_format argument, values outside what a Constant can hold, error branches
    rng = ctx.rng
    sub = rng.sample(cases, min(len(cases), 150 if ctx.quick else 1500))
    overrides = [("NUNAVUT_TRUE", "NUNAVUT_FALSE", "({type})({value})"), ("1", "0", "{value}"), ("yes", "no", "C<{type}>[{value}]{{}}{type}")]
    for tt, ff, cf in overrides:
        for lname, mod in (("c", LC), ("cpp", LCPP)):
            lang = build_language(lname, {"cast_format": cf}, {"true": tt, "false": ff})
            cfg = f"x:{enc(tt)}:{enc(ff)}:{fmt_pieces(cf)}"
            model = drv.ask([f"lit {cfg} {ty} {val_token(v)}" for ty, v in sub])
            for (ty, v), m in zip(sub, model):
                real = impl_render(mod.filter_constant_value, lang, make_constant(ty, v))
                ctx.traces += 1
                if m != real:
                    ctx.disagree("filter_constant_value:override", {"lang": lname, "cast_format": cf, "type": ty, "value": str(v)[:600]}, m, real)
            # the explicit cast_format argument of filter_literal wins over the option
            lang0 = build_language(lname)
            for ty, v in sub[:40]:
                c = make_constant(ty, v)
                real = impl_render(mod.filter_literal, lang0, c.value.native_value, c.data_type, cf)
                base = "c" if lname == "c" else "cpp"
                t0 = "true" if lname else ""
                m = drv.ask([f"lit x:{enc('true')}:{enc('false')}:{fmt_pieces(cf)} {ty} {val_token(v)}"])[0]
                ctx.traces += 1
                if m != real:
                    ctx.disagree("filter_literal:cast_format-argument", {"lang": lname, "cast_format": cf, "type": ty, "value": str(v)[:600]}, m, real)
    ctx.count("render:override-cases", len(sub) * len(overrides) * 2)
    # raw filter_literal calls: (value, type) pairs PyDSDL would not build, and the raising branches
    lang = build_language("c")
    raw = []
    for _ in range(100 if ctx.quick else 2000):
        ty = rng.choice(["b", "u8", "s8", "u16", "s17", "u32", "s33", "u64", "s64", "f16", "f32", "f64", "o"])
        r = rng.random()
        if r < 0.2:
            v = rng.random() < 0.5
        elif r < 0.6:
            v = Fr(rng.randint(-10 ** rng.randint(0, 40), 10 ** rng.randint(0, 40)), rng.randint(1, 10 ** rng.randint(0, 40)))
        elif r < 0.8:
            v = Fr(rng.choice([-1, 1]) * rng.getrandbits(rng.randint(1, 70)))
        else:
            v = Fr(rng.choice([-1, 1]) * (10 ** rng.randint(300, 420) + rng.randint(0, 9)), rng.randint(1, 10 ** 6))   # OverflowError region
        raw.append((ty, v))
    raw += [("s64", Fr(-2 ** 63)), ("u64", Fr(-2 ** 63)), ("s33", Fr(-2 ** 63)), ("s32", Fr(-2 ** 63)), ("f64", Fr(2 ** 1024)), ("f64", Fr(2 ** 1024 - 2 ** 970 - 1)),
            ("f32", Fr(2 ** 1024 - 2 ** 970, 1)), ("f64", Fr(-10 ** 400, 7)), ("o", Fr(1)), ("o", True), ("f32", True), ("u8", False), ("b", Fr(0)), ("b", Fr(1, 3))]
    model = drv.ask([f"lit c {ty} {val_token(v)}" for ty, v in raw])
    for (ty, v), m in zip(raw, model):
        t = pydsdl.VoidType(3) if ty == "o" else dsdl_type(ty)
        real = impl_render(LC.filter_literal, lang, v, t)
        ctx.traces += 1
        ctx.count("render:raw:" + (real if real.startswith("err") else "ok"))
        if m != real:
            ctx.disagree("filter_literal:raw", {"type": ty, "value": str(v)[:600]}, m, real)

    class Wide(pydsdl.FloatType):           # what _CFit.get_best_fit refuses
        def __init__(self):
            super().__init__(64, CM.SATURATED)
            self._bit_length = 128
    real = impl_render(LC.filter_literal, lang, Fr(1, 3), Wide())
    m = drv.ask(["lit c f128 1/3"])[0]
    ctx.traces += 1
    if m != real:
        ctx.disagree("filter_literal:too-wide", "float of 128 bits", m, real)
    # cast_format option that is not a string
    try:
        langn = build_language("c", {"cast_format": 5})
        real = impl_render(LC.filter_literal, langn, Fr(1), dsdl_type("u8"))
        m = drv.ask([f"lit x:{enc('true')}:{enc('false')}:N u8 1/1"])[0]
        ctx.traces += 1
        if m != real:
            ctx.disagree("filter_literal:cast_format-missing", "cast_format: 5", m, real)
    except Exception as e:  # noqa  (the configuration layer may refuse the override: nothing to compare then)
        ctx.count("render:cast-format-override-refused")
    return rendered


TEMPLATE_RE = {
    "c": re.compile(r"^#define \w+?_\d+_\d+_(K\d+) (.*?)\s*$"),
    "cpp": re.compile(r"^\s*static constexpr [\w:]+ (K\d+) = (.*);\s*$"),
    "py": re.compile(r"^    (K\d+):\s+\w+ = (.*)$"),
}


def dsdl_text_of(ty, v):
    name = {"b": "bool", "u": "uint", "s": "int", "f": "float"}[ty[0]] + ty[1:]
    if ty == "b":
        return name, "true" if v else "false"
    v = Fr(v)
    return name, (str(v.numerator) if v.denominator == 1 else f"{v.numerator}/{v.denominator}")


def template_stream(ctx, drv, cases, tally):
    """nnvg of the tree under check on a namespace of constants: the lines the templates emit against the model."""
    rng = ctx.rng
    pick = [c for c in cases if c[0] == "b"] + rng.sample([c for c in cases if c[0][0] in "us"], 60 if ctx.quick else 400) \
        + rng.sample([c for c in cases if c[0][0] == "f"], 60 if ctx.quick else 400) + [("s64", -2 ** 63), ("u64", 2 ** 64 - 1), ("f64", Fr(5, 10 ** 324))]
    root = ctx.scratch / "tpl" / "vlit"
    root.mkdir(parents=True, exist_ok=True)
    per = 40
    texts = {}
    extra = ["uint8 C0 = 'a'", "uint8 C1 = '~'", "uint8 C2 = ' '", "float64 D0 = 5e-324", "float64 D1 = 1.7976931348623157e308", "float32 D2 = 0.1",
             "float16 D3 = -65504.0", "float64 D4 = 1e-320", "float64 D5 = -0.000123", "int64 D6 = -0x8000000000000000", "uint64 D7 = 0xFFFFFFFFFFFFFFFF"]
    for i in range(0, len(pick), per):
        lines = []
        for j, (ty, v) in enumerate(pick[i:i + per]):
            name, txt = dsdl_text_of(ty, v)
            lines.append(f"{name} K{i + j} = {txt}")
        if i == 0:
            lines += [re.sub(r" [CD](\d+) ", lambda m: f" K{90000 + int(m.group(1)) + (100 if ' D' in m.group(0) else 0)} ", e) for e in extra]
        texts[f"T{i // per}.1.0.dsdl"] = "\n".join(lines) + "\n@sealed\n"
    for fn, t in texts.items():
        (root / fn).write_text(t)
    types = pydsdl.read_namespace(str(root), [])
    consts = {}
    for t in types:
        for c in t.constants:
            consts[c.name] = c
    env = dict(os.environ, PYTHONPATH=str(common.REPO / "src"), PYTHONDONTWRITEBYTECODE="1")
    found = {}
    for lang in ("c", "cpp", "py"):
        out = ctx.scratch / "tpl" / ("out_" + lang)
        p = subprocess.run([common.PY, "-m", "nunavut", "--experimental-languages", "--target-language", lang, "--outdir", str(out), str(root)],
                           capture_output=True, text=True, timeout=600, env=env)
        if p.returncode != 0:
            ctx.disagree("template-stream:nnvg", lang, "generation succeeds", (p.stdout + p.stderr)[-1500:])
            continue
        got = {}
        for f in sorted(out.rglob("T*_1_0.*")):
            for ln in f.read_text().split("\n"):
                m = TEMPLATE_RE[lang].match(ln)
                if m:
                    got[m.group(1)] = m.group(2)
        found[lang] = got
    names = sorted(consts, key=lambda s: int(s[1:]))
    for lang in found:
        reqs = []
        for n in names:
            c = consts[n]
            t = c.data_type
            ty = "b" if isinstance(t, pydsdl.BooleanType) else ("f" if isinstance(t, pydsdl.FloatType) else ("u" if isinstance(t, pydsdl.UnsignedIntegerType) else "s")) \
                + (str(t.bit_length) if not isinstance(t, pydsdl.BooleanType) else "")
            tok = val_token(c.value.native_value)
            reqs.append(f"py {ty} {tok}" if lang == "py" else f"lit {lang} {ty} {tok}")
        model = drv.ask(reqs)
        if lang == "c":             # definitions.j2 wraps the literal: `#define X (lit)`
            model = [("ok " + a) if m.startswith("ok ") else m for m, a in zip(model, drv.ask([f"macro {m[3:]}" if m.startswith("ok ") else "macro -" for m in model]))]
        for n, m in zip(names, model):
            want = dec(m[3:]) if m.startswith("ok ") else m
            got = found[lang].get(n)
            ctx.traces += 1
            ctx.case(("template", lang, n, str(consts[n].value)[:80]), True)
            ctx.count("template-lines:" + lang)
            if got != want:
                ctx.disagree("template-line:" + lang, {"constant": str(consts[n])[:300]}, want, got)
        # ---- the property on what the templates really wrote
        def tykey(c):
            t = c.data_type
            if isinstance(t, pydsdl.BooleanType):
                return "b", bool(c.value.native_value)
            k = "f" if isinstance(t, pydsdl.FloatType) else ("u" if isinstance(t, pydsdl.UnsignedIntegerType) else "s")
            return k + str(t.bit_length), Fr(c.value.native_value)
        have = [n for n in names if found[lang].get(n) is not None]
        if lang == "py":
            for n in have:
                ty, v = tykey(consts[n])
                src = found[lang][n]
                try:
                    x = eval(src, {"__builtins__": {}}, {})
                except Exception as e:  # noqa
                    x = e
                if ty == "b":
                    ok = x is v
                elif ty[0] in "us":
                    ok = type(x) is int and x == int(v)
                else:
                    ok = isinstance(x, float) and not math.isinf(x) and not math.isnan(x) and abs(Fr(x) - v) <= ulp(v, 64) / 2
                if not ok:
                    tally({"kind": "constant-literal", "cause": "py-value", "lang": "py"},
                          f"generated Python class constant {str(consts[n])[:100]} is written `{src[:100]}` and evaluates to {x!r:.60}",
                          {"type": ty, "value": str(v), "expression": src, "constant": str(consts[n])[:300]})
        else:
            dialect = "c11" if lang == "c" else "cpp14"
            for tool in COMPILERS[dialect][:1]:
                ans, diag, log = probe(ctx, dialect, tool, [found[lang][n] for n in have], False, "tpl_" + lang)
                if ans is None:
                    ctx.disagree("template-probe:" + lang, "the constants as the templates wrote them", "compile", log[-1200:])
                    continue
                for k, n in enumerate(have):
                    ty, v = tykey(consts[n])
                    verdict = judge_constant(ty, v, lang, ans[k], k in diag)
                    if verdict is not None:
                        tally({"kind": "constant-literal", "cause": verdict[0], "lang": lang},
                              f"{tool[0]}: generated constant {str(consts[n])[:100]} written as {found[lang][n][:100]}: {verdict[1]}",
                              {"type": ty, "value": str(v), "literal": found[lang][n], "constant": str(consts[n])[:300]})
    return consts, found


LITERAL_ZOO = None


def literal_zoo():
    """Hand-written literal expressions for the typing / evaluation model (not produced by the generator)."""
    global LITERAL_ZOO
    if LITERAL_ZOO is None:
        z = []
        edge = [0, 1, 7, 2 ** 31 - 1, 2 ** 31, 2 ** 32 - 1, 2 ** 32, 2 ** 63 - 1, 2 ** 63, 2 ** 64 - 1]
        for n in edge:
            for suf in ["", "U", "L", "UL", "LL", "ULL", "u", "l", "ll", "LU", "LLU", "ull", "lu"]:
                z.append(f"{n}{suf}")
                z.append(f"-{n}{suf}")
        z += ["-1 - 1", "(-2147483647 - 1)", "-2147483648", "(-9223372036854775807LL - 1)", "(-9223372036854775807L - 1)", "4294967295U - 1", "1 - 2U", "0U - 1",
              "-1 / 2", "7 / 2U", "-7 / 2", "-7 / 2U", "7 / -2", "1.0 / 3.0", "1 / 3.0", "(float) 1 / 3", "(float) 1.0 / 3.0", "(double) 1 / 3", "- - 5", "-(-5)",
              "1e308", "1.5e-320", "5e-324", "2e-324", "3e-324", "0.1f", "16777217.0f", "1e38f", "0.1", "1.", "1.e2", "1E+2", "12.5e-1", "100000000000000000000.0",
              "((float) 0.1)", "((double) 0.1f)", "(float) 16777217", "(float) 9007199254740993", "(double) 9007199254740993", "(double) 18446744073709551615U",
              "(float) (1.0 - 0.9)", "1.0 - 0.9", "0.3 - 0.1", "1 - 0.5f", "2147483647 - -1L", "1U - 2L", "4294967295U - 4294967296L", "1LL - 2UL",
              "9007199254740993.0", "9007199254740992.0 / 3", "(3.0 / 7.0) / (1.0 / 3.0)", "true", "false", "-true", "true - false", "(true)",
              "(double) (1.0 / 3.0) - 1", "- 1.5", "1e39f", "1e309", "2e308", "-1e309", "(1.0 / 2e324)", "3.4028235e38f", "1.7976931348623157e308", "1.7976931348623159e308", "-0.0", "-(0.0)", "0.0 / -5.0", "1e-400 ", "123456789012345678", "1234567890123456789LL", "12345678901234567890U"]
        LITERAL_ZOO = z
    return LITERAL_ZOO


def compiled_stream(ctx, drv, cases, rendered, tally):
    """gcc / clang / g++ / clang++ on the rendered literals (property oracle + tie of `evalc`) and on the literal zoo."""
    rng = ctx.rng
    idx = list(range(len(cases)))
    nmax = 1700 if ctx.quick else 9000
    if len(idx) > nmax:
        def extreme(ty, v):
            if ty[0] not in "us":
                return True                     # bool and every floating constant
            w = int(ty[1:])
            lo, hi = (0, 2 ** w - 1) if ty[0] == "u" else (-(2 ** (w - 1)), 2 ** (w - 1) - 1)
            return int(v) in (lo, hi, lo + 1, hi - 1) or w >= 63
        keep = [i for i in idx if extreme(*cases[i])][:nmax - 200]
        rest = [i for i in idx if i not in set(keep)]
        idx = sorted(set(keep + rng.sample(rest, min(len(rest), nmax - len(keep)))))
    for dialect, lname in (("c11", "c"), ("cpp14", "cpp14")):
        lits = [rendered[lname][i] for i in idx]
        ok = [i for i, l in zip(idx, lits) if l is not None]
        lits = [l for l in lits if l is not None]
        # the C macro body adds parentheses; C++ initialises the declared type (checked by the value comparison)
        src = [("(" + l + ")") if dialect == "c11" else l for l in lits]
        model = [parse_evalc(a) for a in drv.ask([f"evalc {dialect} {enc(s)}" for s in src], timeout=1800)]
        tools = COMPILERS[dialect] if not ctx.quick else COMPILERS[dialect][:1] + (COMPILERS[dialect][1:] if dialect == "c11" else [])
        for tool in tools:
            ans, diag, log = probe(ctx, dialect, tool, src, dialect == "cpp14", f"r_{dialect}")
            if ans is None:
                # a rendered constant that does not compile as a (constant) expression: find it
                ctx.count("probe:batch-failed")
                bad = sorted(diag) or list(range(len(src)))
                for k in bad[:20]:
                    ty, v = cases[ok[k]]
                    tally({"kind": "constant-literal", "cause": "int64-min-literal" if (ty == "s64" and int(v) == -2 ** 63) else "does-not-compile", "lang": lname},
                          f"{tool[0]}: the literal rendered for {ty} = {str(v)[:80]} is rejected: {src[k][:120]}",
                          {"type": ty, "value": str(v), "literal": src[k], "compiler": tool[0], "log": log[-1200:]})
                continue
            for k, (s, m, a) in enumerate(zip(src, model, ans)):
                ty, v = cases[ok[k]]
                ctx.traces += 1
                ctx.count(f"compiled:{tool[0]}")
                # --- tie: the model's denotation of the rendered string
                if m[0] == "err":
                    if not (k in diag or a is None or a[0] == "other"):
                        ctx.disagree("evalc-vs-compiler:" + tool[0], s, m[1], f"{a} without a diagnostic")
                elif a is None or (a[0], a[2]) != m or SIZES.get(a[0]) != a[1] or k in diag:
                    ctx.disagree("evalc-vs-compiler:" + tool[0], s, f"{m}", f"{a}" + (" + diagnostic" if k in diag else ""))
                # --- property: the compiled constant against the exact DSDL value
                verdict = judge_constant(ty, v, lname, a, k in diag)
                if verdict is not None:
                    tally({"kind": "constant-literal", "cause": verdict[0], "lang": lname},
                          f"{tool[0]} -std={'c11' if dialect == 'c11' else 'c++14'}: constant {ty} = {str(v)[:80]} rendered as {s[:120]}: {verdict[1]}",
                          {"type": ty, "value": str(v), "literal": s, "compiler": tool[0], "observed": a})
    # the zoo: model against compilers only
    zoo = literal_zoo()
    for dialect in ("c11", "cpp14"):
        model = [parse_evalc(a) for a in drv.ask([f"evalc {dialect} {enc(s)}" for s in zoo])]
        for tool in COMPILERS[dialect]:
            ans, diag, log = probe(ctx, dialect, tool, zoo, False, f"z_{dialect}")
            if ans is None:
                ctx.disagree("literal-zoo:" + tool[0], "compilation of the zoo", "compiles", log[-1500:])
                continue
            for k, (s, m, a) in enumerate(zip(zoo, model, ans)):
                ctx.traces += 1
                ctx.case(("zoo", dialect, s), True)
                ctx.count("zoo:" + (m[1] if m[0] == "err" else "ok"))
                if m[0] == "err":
                    # no type / out of range / undefined in the model: the compiler must at least diagnose it or leave the standard types
                    if m[1] in ("err:int-literal-no-type", "err:float-literal-range", "err:signed-overflow") and not (k in diag or a is None or a[0] == "other"):
                        ctx.disagree("literal-zoo:" + tool[0], s, m[1], f"{a} without a diagnostic")
                    elif m[1] in ("err:lex", "err:parse", "err:unsupported") and not s.startswith("-true") and "true - " not in s:
                        ctx.disagree("literal-zoo:" + tool[0], s, m[1], f"{a}: the model cannot read a zoo entry")
                elif a is None or (a[0], a[2]) != m or SIZES.get(a[0]) != a[1]:
                    ctx.disagree("literal-zoo:" + tool[0], s, f"{m}", f"{a}")


def python_stream(ctx, drv, cases, tally):
    """The Python target: the expression base.j2 emits, evaluated by CPython, against `evalpy` and the exact value."""
    reqs = [f"py {ty} {val_token(v)}" for ty, v in cases]
    exprs = drv.ask(reqs, timeout=1800)
    srcs = [dec(e[3:]) for e in exprs]
    vals = drv.ask([f"evalpy {enc(s)}" for s in srcs], timeout=1800)
    for (ty, v), s, m in zip(cases, srcs, vals):
        c = make_constant(ty, v)
        # what the template writes (see template_stream for the rendered file): the same three expressions
        t = c.data_type
        if isinstance(t, pydsdl.BooleanType):
            real_src = str(c.value.native_value)
        elif isinstance(t, pydsdl.IntegerType):
            real_src = str(c.value.as_native_integer())
        else:
            real_src = f"{c.value.native_value.numerator} / {c.value.native_value.denominator}"
        ctx.traces += 1
        ctx.case(("py", ty, str(v)), True)
        if real_src != s:
            ctx.disagree("py-constant-expression", {"type": ty, "value": str(v)[:600]}, s, real_src)
            continue
        try:
            x = eval(real_src, {"__builtins__": {}}, {})
        except OverflowError:
            x = "overflow"
        if isinstance(x, bool):
            real = f"bool {int(x)}"
        elif isinstance(x, int):
            real = f"int {x}"
        elif isinstance(x, float):
            real = "float %x" % struct.unpack("<Q", struct.pack("<d", x))[0]
        else:
            real = "err:overflow"
        if real != m:
            ctx.disagree("evalpy-vs-cpython", real_src[:600], m, real)
        # property
        bad = None
        if ty == "b":
            bad = None if x is bool(v) else f"{x!r}"
        elif ty[0] in "us":
            bad = None if (type(x) is int and x == int(v)) else f"{x!r}"
        else:
            q = Fr(v)
            if not isinstance(x, float) or math.isinf(x) or math.isnan(x):
                bad = f"{x!r}"
            elif abs(Fr(x) - q) > ulp(q, 64) / 2:
                bad = f"{x!r} is not the exact value rounded to nearest"
        if bad:
            tally({"kind": "constant-literal", "cause": "py-value", "lang": "py"},
                  f"Python constant {ty} = {str(v)[:80]} written as `{real_src[:100]}` evaluates to {bad}", {"type": ty, "value": str(v), "expression": real_src})
    # expressions beyond the generator's: the Python evaluator against CPython
    zoo = ["1 / 0", "-1 / 3", "- 1 / 3", "1 / -3", "0 / 5", "-0 / 5", "True", "False", "-True", "True / 2", "1 / 3 / 2", "10 / 4", str(2 ** 1024) + " / 1",
           str(2 ** 1024 - 2 ** 970 - 1) + " / 1", "1 / " + str(2 ** 1075), "3 / " + str(2 ** 1075), "123456789012345678901234567890", "-5"]
    ans = drv.ask([f"evalpy {enc(s)}" for s in zoo])
    for s, m in zip(zoo, ans):
        try:
            x = eval(s, {"__builtins__": {}}, {})
            real = f"bool {int(x)}" if isinstance(x, bool) else (f"int {x}" if isinstance(x, int) else "float %x" % struct.unpack("<Q", struct.pack("<d", x))[0])
        except OverflowError:
            real = "err:overflow"
        except ZeroDivisionError:
            real = "err:zero-division"
        ctx.traces += 1
        if real != m:
            ctx.disagree("evalpy-zoo", s[:300], m, real)


def known_witnesses(ctx, drv, tally):
    """The inputs behind the recorded literal findings (F13): replayed on the tree under check on every run."""
    import nunavut.lang.c as LC
    import nunavut.lang.cpp as LCPP
    wit = [("s64", Fr(-2 ** 63)), ("f64", Fr(5, 10 ** 324)), ("f64", Fr(1, 10 ** 320)), ("f64", Fr(1, 2 * 10 ** 323)), ("f32", Fr(2251799947902975, 2251799813685247))]
    olds = drv.ask([f"old cpp {ty} {val_token(v)}" for ty, v in wit])
    news = drv.ask([f"lit cpp {ty} {val_token(v)}" for ty, v in wit])
    ev_old = drv.ask([f"evalc cpp14 {o[3:]}" for o in olds])
    ev_new = drv.ask([f"evalc cpp14 {n[3:]}" for n in news])
    ctx.extra["literal_witnesses"] = [{"type": ty, "value": str(v)[:40], "before_fix": dec(o[3:])[:60], "model_before_fix": eo, "now": dec(n[3:])[:60], "model_now": en}
                                      for (ty, v), o, n, eo, en in zip(wit, olds, news, ev_old, ev_new)]
    lang = build_language("cpp")
    for (ty, v), n in zip(wit, news):
        real = impl_render(LCPP.filter_constant_value, lang, make_constant(ty, v))
        ctx.traces += 1
        if real != n:
            ctx.disagree("known-witness", {"type": ty, "value": str(v)[:80]}, n, real)


# ------------------------------------------------------------------------------------------------------------
# entry points
# ------------------------------------------------------------------------------------------------------------

LEAN_MODULES = ["C05Lit"]
EXES = ["cliteral"]


def run(ctx, drivers=None):
    """
    Stand-alone (`./check c05_literals`): builds and audits Properties/C05Lit.lean itself.
    From harness/c05.py: `prepare(ctx)` before the Lean build, `C05Lit` / `cliteral` added to the build, then
    `run(ctx, drivers)` with the driver table.
    """
    standalone = drivers is None
    if standalone:
        prepare(ctx)
        drivers = ctx.prove(LEAN_MODULES, exes=EXES)
        ctx.rule = ("every primitive kind and width 1..64 x boundary-biased + random values (extremes, +-1, powers of two and ten, rationals with "
                    "huge terms, subnormals, values that need the decimal fallback) x c / c++14 / c++17 / py: rendered text against the model; "
                    "compiled type / sizeof / value of the rendered literal against the model's denotation and the exact DSDL value; "
                    "non-trivial = every case (each is a distinct (language, type, value)); distinct by (stream, language, type, value)")
    drv = drivers.get("cliteral") if drivers else None
    assumptions = ["gcc / clang on this LP64 host are the reference for the C11 / C++14 literal semantics the model states (decimal -> binary "
                   "conversion of floating literals and double division correctly rounded, FLT_EVAL_METHOD 0)",
                   "CPython's repr(float), int / int and float(int) are the reference for the model's Python arithmetic",
                   "PyDSDL's Constant range check bounds the values (|float constant| <= largest finite value of the declared type)"]
    ctx.assumptions = list(getattr(ctx, "assumptions", []) or []) + assumptions
    if drv is None:
        ctx.broken.append({"kind": "driver-missing", "exe": "cliteral"})
        return

    def tally(key, what, replay):
        k = json.dumps(key, sort_keys=True)
        n = _seen.get(k, 0)
        _seen[k] = n + 1
        ctx.count("failure:" + ":".join(str(v) for v in key.values()))
        if n < 5:
            ctx.fail(key, what, dict(replay, stream="c05_literals"))
    _seen = {}

    cases = gen_cases(ctx.rng, ctx.quick)
    corpus = common.VERIF / "corpus" / "C05" / "literals.json"
    if corpus.exists():
        cases = [(ty, (v if isinstance(v, bool) else Fr(v))) for ty, v in json.loads(corpus.read_text())] + cases
    ctx.extra["literal_cases"] = {"constants": len(cases), "integer": sum(1 for c in cases if c[0][0] in "us"), "float": sum(1 for c in cases if c[0][0] == "f")}
    known_witnesses(ctx, drv, tally)
    python_arithmetic_stream(ctx, drv)
    rendered = render_stream(ctx, drv, cases)
    template_stream(ctx, drv, cases, tally)
    compiled_stream(ctx, drv, cases, rendered, tally)
    python_stream(ctx, drv, cases, tally)
    ctx.sample({"stream": "c05_literals", "type": cases[-1][0], "value": str(cases[-1][1])[:80], "c": (rendered["c"][-1] or "")[:100]})


def replay(ctx, path):
    r = json.loads(open(path).read())
    rp = r.get("replay") or {}
    if "type" not in rp or "value" not in rp:
        print("nothing to replay (no failing constant in the file)")
        return 1
    ty = rp["type"]
    v = (rp["value"] == "True") if ty == "b" else Fr(rp["value"])
    import nunavut.lang.c as LC
    import nunavut.lang.cpp as LCPP
    bad = 0
    for dialect, lname, mod in (("c11", "c", LC), ("cpp14", "cpp", LCPP)):
        lit = mod.filter_constant_value(build_language(lname), make_constant(ty, v))
        src = "(" + lit + ")" if dialect == "c11" else lit
        for tool in COMPILERS[dialect]:
            ans, diag, log = probe(ctx, dialect, tool, [src], dialect == "cpp14", "replay")
            a = ans[0] if ans else None
            verdict = judge_constant(ty, v, lname, a, 0 in diag) if ans else ("does-not-compile", log[-300:])
            print(json.dumps({"compiler": tool[0], "literal": src, "observed": a, "verdict": verdict}))
            bad += verdict is not None
    ctx.cleanup()
    return 1 if bad else 0
