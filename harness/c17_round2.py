"""
C17, round 2 streams (called from harness/c17.py):

  sites_tie   the compiled driver was linked with the emission table / built-in configuration regenerated in this run
              (translate/optionemit.py), spelled canonically on both sides;
  flow_tie    `effective` of Model/OptionFlow.lean (defaults (+) request, language-standard preset, the C++ validation
              errors, dict order) versus the real LanguageContextBuilder ... create().get_target_language().get_options()
              of the tree under check, in-process, on a request stream;
  cmpx_tie    the C / C++ comparison expression model (Model/OptionExpr.lean :: evalAssert) versus gcc / g++ on a grid of
              (definition numeral, asserted numeral) pairs around the int / unsigned / long boundaries, one translation
              unit per statement form;
  api_stream  HISTORIES of API calls inside one Python process (harness/c17_api_worker.py): sequences of
              nunavut.generate_types() calls with differing option sets, and generator objects (DSDLCodeGenerator +
              SupportGenerator from create_default_generators) kept and used for several generate_all() passes with
              differing omit_serialization_support.  Per run: the (name, number) lists the support header defines and every
              type header asserts are compared with the model's `runHistory` rendered through the generated emission table
              (tie); and the property itself, independent of the model: the support header of run i and the type headers of
              run j (all ordered pairs of a history) must compile together iff the option sets REQUESTED for i and j have the
              same effective values (failing-input search).
"""
import concurrent.futures
import json
import os
import pathlib
import re
import shutil
import subprocess

from . import common
from .common import enc as penc, dec as pdec

WORKER = pathlib.Path(__file__).resolve().parent / "c17_api_worker.py"


# ---------------------------------------------------------------------------------------------------------------------
# canonical spelling of the emission table (must match Drivers/Options.lean :: showSite / cfg)
# ---------------------------------------------------------------------------------------------------------------------
def _guard(g):
    return g[0] if g[0] in ("notOmit", "includeGuard") else f"other:{penc(g[1])}:{penc(g[2])}"


def _form(f):
    if f[0] == "define":
        df = f[1]
        if df[0] == "macro":
            return "def:macro"
        return "def:cx:u32" if df[1][0] == "uint32" else "def:cx:other:" + penc(df[1][1])
    if f[0] == "staticAssert":
        return f"sa:{penc(f[1])}:" + ("eq" if f[2][0] == "eq" else "other:" + penc(f[2][1]))
    return "other:" + penc(f[1])


def site_line(s):
    ne = s["nameExpr"]
    nes = "id" if ne[0] == "idOfKey" else ("mac:" + penc(ne[1]) if ne[0] == "macrofyPrefixed" else "other:" + penc(ne[1]))
    ve = "enc" if s["valueExpr"][0] == "encOfValue" else "other:" + penc(s["valueExpr"][1])
    return "~".join([s["lang"], s["side"], penc(s["file"]), penc(s["loopOver"]), penc(s["loopVars"]),
                     ",".join(_guard(g) for g in s["guards"]) or "-", nes, ve, _form(s["form"])])


def _pv(base, v):
    return base.pval(v)


def _set_kv(base, o):
    return ";".join(f"{penc(k)}~{_pv(base, v)}" for k, v in o.items()) or "-"


def sites_tie(ctx, base, drv, emit):
    want = ";".join(site_line(s) for s in emit["sites"]) or "-"
    got = drv.ask(["sites"])[0]
    ctx.traces += 1
    if got != want:
        ctx.disagree("emission-table", "sites", got[:600], want[:600])
    for lang in ("c", "cpp"):
        c = emit["config"][lang]
        want = _set_kv(base, c["options"]) + "#" + ("&".join(f"{penc(n)}={_set_kv(base, o)}" for n, o in c["presets"].items()) or "-")
        got = drv.ask([f"cfg {lang}"])[0]
        ctx.traces += 1
        if got != want:
            ctx.disagree("emission-table", f"cfg {lang}", got[:600], want[:600])
    ctx.extra["emission_sites"] = [{"header": f"{s['lang']}/{s['side']}", "file": s["file"], "guards": [list(g) for g in s["guards"]],
                                    "form": repr(s["form"])} for s in emit["sites"]]


# ---------------------------------------------------------------------------------------------------------------------
# flow: requested options -> the `options` the templates iterate over
# ---------------------------------------------------------------------------------------------------------------------
def real_effective(lang, req):
    """The real pipeline, in-process: a fresh builder, the override, create(), get_options()."""
    from nunavut.lang import LanguageContextBuilder
    try:
        o = (LanguageContextBuilder(include_experimental_languages=True).set_target_language(lang)
             .set_target_language_configuration_override("options", dict(req)).create()
             .get_target_language().get_options())
        return [[k, v] for k, v in o.items()]
    except Exception as e:  # pylint: disable=broad-except
        m = str(e)
        if "allocator_type property must be specified" in m:
            return "rej:allocator-required"
        if "Invalid ConstructorConvention" in m or isinstance(e, AttributeError):
            return "rej:bad-ctor"
        if "'std' option must be" in m:
            return "rej:no-std"
        if "No constructor convention" in m:
            return "rej:no-ctor"
        return f"rej:?{type(e).__name__}: {m[:120]}"


def parse_flow(base, ans):
    if not ans.startswith("ok "):
        return ans
    out = []
    body = ans[3:]
    if body == "-":
        return out
    for t in body.split(";"):
        k, v = t.split("~")
        if v in ("b0", "b1"):
            val = v == "b1"
        elif v.startswith("i"):
            val = int(v[1:])
        elif v.startswith("s"):
            val = pdec(v[1:])
        else:
            val = "<other>"
        out.append([pdec(k), val])
    return out


def flow_requests(ctx, base, wb):
    rng = ctx.rng
    reqs = []
    for lang in ("c", "cpp"):
        d = wb.dom[lang]
        reqs.append((lang, {}))
        for k in d.order:
            for v in d.values(k):
                if v != base.ABSENT:
                    reqs.append((lang, {k: v}))
        for p in d.presets:
            reqs.append((lang, {"std": p}))
            reqs.append((lang, {"std": p, "allocator_type": "", "std_flavor": "std"}))      # the preset wins over the request
        fixed = [{"ctor_convention": "Default"}, {"ctor_convention": "USES_TRAILING_ALLOCATOR"}, {"ctor_convention": "uses_leading_allocator"},
                 {"ctor_convention": "uses-leading-allocator", "allocator_type": "a::b"}, {"ctor_convention": "Uses_Trailing-Allocator", "allocator_type": "x"},
                 {"ctor_convention": "nope"}, {"ctor_convention": ""}, {"ctor_convention": 5}, {"ctor_convention": True},
                 {"ctor_convention": "uses-trailing-allocator", "allocator_type": 0}, {"ctor_convention": "uses-trailing-allocator", "allocator_type": 7},
                 {"ctor_convention": "uses-trailing-allocator", "allocator_type": False}, {"ctor_convention": "uses-trailing-allocator", "allocator_type": True},
                 {"std": "c++20"}, {"std": "c++23"}, {"std": 17}, {"std": "cetl++14-17", "ctor_convention": "default"},
                 {"verif_new": 3, "target_endianness": "big", "verif_other": "z"}, {"verif_b": True, "std": "c++17-pmr", "verif_a": "x"}]
        reqs += [(lang, r) for r in fixed]
        for _ in range(60 if ctx.quick else 1500):
            r = {}
            for k in rng.sample(d.order, rng.choice([1, 2, 2, 3, 4, 6])):
                vs = [v for v in d.values(k) if v != base.ABSENT]
                r[k] = rng.choice(vs)
            if rng.random() < 0.2:
                r["verif_x%d" % rng.randint(0, 3)] = rng.choice([0, 1, "s", True])
            if rng.random() < 0.3 and lang == "cpp":
                r["ctor_convention"] = rng.choice(["default", "uses-leading-allocator", "Uses_Trailing_Allocator", "DEFAULT", "uses_leading-allocator", "bad"])
            items = list(r.items())
            rng.shuffle(items)
            reqs.append((lang, dict(items)))
    return reqs


def flow_tie(ctx, base, drv, wb):
    reqs = flow_requests(ctx, base, wb)
    ans = drv.ask([f"flow {lang} {base.pset(lang, r)}" for lang, r in reqs])
    for (lang, r), a in zip(reqs, ans):
        real = real_effective(lang, r)
        model = parse_flow(base, a)
        ctx.traces += 1
        ctx.count("flow:" + lang + (":rejected" if isinstance(real, str) else ":ok"))
        if model != real:
            ctx.disagree("flow", {"lang": lang, "request": r}, model, real)
        # the harness' own notion of "requested effective set" (used by every oracle of this check) against the real code
        if not isinstance(real, str):
            mine = [[k, v] for k, v in wb.dom[lang].effective(r).items()]
            if sorted(map(json.dumps, mine)) != sorted(map(json.dumps, real)):
                ctx.disagree("flow-harness-oracle", {"lang": lang, "request": r}, mine, real)
    ctx.extra["flow_requests_compared"] = len(reqs)


# ---------------------------------------------------------------------------------------------------------------------
# the comparison expression
# ---------------------------------------------------------------------------------------------------------------------
def cmpx_tie(ctx, base, drv, wb):
    rng = ctx.rng
    grid = [-2 ** 63 + 1, -2 ** 32 - 1, -2 ** 32, -2 ** 31 - 1, -2 ** 31, -2 ** 31 + 1, -5, -1, 0, 1, 5, 2 ** 31 - 1, 2 ** 31,
            2 ** 31 + 1, 2 ** 32 - 5, 2 ** 32 - 1, 2 ** 32, 2 ** 32 + 5, 2 ** 63 - 1]
    grid += [rng.getrandbits(32) for _ in range(3)] + [rng.randint(-2 ** 40, 2 ** 40) for _ in range(2)]
    vs = grid + [d % 2 ** 32 for d in grid[:6]]
    units = [("macro", "c", ["gcc", "-std=c11"], ".c"), ("macro", "cpp", ["g++", "-std=c++14"], ".cpp"), ("u32", "cpp", ["g++", "-std=c++14"], ".cpp")]
    root = wb.root / "cmpx"
    root.mkdir()
    for form, tl, cmd, ext in units:
        lines = ["#include <assert.h>" if tl == "c" else "#include <cstdint>"]
        where = {}
        for i, d in enumerate(grid):
            lines.append(f"#define N_{i} {d}" if form == "macro" else f"constexpr std::uint32_t N_{i} = {d};")
            for v in vs:
                lines.append(f'static_assert( N_{i} == {v}, "m" );')
                where[len(lines)] = (d, v)
        f = root / f"{form}_{tl}{ext}"
        f.write_text("\n".join(lines) + "\n")
        p = subprocess.run(cmd + ["-fsyntax-only", "-w", str(f)], capture_output=True, text=True, timeout=300, env=dict(os.environ, LC_ALL="C"))
        failed, other = set(), []
        for ln in p.stderr.split("\n"):
            m = re.match(r"^[^:\n]+:(\d+):\d+: error: (.*)$", ln)
            if m:
                if "static assertion failed" in m.group(2) or "static_assert failed" in m.group(2):
                    failed.add(int(m.group(1)))
                else:
                    other.append(ln[:200])
        if other:
            ctx.disagree("cmpx-unit", {"form": form, "compiler": " ".join(cmd)}, "only static-assertion diagnostics", other[:3])
            continue
        pairs = sorted(where.items())
        ans = drv.ask([f"cmpx {form} {d} {v}" for _, (d, v) in pairs])
        for (ln, (d, v)), a in zip(pairs, ans):
            real = "0" if ln in failed else "1"
            ctx.traces += 1
            if a != real:
                ctx.disagree("cmpx:" + form + ":" + cmd[0], {"definition": d, "asserted": v}, a, real)
        ctx.count(f"cmpx:{form}:{cmd[0]}", len(pairs))
    a = drv.ask(["cmpx other 1 1"])[0]
    if a != "undef":
        ctx.disagree("cmpx", "other", a, "undef")


# ---------------------------------------------------------------------------------------------------------------------
# API histories
# ---------------------------------------------------------------------------------------------------------------------
def T(opts, omit=False):
    return {"op": "T", "options": opts, "omit": omit}


def N(gid, opts):
    return {"op": "N", "id": gid, "options": opts}


def P(gid, omit):
    return {"op": "P", "id": gid, "omit": omit}


def random_request(base, d, rng):
    r = {}
    for k in rng.sample(d.order, rng.choice([0, 1, 1, 2, 3])):
        vs = [v for v in d.values(k) if v != base.ABSENT]
        r[k] = rng.choice(vs)
    return r


def build_histories(ctx, base, wb):
    rng = ctx.rng
    out = []
    for lang in ("c", "cpp"):
        d = wb.dom[lang]
        little = {"target_endianness": "little"}
        fixed = [
            ("types-sequence", [T(little), T(None), T({"target_endianness": "big"})]),
            ("generator-reuse", [N("g", little), P("g", True), P("g", False), N("h", {}), P("h", False)]),
            ("generator-reuse", [N("g", {}), P("g", False), P("g", True), P("g", False), T(little)]),
        ]
        if lang == "cpp":
            fixed.append(("types-sequence", [T({"std": "c++17-pmr"}), T({}), T({"std": "c++17"})]))
            fixed.append(("types-sequence", [T({"ctor_convention": "uses-leading-allocator"}), T({"enable_serialization_asserts": True}), T(None)]))
        else:
            fixed.append(("types-sequence", [T({"enable_serialization_asserts": True, "cast_format": "static_cast<{type}>({value})"}), T({}),
                                             T({"enable_serialization_asserts": True})]))
        nrand = 3 if ctx.quick else 40
        for _ in range(nrand):
            steps, live, runs = [], [], 0
            while runs < rng.choice([3, 3, 4]):
                c = rng.random()
                if c < 0.45 or (not live and c < 0.7):
                    r = random_request(base, d, rng)
                    steps.append(T(None if (not r and rng.random() < 0.5) else r, omit=rng.random() < 0.15))
                    runs += 1
                elif not live or c < 0.8:
                    gid = "g%d" % len(live)
                    steps.append(N(gid, random_request(base, d, rng)))
                    live.append(gid)
                else:
                    steps.append(P(rng.choice(live), rng.random() < 0.4))
                    runs += 1
            for gid in live:    # every kept generator ends with a pass that has serialization support
                steps.append(P(gid, False))
            kind = "mixed" if live and any(s["op"] == "T" for s in steps) else ("generator-reuse" if live else "types-sequence")
            fixed.append((kind, steps))
        out += [(lang, kind, steps) for kind, steps in fixed]
    return out


def run_history(wb, idx, lang, steps):
    """Execute one history in a worker process; returns per step {"ok", "error", "dir"} (dir for runs)."""
    root = wb.root / f"api{idx}"
    root.mkdir()
    wsteps = []
    for i, s in enumerate(steps):
        if s["op"] == "T":
            wsteps.append({"op": "generate_types", "lang": lang, "options": s["options"], "omit": s["omit"], "out": str(root / f"run{i}")})
        elif s["op"] == "N":
            wsteps.append({"op": "new_generators", "id": s["id"], "lang": lang, "options": s["options"], "out": str(root / f"live_{s['id']}")})
        else:
            wsteps.append({"op": "pass", "id": s["id"], "omit": s["omit"], "which": "both", "snapshot": str(root / f"run{i}")})
    (root / "history.json").write_text(json.dumps({"ns": str(wb.ns), "steps": wsteps}))
    from translate import optiondomain as od
    try:
        p = subprocess.run([common.PY, str(WORKER), str(root / "history.json")], env=od.nnvg_env(), capture_output=True, text=True, timeout=600)
    except subprocess.TimeoutExpired:
        return None, "timeout"
    if p.returncode != 0:
        return None, p.stderr[-600:]
    try:
        res = json.loads(p.stdout.strip().splitlines()[-1])
    except Exception:  # pylint: disable=broad-except
        return None, "unparsable worker output: " + p.stdout[-300:]
    for i, (s, r) in enumerate(zip(steps, res)):
        if s["op"] in ("T", "P") and r.get("ok"):
            out = root / f"run{i}"
            sup, typ = root / f"sup{i}", root / f"typ{i}"
            sup.mkdir()
            typ.mkdir()
            if (out / "nunavut").exists():
                shutil.move(str(out / "nunavut"), str(sup / "nunavut"))
            if (out / base_NS()).exists():
                shutil.move(str(out / base_NS()), str(typ / base_NS()))
            r["sup"], r["typ"] = sup, typ
    return res, None


def base_NS():
    from . import c17
    return c17.NS


def observe_run(base, lang, r):
    """('ok', defines | None, [asserts per header]) from the files of one run."""
    from translate import optiondomain as od
    sup = r["sup"] / od.SUPPORT_HEADER[lang]
    defs = od.parse_support(lang, sup.read_text()) if sup.exists() else None
    per_header = []
    for s in base.TYPE_STEMS:
        hp = r["typ"] / base.NS / (s + od.TYPE_EXT[lang])
        per_header.append([(m.group(1), int(m.group(2))) for m in map(base.ASSERT_ANY[lang].match, hp.read_text().split("\n")) if m]
                          if hp.exists() else None)
    return defs, per_header


def show_pairs(l):
    return ",".join(f"{penc(n)}={v}" for n, v in l) or "-"


def api_stream(ctx, base, drv, wb):
    from translate import optiondomain as od
    hist = build_histories(ctx, base, wb)
    with concurrent.futures.ThreadPoolExecutor(max_workers=base.NWORK) as ex:
        outs = list(ex.map(lambda t: run_history(wb, t[0], t[1][0], t[1][2]), enumerate(hist)))
    # ---- the model's histories ------------------------------------------------------------------------------------------
    model = {}
    if drv is not None:
        lines = []
        for lang, kind, steps in hist:
            cs = []
            for s in steps:
                if s["op"] == "T":
                    cs.append(f"T,{int(s['omit'])},{base.pset(lang, s['options'] or {})}")
                elif s["op"] == "N":
                    cs.append(f"N,{s['id']},{base.pset(lang, s['options'])}")
                else:
                    cs.append(f"P,{s['id']},{int(s['omit'])}")
            lines.append(f"hist {lang} " + "|".join(cs))
        for i, a in enumerate(drv.ask(lines)):
            if a == "uninterpretable":     # the generated emission table is outside the model (reported once); the search goes on
                if not any(x["stream"] == "emission-table-uninterpretable" for x in ctx.disagreements):
                    ctx.disagree("emission-table-uninterpretable", hist[i][0], a, "the templates render")
                continue
            model[i] = a.split("|")
    jobs = []       # (history index, i, j, cname, cmd)
    runs_of = {}
    for hi, ((lang, kind, steps), (res, err)) in enumerate(zip(hist, outs)):
        d = wb.dom[lang]
        replay_h = {"api_history": steps, "lang": lang, "history_kind": kind}
        ctx.count(f"api:{lang}:{kind}")
        if res is None:
            ctx.disagree("api-worker", replay_h, "runs", err)
            continue
        # requested options of every step (a pass: of the construction of its generator)
        made, runs = {}, []
        for i, (s, r) in enumerate(zip(steps, res)):
            if s["op"] == "N":
                if r.get("ok"):
                    made[s["id"]] = s["options"]
                req = s["options"]
            elif s["op"] == "T":
                req = s["options"] or {}
            else:
                req = made.get(s["id"])
            m = model[hi][i] if hi in model and i < len(model[hi]) else None
            # ---- tie: what this call did, against the model of the whole history
            if s["op"] == "N":
                real = "new" if r.get("ok") else real_effective(lang, s["options"])
                if isinstance(real, list):
                    real = "rej:?" + r.get("error", "")[:80]
            elif not r.get("ok"):
                e = r.get("error", "")
                real = real_effective(lang, req) if req is not None else "nogen"
                if isinstance(real, list):
                    real = "err:gen" if "Cannot convert object of type" in e else "rej:?" + e[:80]
            else:
                defs, per_header = observe_run(base, lang, r)
                uniform = all(h == per_header[0] for h in per_header)
                real = "ok:" + ("x" if defs is None else show_pairs(defs)) + ":" + (show_pairs(per_header[0] or []) if uniform else "NON-UNIFORM " + repr(per_header)[:300])
                if req is not None:
                    runs.append({"step": i, "req": req, "omit": s["omit"], "eff": d.effective(req), "sup": r["sup"], "typ": r["typ"],
                                 "has_support": defs is not None})
            if m is not None:
                ctx.traces += 1
                ctx.count("api-call:" + (real.split(":")[0] if isinstance(real, str) else "?"))
                if m != real:
                    ctx.disagree("api-emission", dict(replay_h, step=i, call=s, requested_options=req), m, real)
        runs_of[hi] = runs
        full = [x for x in runs if not x["omit"] and x["has_support"]]
        pairs = [(a, b) for a in full for b in full if not (a is b and ctx.quick)]
        if len(pairs) > 16:     # long random histories: a seeded sample of the ordered pairs (every history keeps its first pairs)
            pairs = pairs[:4] + ctx.rng.sample(pairs[4:], 12)
        for a, b in pairs:
            for cname, cmd in base.compilers_for(lang, a["eff"], b["eff"], not ctx.quick)[:(1 if ctx.quick else 2)]:
                jobs.append((hi, a, b, cname, cmd))
    tus = {lang: wb.root / f"tu_{lang}{'.c' if lang == 'c' else '.cpp'}" for lang in ("c", "cpp")}
    with concurrent.futures.ThreadPoolExecutor(max_workers=base.NWORK) as ex:
        futs = [(j, ex.submit(base.compile_tu, wb, hist[j[0]][0], j[1]["sup"], j[2]["typ"], tus[hist[j[0]][0]], base.TYPE_STEMS, j[3], j[4]))
                for j in jobs]
        results = [(j, f.result()) for j, f in futs]
    for (hi, a, b, cname, cmd), res in results:
        lang, kind, steps = hist[hi]
        d = wb.dom[lang]
        e1, e2 = a["eff"], b["eff"]
        diff = base.differing_keys(e1, e2)
        names = {od.real_name(lang, k): k for k in set(e1) | set(e2)}
        named = {names.get(n, n) for h in res["headers"].values() for _, n in h}
        ctx.case(("api", lang, json.dumps(steps, sort_keys=True), a["step"], b["step"], cname), True)
        ctx.count("api-pair:" + ("accepted" if res["rc"] == 0 else "rejected"))
        rp = {"api_history": steps, "lang": lang, "history_kind": kind, "support_from_step": a["step"], "types_from_step": b["step"],
              "requested_support": a["req"], "requested_types": b["req"], "effective_support": e1, "effective_types": e2,
              "compiler": cname, "cmd": " ".join(res["cmd"]), "rc": res["rc"], "diagnostics": res["headers"],
              "other_errors": res["other"][:5], "stderr": res["stderr"][:1000]}
        if diff:
            if res["rc"] == 0:
                ctx.fail({"kind": "different-sets-accepted", "lang": lang, "options": diff, "api": kind},
                         "within one process: type headers generated by a call that requested one option set compile against the support "
                         "header generated by a call that requested a different one", rp)
            elif not (named & set(diff)):
                ctx.fail({"kind": "rejected-without-naming-the-option", "lang": lang, "options": diff, "api": kind},
                         "the build fails but no static-assertion diagnostic names a differing option", rp)
        else:
            if named:
                ctx.fail({"kind": "identical-sets-rejected", "lang": lang, "options": sorted(named), "api": kind},
                         "within one process: headers generated by two calls that requested identical options are rejected by the guard", rp)
            elif res["rc"] != 0 and base.strictly_compilable(lang, d, e1):
                first = (res["other"] or ["?:0: ?"])[0]
                ctx.fail({"kind": "identical-sets-do-not-compile", "lang": lang, "file": first.split(":")[0], "error": first.split(": ", 1)[-1][:60],
                          "api": kind}, "headers generated by two calls with identical options do not compile together", rp)
    ctx.extra["api_histories"] = len(hist)
    ctx.extra["api_pair_compiles"] = len(jobs)


def replay_history(ctx, base, wb, r):
    """Re-run a recorded API history and the recorded pair."""
    lang, steps = r["lang"], r["api_history"]
    res, err = run_history(wb, 0, lang, steps)
    if res is None:
        print(json.dumps({"worker": err}))
        return 1
    d = wb.dom[lang]
    i, j = r["support_from_step"], r["types_from_step"]
    if not (res[i].get("ok") and res[j].get("ok")):
        print(json.dumps({"generation": [res[i], res[j]]}, default=str))
        return 1
    e1, e2 = d.effective(r["requested_support"]), d.effective(r["requested_types"])
    bad = 0
    tu = wb.root / f"tu_{lang}{'.c' if lang == 'c' else '.cpp'}"
    for cname, cmd in base.compilers_for(lang, e1, e2, True):
        out = base.compile_tu(wb, lang, res[i]["sup"], res[j]["typ"], tu, base.TYPE_STEMS, cname, cmd)
        diff = base.differing_keys(e1, e2)
        named = {n for h in out["headers"].values() for _, n in h}
        ok = (out["rc"] != 0 and bool(named)) if diff else (out["rc"] == 0)
        bad += 0 if ok else 1
        print(json.dumps({"compiler": cname, "requested_sets_differ_in": diff, "rc": out["rc"], "diagnostics": out["headers"].get("A_1_0"),
                          "property_holds": ok}))
    return 1 if bad else 0


# ---------------------------------------------------------------------------------------------------------------------
# request DELIVERY: the same requested option set arriving through different configuration sources
# (CLI flags, one --configuration YAML, two YAML files with the language section in both, builder override calls incl. a
# caller-owned dict reused across builders, mixtures).  Documented precedence: explicit API override / CLI flag > later
# file > earlier file > built-in default; a second override of the same key REPLACES the first.
# ---------------------------------------------------------------------------------------------------------------------
TE, ESA, EOVA = "target_endianness", "enable_serialization_asserts", "enable_override_variable_array_capacity"


def merged_request(files, explicit):
    m = {}
    for f in files:
        m.update(f)
    m.update(explicit)
    return m


def delivery_plan(ctx, base, wb, lang):
    rng = ctx.rng
    d = wb.dom[lang]
    cli = [
        ("one-file", {}, [{TE: "little", ESA: True, EOVA: True}]),
        ("two-files-split", {}, [{TE: "little"}, {ESA: True, EOVA: True}]),
        ("two-files-later-wins", {}, [{TE: "big", ESA: True}, {TE: "little", EOVA: True}]),
        ("flag-over-file", {TE: "little"}, [{TE: "big", ESA: True, EOVA: True}]),
        ("file-only", {}, [{TE: "little"}]),
        ("file-only", {}, [{TE: "big"}]),
        ("flags-and-two-files", {ESA: True}, [{TE: "little"}, {EOVA: True}]),
    ]
    if lang == "cpp":
        cli.append(("two-files-split", {}, [{"std": "c++17-pmr"}, {ESA: True}]))
    for _ in range(3 if ctx.quick else 25):
        keys = rng.sample([k for k in d.order if k not in ("ctor_convention", "allocator_type", "cast_format")], rng.choice([1, 2, 3, 4]))
        flags, files = {}, [{}, {}]
        for k in keys:
            vs = [v for v in d.values(k) if v != base.ABSENT]
            v = rng.choice(vs)
            src = d.by_key[k].get("cli")
            can_flag = bool(src) and ((src["kind"] == "choice" and v in src["values"]) or (src["kind"] == "flag" and v is True))
            ch = rng.choice(["flag", "f0", "f1", "f1"]) if can_flag else rng.choice(["f0", "f1"])
            if ch == "flag":
                flags[k] = v
            else:
                files[int(ch[1])][k] = v
            if ch != "f0" and rng.random() < 0.4:      # an earlier, overridden value
                others = [x for x in vs if x != v]
                if others:
                    files[0][k] = rng.choice(others)
        if lang == "cpp" and (flags.get("std") in d.presets or any(f.get("std") in d.presets for f in files)):
            continue    # presets overwrite whatever else is requested: covered by the fixed entry
        cli.append(("random-mix", flags, [f for f in files] if files[1] else [files[0]]))
    api = [
        ("api-two-overrides-shared-dict", [], [("ref", "shared"), ("value", {TE: "little"})]),
        ("api-two-overrides-shared-dict", [], [("ref", "shared"), ("value", {})]),
        ("api-file-and-override", [{TE: "big"}], [("ref", "shared")]),
        ("api-two-files-and-override", [{TE: "big"}, {EOVA: True}], [("value", {TE: "little"})]),
        ("api-one-override-shared-dict", [], [("ref", "shared")]),
        ("api-two-files-split", [{TE: "little"}, {ESA: True}], []),
    ]
    return cli, api


def delivery_stream(ctx, base, drv, wb):
    import yaml
    from translate import optiondomain as od
    root = wb.root / "deliv"
    root.mkdir()
    shared_value = {ESA: True}
    runs = []       # dict(lang, name, how, request, sup, typ, ok, err)

    def write_yaml(path, lang, opts):
        path.write_text(yaml.safe_dump({"nunavut.lang." + lang: {"options": opts}}, sort_keys=False, allow_unicode=True))
        return path

    def cli_run(idx, lang, name, flags, files):
        dd = root / f"c{idx}"
        dd.mkdir()
        d = wb.dom[lang]
        args = [str(wb.ns), "--experimental-languages", "--target-language", lang, "--outdir", str(dd / "all")]
        for k, v in flags.items():
            src = d.by_key[k]["cli"]
            args += [src["switch"], v] if src["kind"] == "choice" else [src["switch"]]
        paths = [str(write_yaml(dd / f"f{i}.yaml", lang, f)) for i, f in enumerate(files)]
        if paths:
            args += ["--configuration"] + paths
        p = od.run_nnvg(args, timeout=180)
        r = {"lang": lang, "name": name, "how": {"cli_flags": flags, "configuration_files": files}, "request": merged_request(files, flags),
             "ok": p.returncode == 0, "err": p.stderr[-400:], "invocation": " ".join(args)}
        if r["ok"]:
            (dd / "sup").mkdir()
            (dd / "typ").mkdir()
            if (dd / "all" / "nunavut").exists():
                shutil.move(str(dd / "all" / "nunavut"), str(dd / "sup" / "nunavut"))
            shutil.move(str(dd / "all" / base.NS), str(dd / "typ" / base.NS))
            r["sup"], r["typ"] = dd / "sup", dd / "typ"
        return r

    def api_runs(lang, api):
        dd = root / f"a_{lang}"
        dd.mkdir()
        steps = [{"op": "new_dict", "name": "shared", "value": shared_value}]
        meta = []
        for i, (name, files, ovs) in enumerate(api):
            paths = [str(write_yaml(dd / f"r{i}_f{j}.yaml", lang, f)) for j, f in enumerate(files)]
            steps.append({"op": "build_generate", "lang": lang, "files": paths, "omit": False, "out": str(dd / f"run{i}"),
                          "overrides": [{"ref": v} if kind == "ref" else {"value": v} for kind, v in ovs]})
            last = {} if not ovs else (dict(shared_value) if ovs[-1][0] == "ref" else dict(ovs[-1][1]))
            meta.append({"lang": lang, "name": name, "request": merged_request(files, last),
                         "how": {"configuration_files": files, "override_calls": [{"the shared dict": shared_value} if k == "ref" else v for k, v in ovs],
                                 "process": "all api deliveries of this language run in one process, in the listed order"}})
        (dd / "history.json").write_text(json.dumps({"ns": str(wb.ns), "steps": steps}))
        p = subprocess.run([common.PY, str(WORKER), str(dd / "history.json")], env=od.nnvg_env(), capture_output=True, text=True, timeout=600)
        try:
            res = json.loads(p.stdout.strip().splitlines()[-1])[1:]
        except Exception:  # pylint: disable=broad-except
            res = [{"ok": False, "error": "worker: " + p.stderr[-300:]}] * len(api)
        out = []
        for i, (m, r) in enumerate(zip(meta, res)):
            m["ok"], m["err"] = bool(r.get("ok")), r.get("error", "")
            if m["ok"]:
                sup, typ = dd / f"sup{i}", dd / f"typ{i}"
                sup.mkdir()
                typ.mkdir()
                if (dd / f"run{i}" / "nunavut").exists():
                    shutil.move(str(dd / f"run{i}" / "nunavut"), str(sup / "nunavut"))
                shutil.move(str(dd / f"run{i}" / base.NS), str(typ / base.NS))
                m["sup"], m["typ"] = sup, typ
            out.append(m)
        return out

    plans = {lang: delivery_plan(ctx, base, wb, lang) for lang in ("c", "cpp")}
    with concurrent.futures.ThreadPoolExecutor(max_workers=base.NWORK) as ex:
        futs = []
        n = 0
        for lang, (cli, api) in plans.items():
            for name, flags, files in cli:
                futs.append(ex.submit(cli_run, n, lang, name, flags, files))
                n += 1
        afuts = [ex.submit(api_runs, lang, api) for lang, (cli, api) in plans.items()]
        runs = [f.result() for f in futs] + [m for f in afuts for m in f.result()]
    # ---- references: the requested set delivered the plain way (flags / one file, one process per set) -------------------
    refs = []
    for r in runs:
        d = wb.dom[r["lang"]]
        same = d.ordered(dict(d.defaults, **r["request"]))
        k = next((k for k in list(r["request"]) + [TE] if k in d.by_key and len(d.values(k)) > 1), TE)
        cur = d.effective(same).get(k)
        other = next(v for v in d.values(k) if v != base.ABSENT and v != cur)
        diff = d.ordered(dict(same, **{k: other}))
        r["ref_same"], r["ref_diff"], r["diff_key"] = same, diff, k
        refs += [(r["lang"], same, False), (r["lang"], diff, False)]
    wb.generate_all(refs)
    # ---- tie: emitted lists vs the model rendering of the effective requested set ---------------------------------------
    if drv is not None:
        lines = [f"hist {r['lang']} T,0,{base.pset(r['lang'], wb.dom[r['lang']].ordered(dict(r['request'])))}" for r in runs]
        for r, a in zip(runs, drv.ask(lines)):
            ctx.traces += 1
            rep = {"delivery": r["name"], "lang": r["lang"], "how": r["how"], "requested_by_precedence": r["request"]}
            if not r["ok"]:
                real = real_effective(r["lang"], r["request"])
                real = real if isinstance(real, str) else "generation failed: " + r["err"][-200:]
            else:
                defs, per_header = observe_run(base, r["lang"], r)
                real = "ok:" + ("x" if defs is None else show_pairs(defs)) + ":" + show_pairs(per_header[0] or [])
            if a != "uninterpretable" and a != real:
                ctx.disagree("delivery-emission", rep, a, real)
        # the model's own precedence (Builder.deliver / create: files in order, then the override calls) against the harness'
        lines = []
        for r in runs:
            how = r["how"]
            ovs = how.get("override_calls")
            if ovs is None:
                ovs = [how["cli_flags"]]          # the CLI makes one override call carrying the flags that were given
            ovs = [(shared_value if (isinstance(o, dict) and "the shared dict" in o) else o) for o in ovs]
            sets = lambda ss: "&".join(base.pset(r["lang"], s) for s in ss) or "."
            lines.append(f"dflow {r['lang']} {sets(how['configuration_files'])} {sets(ovs)}")
        for r, a in zip(runs, drv.ask(lines)):
            ctx.traces += 1
            d = wb.dom[r["lang"]]
            m = parse_flow(base, a)
            want = real_effective(r["lang"], r["request"])
            if m != want:
                ctx.disagree("delivery-precedence", {"delivery": r["name"], "lang": r["lang"], "how": r["how"]}, m, want)
    # ---- failing-input search -------------------------------------------------------------------------------------------
    jobs = []
    for r in runs:
        ctx.count(f"delivery:{r['lang']}:{r['name']}" + ("" if r["ok"] else ":rejected"))
        if not r["ok"]:
            continue
        d = wb.dom[r["lang"]]
        e = d.effective(r["ref_same"])
        for tag, req in (("same", r["ref_same"]), ("diff", r["ref_diff"])):
            g = wb.get(r["lang"], req)
            if g.ok:
                cname, cmd = base.compilers_for(r["lang"], e, d.effective(req), False)[0]
                jobs.append((r, tag, d.effective(req), g.dir / "sup", r["typ"], cname, cmd, {"reference": "plain generation", "options_support": req}))
    # the coordinator's scenario directly: two deliveries of the same kind that were asked to differ
    for a in runs:
        for b in runs:
            if a is not b and a["ok"] and b["ok"] and a["lang"] == b["lang"] and a["name"] == b["name"] and a["name"] != "random-mix":
                d = wb.dom[a["lang"]]
                ea, eb = d.effective(d.ordered(dict(d.defaults, **a["request"]))), d.effective(d.ordered(dict(d.defaults, **b["request"])))
                cname, cmd = base.compilers_for(a["lang"], ea, eb, False)[0]
                jobs.append((b, "cross", ea, a["sup"], b["typ"], cname, cmd, {"support_delivery": a["how"], "support_requested": a["request"]}))
    tus = {lang: wb.root / f"tu_{lang}{'.c' if lang == 'c' else '.cpp'}" for lang in ("c", "cpp")}
    with concurrent.futures.ThreadPoolExecutor(max_workers=base.NWORK) as ex:
        futs = [(j, ex.submit(base.compile_tu, wb, j[0]["lang"], j[3], j[4], tus[j[0]["lang"]], base.TYPE_STEMS, j[5], j[6])) for j in jobs]
        results = [(j, f.result()) for j, f in futs]
    for (r, tag, e_sup, _, _, cname, cmd, extra), res in results:
        lang = r["lang"]
        d = wb.dom[lang]
        e_typ = d.effective(d.ordered(dict(d.defaults, **r["request"])))
        diff = base.differing_keys(e_sup, e_typ)
        names = {od.real_name(lang, k): k for k in set(e_sup) | set(e_typ)}
        named = {names.get(n, n) for h in res["headers"].values() for _, n in h}
        ctx.case(("delivery", lang, r["name"], json.dumps(r["how"], sort_keys=True, default=str), tag, base.canon(e_sup), cname), True)
        ctx.count("delivery-pair:" + tag + (":accepted" if res["rc"] == 0 else ":rejected"))
        rp = dict({"delivery": r["name"], "lang": lang, "types_delivery": r["how"], "types_requested_by_precedence": r["request"],
                   "types_invocation": r.get("invocation"), "effective_support": e_sup, "effective_types": e_typ, "compiler": cname,
                   "cmd": " ".join(res["cmd"]), "rc": res["rc"], "diagnostics": res["headers"], "other_errors": res["other"][:5],
                   "stderr": res["stderr"][:800]}, **extra)
        if diff:
            if res["rc"] == 0:
                ctx.fail({"kind": "different-sets-accepted", "lang": lang, "options": diff, "delivery": r["name"]},
                         "type headers whose options were requested through this configuration source compile against a support header "
                         "generated with a different requested option set", rp)
            elif not (named & set(diff)):
                ctx.fail({"kind": "rejected-without-naming-the-option", "lang": lang, "options": diff, "delivery": r["name"]},
                         "the build fails but no static-assertion diagnostic names a differing option", rp)
        elif named:
            ctx.fail({"kind": "identical-sets-rejected", "lang": lang, "options": sorted(named), "delivery": r["name"]},
                     "the same requested option set delivered through this configuration source and delivered plainly yields headers "
                     "that the option guard rejects: the source did not apply the requested value", rp)
        elif res["rc"] != 0 and base.strictly_compilable(lang, d, e_typ):
            first = (res["other"] or ["?:0: ?"])[0]
            ctx.fail({"kind": "identical-sets-do-not-compile", "lang": lang, "file": first.split(":")[0], "error": first.split(": ", 1)[-1][:60],
                      "delivery": r["name"]}, "headers generated from identical requested options do not compile together", rp)
    ctx.extra["deliveries"] = len(runs)
    ctx.extra["delivery_pair_compiles"] = len(jobs)
