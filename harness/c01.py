"""
C01 — generated serializers emit exactly the DSDL-specified wire representation.

Proof: lean/NunavutVerif/Properties/C01.lean (spec layer Model/Dsdl.lean).  Tie: every generated serializer (C, C++,
Python; option sets of codec_engine.target_plan) against the compiled Lean driver `codec` on the same request lines:
produced bytes and error kind, `ser` (buffer of the advertised size, pre-filled with 0xFF so that unwritten padding
shows) and `serbuf` with exactly the advertised size / one byte less.  Failing-input search: codec_ref.py (independent
reference written from the DSDL rules) as the oracle on the same cases.
"""
from . import codec_engine as E
from . import codec_ref as R


def run(ctx):
    drv, sess, tally = E.common_setup(ctx, "C01")
    ctx.rule = ("per type: the zero value + N boundary-biased random values (min, max, +-1, out-of-range inside the storage type, NaN, +-inf, "
                "float16 ties, NaNs by bit pattern: signalling / quiet, payload in high or low mantissa bits only, over-long arrays, invalid "
                "tags) -> ser on every target; a third of them also serbuf with cap = advertised size, size-1 and size+1 (C/C++); per type up "
                "to K variable-length arrays in turn with capacity+1 / roundup8(capacity) / +1 elements -> ser and exactly-sized serbuf; "
                "Python target: every request also under 2 alternative spellings of its primitive arrays (tuple, exact / wider / narrower / "
                "byte-swapped / strided / read-only / unaligned / 2-d / object ndarray, bytes-likes; chosen by CRC of the request); "
                "Python only: 5 (12) values per type with 1-3 scalar number fields outside the DSDL range incl. beyond the C storage type — "
                "refused by the setter = n/a (counted), accepted = must serialize to the cast-adjusted bytes; "
                "non-trivial = value text is not the empty struct; distinct by (type, op, value)")
    rng = ctx.rng
    n = 60 if ctx.quick else 120
    reqs = E.corpus_requests(sess, "C01")
    for gt in sess.ns.types:
        mx = R.bounds(gt.expr)[1] // 8
        for i, v in enumerate(E.value_cases(rng, gt, n, nan_payloads=True)):
            reqs.append(E.Req(gt, "ser", v))
            if i < 3 or i % 3 == 0:       # zero and maximum-length values always go into exactly-sized buffers too
                reqs.append(E.Req(gt, "serbuf", (v, mx)))
                reqs.append(E.Req(gt, "serbuf", (v, rng.choice([max(0, mx - 1), mx + 1]))))
        # every variable-length array in turn (bool / byte-like / other / composite elements first) over its capacity: by one,
        # up to the next multiple of 8 (the size of bit-packed storage) and one beyond; also into exactly-sized buffers
        for v in E.overlong_values(rng, gt, 3 if ctx.quick else 8):
            reqs.append(E.Req(gt, "ser", v, origin="overlong"))
            reqs.append(E.Req(gt, "serbuf", (v, mx), origin="overlong"))
    E.run_requests(ctx, sess, drv, "ser", reqs, tally)
    # Python scalars are unbounded: number fields OUTSIDE the DSDL range, also beyond the C storage type (70000 in a uint16, 2**31
    # in an int32, 2**64, negative in an unsigned), standard and non-standard widths, both cast modes.  The generated setter may
    # refuse them (n/a, counted); whatever it ACCEPTS must serialize to the saturated / truncated bytes of the model.
    py = [t for t in sess.targets if t.lang == "py"]
    if py:
        preqs = []
        for gt in sess.ns.types:
            for v in E.out_of_range_scalar_values(rng, gt, 5 if ctx.quick else 12):
                preqs.append(E.Req(gt, "ser", v, origin="py-out-of-range-scalar"))
        E.run_requests(ctx, sess, drv, "ser-py-out-of-range-scalars", preqs, tally, targets=py)
    E.record_spellings(ctx, sess)
    E.run_refinement_ties(ctx)
    ctx.sample({"type": reqs[-1].gt.tstr[:200], "request": reqs[-1].target_line()[:200]})


def replay(ctx, path):
    return E.replay(ctx, path)
