"""
C01 — generated serializers emit exactly the DSDL-specified wire representation.

Proof: lean/NunavutVerif/Properties/C01.lean (spec layer Model/Dsdl.lean).  Tie: every generated serializer (C, C++,
Python; option sets of codec_engine.target_plan) against the compiled Lean driver `codec` on the same request lines:
produced bytes and error kind, `ser` (buffer of the advertised size, pre-filled with 0xFF so that unwritten padding
shows) and `serbuf` with exactly the advertised size / one byte less.  Failing-input search: codec_ref.py (independent
reference written from the DSDL rules) as the oracle on the same cases.
"""
from . import codec_engine as E
from . import codec_ref as R


def run(ctx):
    drv, sess, tally = E.common_setup(ctx, "C01")
    ctx.rule = ("per type: the zero value + N boundary-biased random values (min, max, +-1, out-of-range inside the storage type, NaN, +-inf, "
                "float16 ties, over-long arrays, invalid tags) -> ser on every target; a third of them also serbuf with cap = advertised size, "
                "size-1 and size+1 (C/C++); non-trivial = value text is not the empty struct; distinct by (type, op, value)")
    rng = ctx.rng
    n = 60 if ctx.quick else 120
    reqs = E.corpus_requests(sess, "C01")
    for gt in sess.ns.types:
        mx = R.bounds(gt.expr)[1] // 8
        for i, v in enumerate(E.value_cases(rng, gt, n)):
            reqs.append(E.Req(gt, "ser", v))
            if i < 3 or i % 3 == 0:       # zero and maximum-length values always go into exactly-sized buffers too
                reqs.append(E.Req(gt, "serbuf", (v, mx)))
                reqs.append(E.Req(gt, "serbuf", (v, rng.choice([max(0, mx - 1), mx + 1]))))
    E.run_requests(ctx, sess, drv, "ser", reqs, tally)
    E.run_refinement_ties(ctx)
    ctx.sample({"type": reqs[-1].gt.tstr[:200], "request": reqs[-1].target_line()[:200]})


def replay(ctx, path):
    return E.replay(ctx, path)
