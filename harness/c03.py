"""
C03 — round trip, cross-target and cross-option agreement of the generated codecs.

Proof: lean/NunavutVerif/Properties/C03.lean (de (ser v) = adj v, ser (adj v) = ser v).  Tie: the in-memory round trip of
every target (`rt`: serialize, deserialize the produced bytes into a fresh object, serialize that again) against the Lean
driver's `ser` + `adj`.  Failing-input search: (a) codec_ref.py as the oracle of the round trip, (b) oracle-free: every
pair of targets / option sets that answered the same `rt`, `ser` or `de` request must agree (bytes, decoded values, error).
"""
from . import codec_engine as E


def run(ctx):
    drv, sess, tally = E.common_setup(ctx, "C03")
    ctx.rule = ("per type: the zero value + N boundary-biased values -> rt on every target (bytes, decoded dump = adj(v), consumed = produced, "
                "re-serialisation identical); M byte strings -> de on every target; rtreuse pairs (V1 then V2 through the SAME source and "
                "destination objects: maximal -> zero, maximal -> emptied, random -> emptied, random -> random; Python: every field re-assigned "
                "through the setters) answered as rt V2; dereuse pairs (A then B into the same object) answered as de B; one array over capacity "
                "/ one prefix over capacity; Python: array spellings on the way in (incl. non-native byte order, strided, read-only), fragment "
                "spellings on the way back (incl. the fragments exactly as serialize() returned them); all pairs of targets compared on every "
                "request; non-trivial = not the empty struct / empty string; distinct by (type, op, input)")
    rng = ctx.rng
    n, k, r = (40, 3, 10) if ctx.quick else (90, 5, 25)
    reqs = E.corpus_requests(sess, "C03")
    for gt in sess.ns.types:
        for v in E.value_cases(rng, gt, n, nan_payloads=True):
            reqs.append(E.Req(gt, "rt", v))
        for b in E.bytes_cases(rng, gt, k, r):
            reqs.append(E.Req(gt, "de", b))
        # round trips through REUSED objects (a subscriber that keeps its message object): the second value / string goes
        # through source and destination objects that still hold the first
        for v1, v2 in E.reuse_value_pairs(rng, gt, 6 if ctx.quick else 14):
            reqs.append(E.Req(gt, "rtreuse", (v1, v2), origin="reuse"))
        for a, b in E.reuse_byte_pairs(rng, gt, 4 if ctx.quick else 10):
            reqs.append(E.Req(gt, "dereuse", (a, b), origin="reuse"))
        for v in E.overlong_values(rng, gt, 2 if ctx.quick else 6):
            reqs.append(E.Req(gt, "rt", v, origin="overlong"))
        for b in E.overcap_bytes(rng, gt, 2 if ctx.quick else 6):
            reqs.append(E.Req(gt, "de", b, origin="overcap"))
        for b in E.nan_wire_bytes(rng, gt, 2 if ctx.quick else 6):
            reqs.append(E.Req(gt, "de", b, origin="nan-patterns"))
    E.run_requests(ctx, sess, drv, "roundtrip", reqs, tally, cross_target=True)
    E.record_spellings(ctx, sess)
    E.run_refinement_ties(ctx)
    ctx.sample({"type": reqs[-1].gt.tstr[:200], "request": reqs[-1].target_line()[:200]})


def replay(ctx, path):
    return E.replay(ctx, path)
