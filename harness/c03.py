"""
C03 — round trip, cross-target and cross-option agreement of the generated codecs.

Proof: lean/NunavutVerif/Properties/C03.lean (de (ser v) = adj v, ser (adj v) = ser v).  Tie: the in-memory round trip of
every target (`rt`: serialize, deserialize the produced bytes into a fresh object, serialize that again) against the Lean
driver's `ser` + `adj`.  Failing-input search: (a) codec_ref.py as the oracle of the round trip, (b) oracle-free: every
pair of targets / option sets that answered the same `rt`, `ser` or `de` request must agree (bytes, decoded values, error).
"""
from . import codec_engine as E


def run(ctx):
    drv, sess, tally = E.common_setup(ctx, "C03")
    ctx.rule = ("per type: the zero value + N boundary-biased values -> rt on every target (bytes, decoded dump = adj(v), consumed = produced, "
                "re-serialisation identical); M byte strings -> de on every target; all pairs of targets compared on every request; "
                "non-trivial = not the empty struct / empty string; distinct by (type, op, input)")
    rng = ctx.rng
    n, k, r = (40, 3, 10) if ctx.quick else (90, 5, 25)
    reqs = E.corpus_requests(sess, "C03")
    for gt in sess.ns.types:
        for v in E.value_cases(rng, gt, n):
            reqs.append(E.Req(gt, "rt", v))
        for b in E.bytes_cases(rng, gt, k, r):
            reqs.append(E.Req(gt, "de", b))
    E.run_requests(ctx, sess, drv, "roundtrip", reqs, tally, cross_target=True)
    E.run_refinement_ties(ctx)
    ctx.sample({"type": reqs[-1].gt.tstr[:200], "request": reqs[-1].target_line()[:200]})


def replay(ctx, path):
    return E.replay(ctx, path)
