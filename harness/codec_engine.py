"""
codec_engine — shared engine of the codec checks C01, C02, C03, C05.

One *session* per (seed, tier) and process: the regression DSDL types of corpus/C0x/dsdl plus a dsdlgen namespace,
generated for every target/option set by the working tree's nnvg, compiled (in parallel) and kept for every check that
runs in the same process.  Each check builds its own request list from ctx.rng and calls `run_requests`:

    model  = Lean driver `codec` (when it builds; otherwise absent)       -> ctx.disagree on a difference
    oracle = codec_ref (independent Python reference, always)             -> ctx.fail on a difference (failing input =
             DSDL text + value/bytes + target + options), key = {kind, lang, leaf}
    Lean vs codec_ref on the same line                                    -> ctx.disagree("lean-vs-reference")

Cross-target / cross-option agreement (C03) is evaluated on the same answers: every pair of targets that both
answered a request must agree (`cross_target`).
"""
import atexit
import concurrent.futures
import json
import os
import pathlib
import random
import re
import shutil
import tempfile
import time

from . import common
from . import dsdlgen as G
from . import codec_ref as R
from . import codec_targets as T

PROPS = ["C01", "C02", "C03", "C05"]
_SESSIONS = {}


# ------------------------------------------------------------------------------------------------------------
# session: namespace + built targets
# ------------------------------------------------------------------------------------------------------------

def target_plan(ns, base, tier):
    """The option sets of properties.yaml exercised per tier.  -> list of unbuilt targets."""
    alts = (2, 2) if tier == "quick" else (3, 4)     # alternative array / fragment spellings per request (see codec_pyworker.py)
    ts = [T.PyTarget(ns, base / "py", None, alts=alts),
          T.PyTarget(ns, base / "py_O", None, optimize=True, ndarray=True, alts=alts),     # python -O: the generated asserts do not exist
          T.CTarget(ns, base / "c_any", "any", False),
          T.CTarget(ns, base / "c_little_asserts", "little", True),
          T.CTarget(ns, base / "c_ovr", "little", False, extra_nnvg=["--enable-override-variable-array-capacity"], tag="c/little+override-capacity"),
          T.CppTarget(ns, base / "cpp14_asserts", "c++14", asserts=True),
          T.CppTarget(ns, base / "cpp17", "c++17"),
          T.CppTarget(ns, base / "cpp17pmr", "c++17-pmr"),
          T.CppTarget(ns, base / "cpp20", "c++20")]
    if tier != "quick":
        ts += [T.CTarget(ns, base / "c_any_asserts", "any", True),
               T.CTarget(ns, base / "c_little", "little", False),
               T.CTarget(ns, base / "c_any_clang", "any", False, cc="clang", cflags=("-O0",)),   # clang -O1 needs minutes on the big shim
               T.CTarget(ns, base / "c_ovr_any", "any", False, extra_nnvg=["--enable-override-variable-array-capacity"], tag="c/any+override-capacity"),
               T.CppTarget(ns, base / "cpp14", "c++14"),
               T.CppTarget(ns, base / "cpp17_clang", "c++17", cxx="clang++", cxxflags=("-O0",))]
    # big-endian output cannot run on this host: generated and compiled only
    ts.append(T.CTarget(ns, base / "c_big", "big", False, run=False))
    return ts


class Session:
    def __init__(self, seed, tier, n_types, ns_seed, texts=None, plan=None):
        base = os.environ.get("VERIF_SCRATCH_BASE") or tempfile.gettempdir()
        self.dir = pathlib.Path(tempfile.mkdtemp(prefix="nv_codec_", dir=base))
        atexit.register(self.cleanup)
        self.tier = tier
        self.t_build = {}
        t0 = time.time()
        src = self.dir / "dsdl"
        src.mkdir()
        if texts is not None:
            G.write_texts(src, texts)
            self.ns = G.load(src / "vns")
        else:
            # regression types first: corpus/C0x/dsdl/vns/... are part of the namespace (and referencable)
            for p in PROPS:
                d = common.VERIF / "corpus" / p / "dsdl"
                if d.exists():
                    shutil.copytree(d, src, dirs_exist_ok=True)
            self.ns = G.generate(random.Random(ns_seed), src, n_types, "vns")
        self.t_build["dsdl"] = round(time.time() - t0, 2)
        self.by_name = {f"{gt.full_name}.{gt.version[0]}.{gt.version[1]}": gt for gt in self.ns.types}
        self.targets, self.compile_only, self.build_failures = [], [], []
        self._build((plan or target_plan)(self.ns, self.dir / "build", tier))

    def _build(self, plan):
        t0 = time.time()
        numpy_dir = T.ensure_numpy()
        for t in plan:
            if isinstance(t, T.PyTarget):
                t.numpy_dir = numpy_dir
        self.t_build["numpy"] = round(time.time() - t0, 2)
        t0 = time.time()
        with concurrent.futures.ThreadPoolExecutor(max_workers=T.NCPU) as ex:
            gen_ok = list(ex.map(lambda t: t.build() if isinstance(t, T.PyTarget) else t.generate(), plan))
            self.t_build["nnvg"] = round(time.time() - t0, 2)
            t0 = time.time()
            jobs = []
            for t, ok in zip(plan, gen_ok):
                if not ok:
                    self.build_failures.append((t, "nnvg", t.build_log[-1500:]))
                elif isinstance(t, T.CTarget):
                    jobs.append((t, ex.submit(t.compile)))
                elif isinstance(t, T.CppTarget):
                    jobs.append((t, [ex.submit(T._compile, cmd) for cmd in t.jobs]))
            for t, j in jobs:
                if isinstance(t, T.CTarget):
                    ok = j.result()
                else:
                    res = [f.result() for f in j]
                    ok = all(r[0] for r in res)
                    t.build_log += "".join(r[1][-2500:] for r in res if not r[0])
                    ok = ok and t.link()
                if not ok:
                    self.build_failures.append((t, "compile", t.build_log[-2500:]))
        self.t_build["compile"] = round(time.time() - t0, 2)
        for t, ok in zip(plan, gen_ok):
            if not ok or any(t is bf[0] for bf in self.build_failures):
                continue
            if isinstance(t, T.CTarget) and not t.run:
                self.compile_only.append(t)
            else:
                self.targets.append(t)

    def cleanup(self):
        for t in self.targets:
            try:
                t.close()
            except Exception:
                pass
        shutil.rmtree(self.dir, ignore_errors=True)


def get_session(ctx):
    """The session of this (seed, tier); the namespace seed is the first draw of a fresh Random(seed)."""
    key = (ctx.seed, ctx.tier, str(common.REPO))
    if key not in _SESSIONS:
        ns_seed = random.Random(ctx.seed).getrandbits(64)
        n_types = 40 if ctx.quick else 360
        _SESSIONS[key] = Session(ctx.seed, ctx.tier, n_types, ns_seed)
    return _SESSIONS[key]


REFINE_MODULES = {"C01": ["C01Refine", "C01RefinePy", "C01RefineCpp"], "C02": ["C01Refine", "C01RefinePy", "C01RefineCpp"],
                  "C03": ["C01RefineCpp"]}
REFINE_EXES = {"C01": ["genc", "genpy", "gencpp"], "C02": ["genc", "genpy", "gencpp"], "C03": ["gencpp"], "C05": ["cliteral"]}
REFINE_MODULES["C05"] = ["C05Lit"]
_DRIVERS = {}


def run_refinement_ties(ctx):
    """Tie of the implementation-shaped models GenC / GenPy to the generated code (and to the spec driver)."""
    drivers = _DRIVERS.get(id(ctx)) or {}
    t0 = time.time()
    if "genc" in drivers:
        from . import genc_tie
        genc_tie.run_genc(ctx, drivers)
    if "genpy" in drivers:
        from . import genpy_tie
        genpy_tie.run_genpy(ctx, drivers)
    if "gencpp" in drivers:
        from . import gencpp_tie
        gencpp_tie.run_gencpp(ctx, drivers)
    ctx.extra.setdefault("seconds", {})["refinement_ties"] = round(time.time() - t0, 2)


def prove(ctx, prop):
    """ctx.prove, tolerant of a property file / driver that does not exist yet. -> Driver or None."""
    pf = common.LEAN / "NunavutVerif" / "Properties" / f"{prop}.lean"
    if pf.exists():
        # the refinement layers (implementation-shaped models of the C and Python targets proved equal to the spec)
        # serve C01/C02 (and C04/C18 through their own checks): their theorems are counted by name prefix
        refine = [m for m in REFINE_MODULES.get(prop, []) if (common.LEAN / "NunavutVerif" / "Properties" / f"{m}.lean").exists()]
        exes = ["codec"] + [e for e in REFINE_EXES.get(prop, []) if common.exe_root(e).exists()]
        drivers = ctx.prove([prop] + refine, exes=exes, name_filter=(lambda n, p=prop: n.startswith(p + "_")) if refine else None)
        ctx.extra["drivers"] = sorted(drivers)
        _DRIVERS[id(ctx)] = drivers
        return drivers.get("codec")
    ctx.broken.append({"kind": "property-file-missing", "file": str(pf.relative_to(common.VERIF))})
    if (common.LEAN / "Drivers" / "Codec.lean").exists():
        ok, log = ctx.lake(["codec"])
        if ok:
            return common.Driver(common.LEAN / ".lake" / "build" / "bin" / "codec")
        ctx.broken.append({"kind": "driver-build", "exes": ["codec"], "log_tail": log[-2000:]})
    return None


# ------------------------------------------------------------------------------------------------------------
# outcomes
# ------------------------------------------------------------------------------------------------------------

def _bytes(tok):
    return b"" if tok in ("-", "") else bytes.fromhex(tok)


class Canon:
    """Canonical form of a reference value, computed only when something has to be compared with it."""
    __slots__ = ("e", "v", "_c")

    def __init__(self, e, v):
        self.e, self.v, self._c = e, v, None

    def c(self):
        if self._c is None:
            self._c = (G.canon_value(self.e, self.v),)
        return self._c[0]

    def __eq__(self, other):
        return self.c() == (other.c() if isinstance(other, Canon) else other)

    def __ne__(self, other):
        return not self.__eq__(other)

    def __hash__(self):
        return hash(self.c())

    def __repr__(self):
        return repr(self.c())


def unwrap(x):
    return x.c() if isinstance(x, Canon) else x


def parse_answer(op, expr, ans):
    """Answer line -> comparable outcome tuple."""
    if ans is None:
        return ("missing",)
    if ans == "n/a":
        return ("na",)
    if ans.startswith("crash:"):
        return ("crash", ans[6:])
    if ans.startswith("err:exception:"):
        return ("exc", ans[14:])
    if ans.startswith("err:spelling:"):
        # the target answered the same request differently for another spelling of the same input (see codec_pyworker.py,
        # codec_shim_rt.h): ("spelling", name of the spelling, its answer)
        name, _, alt = ans[13:].partition(":")
        return ("spelling", name, alt)
    if ans.startswith("err:"):
        return ("err", ans[4:])
    if not ans.startswith("ok"):
        return ("garbled", ans[:100])
    body = ans[2:].strip()
    try:
        if op in ("ser", "serbuf"):
            return ("ser", _bytes(body))
        if op == "de":
            vs, cons = body.rsplit(" ", 1)
            return ("de", G.canon_value(expr, G.parse_value(expr, vs)), None if cons == "?" else int(cons))
        if op == "rt":
            first, _, rest = body.partition(" ")
            b1 = _bytes(first)
            if rest.startswith("err:"):
                return ("rt", b1, ("err", rest[4:]))
            toks = rest.rsplit(" ", 2)
            vs, cons, last = toks
            b2 = ("err", last[4:]) if last.startswith("err:") else _bytes(last)
            return ("rt", b1, (G.canon_value(expr, G.parse_value(expr, vs)), None if cons == "?" else int(cons), b2))
        if op == "bounds":
            return ("bounds",) + tuple(int(x) for x in body.split())
        if op == "adj":
            return ("adj", G.canon_value(expr, G.parse_value(expr, body)))
    except (ValueError, IndexError) as ex:
        return ("garbled", f"{ans[:100]} ({ex})")
    return ("garbled", ans[:100])


def ref_outcome(op, expr, arg, with_text=False):
    """What the independent reference says (the oracle); with_text: also the canonical answer lines (native, Python)."""
    def hx(b):
        return b.hex() or "-"
    try:
        if op == "ser":
            b = R.ser(expr, arg)
            out, txt = ("ser", b), ("ok " + hx(b),) * 2
        elif op == "serbuf":
            b = R.serbuf(expr, arg[0], arg[1])
            out, txt = ("ser", b), ("ok " + hx(b),) * 2
        elif op == "de":
            v, c = R.de(expr, arg)
            out = ("de", Canon(expr, v), c)
            vs = G.fmt_value(expr, v, decoded=True) if with_text else ""
            txt = (f"ok {vs} {c}", f"ok {vs} ?")
        elif op == "rt":
            b = R.ser(expr, arg)
            a = R.adj(expr, arg)
            out = ("rt", b, (Canon(expr, a), len(b), b))
            vs = G.fmt_value(expr, a, decoded=True) if with_text else ""
            txt = (f"ok {hx(b)} {vs} {len(b)} {hx(b)}", f"ok {hx(b)} {vs} ? {hx(b)}")
        else:
            raise ValueError(op)
    except R.CodecError as ex:
        out, txt = ("err", ex.kind), ("err:" + ex.kind,) * 2
    return (out, txt) if with_text else out


def _canon_decode(expr, data):
    try:
        v, c = R.de(expr, data)
        return (G.canon_value(expr, v), c)
    except R.CodecError as ex:
        return ("err", ex.kind)


def same_outcome(expr, want, got, nan=False):
    """None if `got` matches `want`, else a short mismatch kind."""
    if got[0] == "na":
        return None
    if got[0] in ("crash", "exc", "garbled", "missing"):
        return got[0] if got[0] != "exc" else "exception:" + got[1].split(":")[0]
    if got[0] == "spelling":
        return "input-spelling"
    if want[0] == "err":
        if got[0] == "err":
            if got[1] == want[1] or (got[1] == "invalid" and want[1] in ("bad-array-length", "bad-union-tag", "bad-delimiter-header")):
                return None
            return "error-kind"
        return "accepted-invalid"
    if got[0] == "err":
        return "rejected-valid:" + got[1]
    if want[0] == "ser":
        if got[1] == want[1]:
            return None
        if nan and len(got[1]) == len(want[1]) and _canon_decode(expr, got[1]) == _canon_decode(expr, want[1]):
            return None
        return "bytes-length" if len(got[1]) != len(want[1]) else "bytes"
    if want[0] == "de":
        if got[1] != want[1]:
            return "value"
        if got[2] is not None and got[2] != want[2]:
            return "consumed"
        return None
    if want[0] == "rt":
        k = same_outcome(expr, ("ser", want[1]), ("ser", got[1]), nan)
        if k:
            return k
        w, g = want[2], got[2]
        if g[0] == "err":
            return "roundtrip-rejected:" + g[1]
        if g[0] != w[0]:
            return "roundtrip-value"
        if g[1] is not None and g[1] != w[1]:
            return "roundtrip-consumed"
        if isinstance(g[2], tuple):
            return "reserialize-rejected:" + g[2][1]
        k = same_outcome(expr, ("ser", w[2]), ("ser", g[2]), nan)
        return ("reserialize-" + k) if k else None
    return "unknown-outcome"


# ---- localisation of a difference (-> 'sig' of the failure key) ------------------------------------------------

def _first_diff(e, a, b, path):
    k = e[0]
    if a == b:
        return None
    if k in "uifbv":
        return path + [G.fmt_type(e)]
    if k in "al":
        if len(a) != len(b):
            return path + [k, "length"]
        for x, y in zip(a, b):
            d = _first_diff(e[1], x, y, path + [k])
            if d:
                return d
    if k == "s":
        for f, x, y in zip(e[1], a, b):
            d = _first_diff(f, x, y, path + ["s"])
            if d:
                return d
    if k == "n":
        if a[0] != b[0]:
            return path + ["n", "tag"]
        return _first_diff(e[1][a[0]], a[1], b[1], path + ["n"])
    if k == "d":
        return _first_diff(e[2], a, b, path + ["d"])
    return path + ["?"]


def _width_class(tok):
    """'(i 15 s)' -> 'i<16s' : keeps the defect class, drops the exact width."""
    if not tok.startswith("("):
        return tok
    parts = tok.strip("()").split()
    if parts[0] in "uif" and len(parts) == 3:
        n = int(parts[1])
        if parts[0] == "f":
            return f"f{n}{parts[2]}"
        std = n in (8, 16, 32, 64)
        return f"{parts[0]}{'std' if std else ('<8' if n < 8 else '<16' if n < 16 else '<32' if n < 32 else '<64')}{parts[2]}"
    return parts[0]


def signature(expr, want, got, kind):
    """Where (in terms of type constructors) the first difference sits."""
    try:
        top = expr[2] if expr[0] == "d" else expr
        va = vb = None
        if want[0] == "de" and got[0] == "de":
            va, vb = unwrap(want[1]), unwrap(got[1])
        elif want[0] == "ser" and got[0] == "ser":
            da, db = _canon_decode(expr, want[1]), _canon_decode(expr, got[1])
            if da[0] == "err" or db[0] == "err":
                return "undecodable-output"
            if da[0] == db[0]:
                return "padding-bits"
            va, vb = da[0], db[0]
        elif want[0] == "rt" and got[0] == "rt":
            if want[1] != got[1]:
                return signature(expr, ("ser", want[1]), ("ser", got[1]), kind)
            if not isinstance(got[2][0], str) and want[2][0] != got[2][0]:
                va, vb = unwrap(want[2][0]), unwrap(got[2][0])
            elif isinstance(got[2][2], bytes) and got[2][2] != want[2][2]:
                return signature(expr, ("ser", want[2][2]), ("ser", got[2][2]), kind)
        if va is not None:
            d = _first_diff(top, va, vb, [])
            if d:
                return ".".join(_width_class(x) for x in d[-2:])
    except Exception as ex:   # noqa - localisation is best effort
        return "unlocalised:" + type(ex).__name__
    return "-"


# ------------------------------------------------------------------------------------------------------------
# requests
# ------------------------------------------------------------------------------------------------------------

class Req:
    """One request.  ops: ser V | serbuf (V, cap) | de bytes | rt V, and the reused-object forms
    dereuse (bytesA, bytesB): decode A into an object, then B into the SAME object      -> must answer as `de B`
    rtreuse (V1, V2): round trip of V1, then of V2 through the SAME source / destination -> must answer as `rt V2`
    (`bop` / `marg`: the plain op and argument whose model answer is expected)."""
    __slots__ = ("gt", "op", "arg", "text", "origin", "bop", "marg", "mtext")

    def __init__(self, gt, op, arg, origin="random"):
        self.gt, self.op, self.arg, self.origin = gt, op, arg, origin
        self.bop, self.marg = op, arg
        e = gt.expr
        if op in ("ser", "rt"):
            self.text = G.fmt_value(e, arg)
        elif op == "serbuf":
            self.text = G.fmt_value(e, arg[0]) + " " + str(arg[1])
        elif op == "de":
            self.text = arg.hex() or "-"
        elif op == "dereuse":
            self.bop, self.marg = "de", arg[1]
            self.text = (arg[0].hex() or "-") + " " + (arg[1].hex() or "-")
        elif op == "rtreuse":
            self.bop, self.marg = "rt", arg[1]
            self.text = G.fmt_value(e, arg[0]) + " | " + G.fmt_value(e, arg[1])
        else:
            raise ValueError(op)
        self.mtext = self.text if self.bop == op else (self.marg.hex() or "-") if self.bop == "de" else G.fmt_value(e, self.marg)

    def target_line(self):
        return f"{self.op} {self.gt.index} {self.text}"

    def model_lines(self):
        if self.bop == "rt":
            return [f"ser {self.gt.tstr} {self.mtext}", f"adj {self.gt.tstr} {self.mtext}"]
        return [f"{self.bop} {self.gt.tstr} {self.mtext}"]

    def value(self):
        return self.marg[0] if self.op == "serbuf" else self.marg


def parse_arg(gt, op, text):
    """Inverse of Req.text (corpus files, replays)."""
    def hx(t):
        return b"" if t == "-" else bytes.fromhex(t)
    if op == "de":
        return hx(text)
    if op == "dereuse":
        a, _, b = text.partition(" ")
        return (hx(a), hx(b))
    if op == "serbuf":
        vs, cap = text.rsplit(" ", 1)
        return (G.parse_value(gt.expr, vs), int(cap))
    if op == "rtreuse":
        a, _, b = text.partition(" | ")
        return (G.parse_value(gt.expr, a), G.parse_value(gt.expr, b))
    return G.parse_value(gt.expr, text)


def lean_outcomes(drv, reqs, want=None, texts=None):
    """Answers of the Lean driver as outcomes.  want/texts: reference outcomes and their canonical lines (fast path:
    an answer that is textually the canonical line needs no parsing)."""
    lines, spans = [], []
    for r in reqs:
        ml = r.model_lines()
        spans.append((len(lines), len(ml)))
        lines += ml
    ans = drv.ask(lines, timeout=1800)
    out = []
    for i, (r, (a, n)) in enumerate(zip(reqs, spans)):
        e = r.gt.expr
        if r.bop != "rt":
            if texts is not None and ans[a] == texts[i][0]:
                out.append(want[i])
            else:
                out.append(parse_answer(r.bop, e, ans[a]))
            continue
        s = parse_answer("ser", e, ans[a])
        if s[0] != "ser":
            out.append(s)
            continue
        j = parse_answer("adj", e, ans[a + 1])
        if j[0] != "adj":
            out.append(("garbled", str(j)))
            continue
        out.append(("rt", s[1], (j[1], len(s[1]), s[1])))
    return out


def deps_texts(ns, gt):
    """The DSDL files a type needs (its own + everything it references, transitively)."""
    import pydsdl
    need = {}

    def visit(t):
        t = t.inner_type if isinstance(t, pydsdl.DelimitedType) else t
        if isinstance(t, pydsdl.ArrayType):
            visit(t.element_type)
        elif isinstance(t, pydsdl.CompositeType):
            rel = str(pathlib.Path(t.source_file_path).resolve().relative_to(ns.root.resolve().parent))
            if rel not in need:
                need[rel] = ns.texts.get(rel) or pathlib.Path(t.source_file_path).read_text()
                for f in t.fields:
                    visit(f.data_type)
    visit(gt.model)
    return need


MAX_STORED_PER_KEY = 3


class Tally:
    """Caps what is stored per failure key; counts everything."""

    def __init__(self, ctx):
        self.ctx = ctx
        self.per_key = {}

    def fail(self, key, what, replay_fn):
        k = json.dumps(key, sort_keys=True)
        n = self.per_key.get(k, 0)
        self.per_key[k] = n + 1
        self.ctx.count("failure:" + ":".join(str(v) for v in key.values()))
        if n < MAX_STORED_PER_KEY:
            self.ctx.fail(key, what, replay_fn())


def run_requests(ctx, sess, drv, stream, reqs, tally, targets=None, cross_target=False):
    """Execute the requests on every target; compare with Lean (tie) and with the reference (failing-input search)."""
    if not reqs:
        return {}
    targets = sess.targets if targets is None else targets
    secs = ctx.extra.setdefault("seconds", {})
    t0 = time.time()
    # serbuf of ONE value object into many capacities (C05's sweep): the reference serializes the value once
    ser_memo, max_memo = {}, {}

    def ref_of(r):
        if r.bop != "serbuf":
            return ref_outcome(r.bop, r.gt.expr, r.marg, with_text=True)
        e = r.gt.expr
        if id(e) not in max_memo:
            max_memo[id(e)] = R.bounds(e)[1]
        if r.marg[1] * 8 < max_memo[id(e)]:
            return ("err", "buffer-too-small"), ("err:buffer-too-small",) * 2
        k = (id(e), id(r.marg[0]))
        if k not in ser_memo:
            ser_memo[k] = ref_outcome("ser", e, r.marg[0], with_text=True)
        return ser_memo[k]
    both = [ref_of(r) for r in reqs]
    want_ref = [b[0] for b in both]
    texts = [b[1] for b in both]
    secs["reference"] = round(secs.get("reference", 0) + time.time() - t0, 2)
    t0 = time.time()
    want_lean = lean_outcomes(drv, reqs, want_ref, texts) if drv is not None else None
    secs["lean_driver"] = round(secs.get("lean_driver", 0) + time.time() - t0, 2)
    nans = [G.has_nan(r.gt.expr, r.value()) if r.bop != "de" else False for r in reqs]
    # Lean vs reference: two independent readings of the same rules
    if want_lean is not None:
        for r, a, b, nan in zip(reqs, want_lean, want_ref, nans):
            if a != b and same_outcome(r.gt.expr, b, a, nan) is not None:
                ctx.count("lean-vs-reference-differences")
                if len(ctx.disagreements) < 200:
                    ctx.disagree("lean-vs-reference", {"type": r.gt.tstr, "op": r.op, "arg": r.text[:2000]}, str(a)[:1500], str(b)[:1500])
    for r, w in zip(reqs, want_ref):
        ctx.case((r.gt.tstr, r.op, r.text), nontrivial=(r.text not in ("-", "{}")))
        ctx.count(f"op:{r.op}")
        ctx.count("expected:" + (w[1] if w[0] == "err" else "ok"))
        ctx.count("origin:" + r.origin)
    lines = [r.target_line() for r in reqs]
    answers = {}
    def timed_ask(t):
        t1 = time.time()
        a = t.ask(lines)
        secs["ask:" + t.name] = round(secs.get("ask:" + t.name, 0) + time.time() - t1, 2)
        return a
    t0 = time.time()
    with concurrent.futures.ThreadPoolExecutor(max_workers=max(1, len(targets))) as ex:
        futs = {t.name: ex.submit(timed_ask, t) for t in targets}
        for t in targets:
            answers[t.name] = futs[t.name].result()
    secs["targets_wall"] = round(secs.get("targets_wall", 0) + time.time() - t0, 2)
    t0 = time.time()
    outcomes = {}
    slow = set()        # requests on which at least one target did not give the canonical answer (or n/a)
    for t in targets:
        outs = outcomes[t.name] = []
        for i, r in enumerate(reqs):
            e = r.gt.expr
            ans = answers[t.name][i]
            if ans == texts[i][0] or ans == texts[i][1]:
                # textually the canonical answer of the reference: nothing to parse
                outs.append(want_ref[i])
                ctx.count(f"answers:{t.name}")
                if want_lean is not None:
                    ctx.traces += 1
                    if want_lean[i] is not want_ref[i] and same_outcome(e, want_lean[i], want_ref[i], nans[i]) is not None:
                        ctx.count("lean-vs-impl-differences")
                        if len(ctx.disagreements) < 200:
                            ctx.disagree(stream, {"type": r.gt.tstr, "op": r.op, "arg": r.text[:2000], "target": t.name},
                                         str(want_lean[i])[:1500], ans[:1500])
                continue
            got = parse_answer(r.bop, e, ans)
            outs.append(got)
            if got[0] == "na":
                ctx.count(f"n/a:{t.lang}")
                continue
            slow.add(i)
            ctx.count(f"answers:{t.name}")
            if want_lean is not None:
                ctx.traces += 1
                k = same_outcome(e, want_lean[i], got, nans[i])
                if k is not None:
                    ctx.count("lean-vs-impl-differences")
                    if len(ctx.disagreements) < 200:
                        ctx.disagree(stream, {"type": r.gt.tstr, "op": r.op, "arg": r.text[:2000], "target": t.name},
                                     str(want_lean[i])[:1500], answers[t.name][i][:1500])
            k = same_outcome(e, want_ref[i], got, nans[i])
            if k is not None:
                sig = signature(e, want_ref[i], got, k) if got[0] in ("ser", "de", "rt") else (re.sub(r"\d+", "N", re.sub(r"/\S*/", "", got[1]))[:80] if got[0] in ("crash", "exc") else
                                                                                             got[1] if got[0] == "spelling" else "-")
                # leaf = the primitive / item the difference sits in: a stable handle for known_findings.json matches
                key = {"kind": f"{r.op}:{k}", "lang": t.lang, "leaf": sig.rsplit(".", 1)[-1]}
                tally.fail(key, f"{t.name}: {r.op} of {r.gt.full_name} differs from the DSDL rules ({k} at {sig})",
                           lambda r=r, t=t, i=i: {"type": f"{r.gt.full_name}.{r.gt.version[0]}.{r.gt.version[1]}", "expr": r.gt.tstr, "op": r.op,
                                                   "arg": r.text, "target": t.name, "options": t.options, "where": sig, "origin": r.origin, "files": deps_texts(sess.ns, r.gt),
                                                   "expected": fmt_outcome(want_ref[i]), "got": answers[t.name][i][:4000]})
    secs["compare"] = round(secs.get("compare", 0) + time.time() - t0, 2)
    if cross_target:
        names = [t.name for t in targets]
        for i, r in enumerate(reqs):
            if i not in slow:       # every target printed the canonical answer: they agree
                ctx.count("cross-target-comparisons")
                continue
            seen, generic_err = {}, []
            for n in names:
                o = outcomes[n][i]
                if o[0] in ("na", "crash", "exc", "garbled", "missing", "spelling"):
                    continue
                canon = o
                if o[0] == "de":                      # consumed size is not reported by Python: compare without it
                    canon = ("de", o[1])
                elif o[0] == "rt" and not isinstance(o[2][0], str):
                    canon = ("rt", o[1], (o[2][0], o[2][2]))
                if canon == ("err", "invalid"):       # Python cannot tell which representation error it was
                    generic_err.append(n)
                    continue
                seen.setdefault(canon, []).append(n)
            if generic_err:
                errg = [c for c in seen if c[0] == "err"]
                seen.setdefault(errg[0] if errg else ("err", "invalid"), []).extend(generic_err)
            groups = list(seen.items())
            ctx.count("cross-target-comparisons")
            if len(groups) > 1 and not (nans[i] and r.bop != "de"):
                langs = sorted({n.split("/")[0] for g in groups for n in g[1]})
                parts = sorted(sorted(g[1]) for g in groups)
                key = {"kind": f"cross-target:{r.op}", "langs": "+".join(langs), "split": json.dumps(parts) if len(langs) == 1 else "-"}
                tally.fail(key, f"targets disagree with each other on {r.op} of {r.gt.full_name}: {parts}",
                           lambda r=r, i=i: {"type": f"{r.gt.full_name}.{r.gt.version[0]}.{r.gt.version[1]}", "expr": r.gt.tstr, "op": r.op, "arg": r.text,
                                             "files": deps_texts(sess.ns, r.gt), "answers": {n: answers[n][i][:2000] for n in names}})
    return answers


def fmt_outcome(o):
    def conv(x):
        if isinstance(x, bytes):
            return x.hex() or "-"
        if isinstance(x, Canon):
            return conv(x.c())
        if isinstance(x, tuple):
            return [conv(y) for y in x]
        return x
    return conv(o)


# ------------------------------------------------------------------------------------------------------------
# case generators
# ------------------------------------------------------------------------------------------------------------

def maximal_value(rng, e):
    """A value of maximal serialized length: every variable array at capacity, the widest union option."""
    k = e[0]
    if k in "uifb":
        return G.gen_value(rng, e, oob=False)
    if k == "v":
        return None
    if k in "al":
        return [maximal_value(rng, e[1]) for _ in range(e[2])]
    if k == "s":
        return [maximal_value(rng, f) for f in e[1]]
    if k == "n":
        best = max(range(len(e[1])), key=lambda i: R._lens(e[1][i], {})[1])
        return (best, maximal_value(rng, e[1][best]))
    if k == "d":
        return maximal_value(rng, e[2])
    raise ValueError(e)


def value_cases(rng, gt, n, p_invalid=0.04, nan_payloads=False):
    """zero value, two values of MAXIMUM serialized length (in-range numbers, so that Python takes part), then random ones.
    nan_payloads: see dsdlgen.gen_value (only for streams whose comparison sees NaNs through decoding)."""
    out = [G.zero_value(gt.expr), maximal_value(rng, gt.expr), maximal_value(rng, gt.expr)]
    for i in range(n):
        # every other value stays inside the DSDL ranges so that the Python target (whose setters refuse anything else) takes part
        out.append(G.gen_value(rng, gt.expr, oob=(i % 2 == 0), p_invalid=p_invalid if i % 3 == 0 else 0.0, nan_payloads=nan_payloads))
    return out


def bytes_cases(rng, gt, n_valid, n_random):
    encs = []
    for i in range(n_valid):
        try:
            encs.append(R.ser(gt.expr, G.gen_value(rng, gt.expr, oob=False)))
        except R.CodecError:
            pass
    mx = R.bounds(gt.expr)[1] // 8
    return G.gen_byte_strings(rng, encs, n_random, min(mx + 8, 300))


# ---- values / byte strings that are invalid by LENGTH, placed at every variable-length array in turn --------------

def var_array_paths(e, path=()):
    """[(path, element type, capacity)] of every variable-length array inside e; path = child indices from the top
    (0 for 'the element' of an array; a delimited wrapper adds nothing)."""
    k = e[0]
    if k == "d":
        return var_array_paths(e[2], path)
    out = []
    if k == "l":
        out.append((path, e[1], e[2]))
    if k in "al":
        out += var_array_paths(e[1], path + (0,))
    elif k in "sn":
        for i, f in enumerate(e[1]):
            out += var_array_paths(f, path + (i,))
    return out


def value_with_count(rng, e, path, count, oob=False):
    """A value of e (numbers inside the DSDL ranges unless oob) whose variable-length array at `path` has `count` elements."""
    k = e[0]
    if k == "d":
        return value_with_count(rng, e[2], path, count, oob)
    if k == "l" and not path:
        return [G.gen_value(rng, e[1], oob=oob) for _ in range(count)]
    if k in "al":
        n = e[2] if k == "a" else rng.choice([1, 1, min(2, e[2]), min(3, e[2])])
        return [value_with_count(rng, e[1], path[1:], count, oob)] + [G.gen_value(rng, e[1], oob=oob) for _ in range(n - 1)]
    if k == "s":
        return [value_with_count(rng, f, path[1:], count, oob) if i == path[0] else G.gen_value(rng, f, oob=oob) for i, f in enumerate(e[1])]
    if k == "n":
        return (path[0], value_with_count(rng, e[1][path[0]], path[1:], count, oob))
    raise ValueError((e, path))


def _elem_class(el):
    return "bool" if el[0] == "b" else "byte" if el[0] in "ui" and el[1] <= 8 else "prim" if el[0] in "uif" else "composite"


def _pick_paths(rng, e, max_paths, max_cap=2000):
    """Up to max_paths variable-length arrays of e, every element class (bool = bit-packed storage in C, byte-like, other
    primitive, composite) and capacities that are / are not multiples of 8 represented before any class repeats."""
    groups = {}
    for path, el, cap in var_array_paths(e):
        if cap <= max_cap:
            groups.setdefault((_elem_class(el), cap % 8 == 0), []).append((path, el, cap))
    for g in groups.values():
        rng.shuffle(g)
    out = []
    keys = sorted(groups)
    while len(out) < max_paths and any(groups[k] for k in keys):
        for k in keys:
            if groups[k] and len(out) < max_paths:
                out.append(groups[k].pop())
    return out


def overlong_counts(cap):
    """Counts above the capacity: capacity + 1, the capacity rounded up to a multiple of 8 (the size of bit-packed
    storage), and one beyond that."""
    r8 = (cap + 8) // 8 * 8 if cap % 8 == 0 else (cap + 7) // 8 * 8
    return sorted({cap + 1, r8, r8 + 1})


def overlong_values(rng, gt, max_paths):
    """Values that are invalid only because ONE variable-length array holds more elements than its capacity."""
    out = []
    for path, el, cap in _pick_paths(rng, gt.expr, max_paths):
        for c in overlong_counts(cap):
            out.append(value_with_count(rng, gt.expr, path, c))
    return out


def relax_caps(e):
    """e with the capacity of every variable-length array raised to the largest count its length prefix can express
    (same wire layout, so that the reference serializer can write a length the real type forbids)."""
    k = e[0]
    if k == "l":
        return ("l", relax_caps(e[1]), (1 << G.prefix_bits(e[2])) - 1)
    if k == "a":
        return ("a", relax_caps(e[1]), e[2])
    if k in "sn":
        return (k, tuple(relax_caps(f) for f in e[1]))
    if k == "d":
        return ("d", e[1], relax_caps(e[2]))
    return e


def overcap_bytes(rng, gt, max_paths):
    """Byte strings in which ONE length prefix exceeds the capacity of its array (everything in front of it valid)."""
    out = []
    relaxed = relax_caps(gt.expr)
    for path, el, cap in _pick_paths(rng, gt.expr, max_paths):
        for c in overlong_counts(cap):
            if c >= (1 << G.prefix_bits(cap)):
                continue
            try:
                b = R.ser(relaxed, value_with_count(rng, gt.expr, path, c))
            except R.CodecError:
                continue
            out.append(b)
            if len(b) > 1:
                out.append(b[:rng.randrange(1, len(b))])      # and cut somewhere: the prefix may or may not survive
    return out


# ---- scalars outside the DSDL range, also beyond the C storage type (Python ints are unbounded) -----------------------

def _scalar_paths(e, path=()):
    """Paths of integer / float leaves that are NOT array elements (fields of composites, also of composites inside arrays)."""
    k = e[0]
    if k == "d":
        return _scalar_paths(e[2], path)
    if k in "uif":
        return [(path, e)]
    out = []
    if k in "al":
        if e[1][0] in "snd":
            out += _scalar_paths(e[1], path + (0,))
    elif k in "sn":
        for i, f in enumerate(e[1]):
            out += _scalar_paths(f, path + (i,))
    return out


def _out_of_range(rng, e):
    k, n = e[0], e[1]
    if k == "u":
        hi = (1 << n) - 1
        return rng.choice([hi + 1, hi + 2, hi + 1 + rng.randrange(1 << n), (1 << G.storage_bits(n)), (1 << G.storage_bits(n)) + rng.randrange(1, 5000),
                           1 << 64, (1 << 64) + 5, 3 * (hi + 1) + 7, -1, -(1 << 63) - 1, -rng.randrange(2, max(3, 1 << min(n, 60)))])
    if k == "i":
        lo, hi = -(1 << (n - 1)), (1 << (n - 1)) - 1
        return rng.choice([hi + 1, lo - 1, hi + 1 + rng.randrange(1 << n), lo - 1 - rng.randrange(1 << n), 1 << (G.storage_bits(n) - 1), -(1 << (G.storage_bits(n) - 1)) - 1,
                           (1 << n) + 3, 1 << 63, -(1 << 63) - 1, (1 << 64) + 1])
    mx = {16: 65504.0, 32: 3.4028234663852886e38, 64: None}[n]
    if mx is None:
        return None
    return rng.choice([1, -1]) * (rng.choice([65520.0, 1e6, 3.4028234663852886e38]) if n == 16 else rng.choice([3.4028235677973366e38, 1e39, 1.7976931348623157e308]))


def _with_leaf(e, v, path, x):
    k = e[0]
    if k == "d":
        return _with_leaf(e[2], v, path, x)
    if not path:
        return x
    if k in "al":
        if not v:
            raise LookupError("empty array on the path")
        return [_with_leaf(e[1], v[0], path[1:], x)] + list(v[1:])
    if k == "s":
        return [_with_leaf(f, y, path[1:], x) if i == path[0] else y for i, (f, y) in enumerate(zip(e[1], v))]
    if k == "n":
        if v[0] != path[0]:
            raise LookupError("another union option is selected")
        return (v[0], _with_leaf(e[1][v[0]], v[1], path[1:], x))
    raise LookupError("no such path")


def out_of_range_scalar_values(rng, gt, n):
    """In-range values in which 1-3 scalar (non-array-element) number fields are OUTSIDE the DSDL range of the field: just
    outside, outside the C storage type (70000 for uint16, 2**31 for int32, 2**64, negative for unsigned), both cast modes,
    standard and non-standard widths.  Meant for targets whose scalars are unbounded (Python)."""
    e = gt.expr
    leaves = _scalar_paths(e)
    out = []
    if not leaves:
        return out
    for _ in range(4 * n):
        if len(out) >= n:
            break
        v = G.gen_value(rng, e, oob=False)
        done = 0
        for path, leaf in rng.sample(leaves, min(len(leaves), rng.randint(1, 3))):
            x = _out_of_range(rng, leaf)
            if x is None:
                continue
            try:
                v, done = _with_leaf(e, v, path, x), done + 1
            except LookupError:       # the leaf is not part of this value (other union option, empty array)
                continue
        if done:
            out.append(v)
    return out


# ---- NaNs on the wire by bit pattern -------------------------------------------------------------------------------

NAN_WIRE = {16: [0x7C01, 0xFC01, 0x7DFF, 0x7E00, 0xFE00, 0x7FFF, 0x7C80, 0x7D00],
            32: [0x7F800001, 0xFF800001, 0x7F801FFF, 0x7FBFFFFF, 0x7FC00000, 0xFFC00000, 0x7FFFFFFF, 0x7F802000],
            64: [0x7FF0000000000001, 0xFFF0000000000001, 0x7FF000001FFFFFFF, 0x7FF7FFFFFFFFFFFF, 0x7FF8000000000000, 0xFFFFFFFFFFFFFFFF]}


def _float_leaves(e):
    k = e[0]
    if k == "f":
        return 1
    if k in "al":
        return _float_leaves(e[1])
    if k in "sn":
        return sum(_float_leaves(f) for f in e[1])
    if k == "d":
        return _float_leaves(e[2])
    return 0


def nan_wire_bytes(rng, gt, n):
    """Encodings of in-range values in which float fields carry NaN BIT PATTERNS (signalling / quiet, payload in the low
    mantissa bits only, both signs) instead of the canonical quiet NaN the reference serializer writes."""
    e = gt.expr
    if not _float_leaves(e):
        return []
    marks = {}

    def mark(e, v):
        k = e[0]
        if k == "f":
            if rng.random() < 0.5:
                x = G.bits2f(0x7FF8000000000000 + len(marks) + 1)        # a NaN that names its wire pattern
                marks[G.f2bits(x)] = rng.choice(NAN_WIRE[e[1]])
                return x
            return v
        if k in "al":
            return [mark(e[1], x) for x in v]
        if k == "s":
            return [mark(f, x) for f, x in zip(e[1], v)]
        if k == "n":
            return (v[0], mark(e[1][v[0]], v[1]))
        if k == "d":
            return mark(e[2], v)
        return v
    out = []
    orig = R.float_to_bits
    try:
        R.float_to_bits = lambda nbits, mode, x: marks[G.f2bits(x)] if x != x and G.f2bits(x) in marks else orig(nbits, mode, x)
        for _ in range(n):
            marks.clear()
            v = mark(e, G.gen_value(rng, e, oob=False))
            if marks:
                try:
                    out.append(R.ser(e, v))
                except R.CodecError:
                    pass
    finally:
        R.float_to_bits = orig
    return out


# ---- reused objects ---------------------------------------------------------------------------------------------

def emptied(e, v):
    """v with every variable-length array empty."""
    k = e[0]
    if k == "l":
        return []
    if k == "a":
        return [emptied(e[1], x) for x in v]
    if k == "s":
        return [emptied(f, x) for f, x in zip(e[1], v)]
    if k == "n":
        return (v[0], emptied(e[1][v[0]], v[1]))
    if k == "d":
        return emptied(e[2], v)
    return v


def reuse_value_pairs(rng, gt, n):
    """(first, second): the second value goes through objects that still hold the first (populated arrays, another
    union option) — maximal -> zero, maximal -> emptied, random -> emptied, random -> random."""
    e = gt.expr
    mk = lambda: G.gen_value(rng, e, oob=False)
    out = [(maximal_value(rng, e), G.zero_value(e)), (maximal_value(rng, e), emptied(e, mk())), (mk(), emptied(e, mk()))]
    while len(out) < n:
        out.append((maximal_value(rng, e) if rng.random() < 0.3 else G.gen_value(rng, e, oob=rng.random() < 0.3), G.gen_value(rng, e, oob=rng.random() < 0.3)))
    return out[:n]


def reuse_byte_pairs(rng, gt, n):
    """(first, second) byte strings: the second is decoded into the object that holds the decoded first — the empty
    string, the zero value, emptied values, proper PREFIXES of the first (the zero-extended part must not keep the
    first's values), random strings."""
    e = gt.expr

    def enc(v):
        try:
            return R.ser(e, v)
        except R.CodecError:
            return b""
    big = enc(maximal_value(rng, e))
    out = [(big, b""), (big, enc(G.zero_value(e))), (big, enc(emptied(e, G.gen_value(rng, e, oob=False))))]
    for _ in range(2):
        if len(big) > 1:
            out.append((big, big[:rng.randrange(1, len(big))]))
    while len(out) < n:
        a = enc(G.gen_value(rng, e, oob=False)) if rng.random() < 0.6 else big
        r = rng.random()
        if r < 0.4 and len(a) > 1:
            b = a[:rng.randrange(0, len(a))]
        elif r < 0.7:
            b = enc(emptied(e, G.gen_value(rng, e, oob=False)))
        else:
            b = bytes(rng.getrandbits(8) for _ in range(rng.randint(0, min(len(big) + 2, 40))))
        out.append((a, b))
    return out[:n]


def record_spellings(ctx, sess):
    """Input distribution of the Python target: how often each spelling of the same input was exercised (evidence)."""
    total = {}
    for t in sess.targets:
        if t.lang == "py" and hasattr(t, "stats"):
            st = t.stats()
            ctx.extra.setdefault("py_input_spellings", {})[t.name] = st
            for k, v in st.items():
                total[k] = total.get(k, 0) + v
    for k, v in sorted(total.items()):
        ctx.count("py-spelling:" + k, v)


def corpus_requests(sess, prop):
    """corpus/<prop>/cases.jsonl: {"type": "vns.reg.X.1.0", "op": "ser|de|rt|serbuf", "arg": "<protocol text>"}"""
    f = common.VERIF / "corpus" / prop / "cases.jsonl"
    out = []
    if not f.exists():
        return out
    for line in f.read_text().splitlines():
        line = line.strip()
        if not line or line.startswith("#"):
            continue
        c = json.loads(line)
        gt = sess.by_name.get(c["type"])
        if gt is None:
            raise RuntimeError(f"corpus case names unknown type {c['type']}")
        out.append(Req(gt, c["op"], parse_arg(gt, c["op"], c["arg"]), origin="corpus"))
    return out


def report_build(ctx, sess, tally):
    """A target that does not generate or compile is itself a failing input (type set + options)."""
    ctx.extra["targets"] = [t.name for t in sess.targets]
    ctx.extra["compile_only_targets"] = [t.name for t in sess.compile_only]
    ctx.extra["build_seconds"] = sess.t_build
    ctx.extra["types"] = len(sess.ns.types)
    ctx.extra["definitions_dropped_by_front_end"] = len(sess.ns.dropped)
    for t, stage, log in sess.build_failures:
        tally.fail({"kind": f"build:{stage}", "lang": t.lang, "sig": t.name},
                   f"{t.name}: generated code does not {'generate' if stage == 'nnvg' else 'compile'}",
                   lambda t=t, log=log: {"target": t.name, "options": t.options, "files": sess.ns.texts, "log": log})


def common_setup(ctx, prop):
    t0 = time.time()
    drv = prove(ctx, prop)
    ctx.extra.setdefault("seconds", {})["prove"] = round(time.time() - t0, 2)
    t0 = time.time()
    sess = get_session(ctx)
    ctx.extra["seconds"]["session"] = round(time.time() - t0, 2)
    tally = Tally(ctx)
    report_build(ctx, sess, tally)
    ctx.assumptions = ["the compilers (gcc/g++/clang), CPython, NumPy and PyDSDL's front end are trusted",
                       "this host is little-endian: target_endianness=big is generated and compiled, not executed",
                       "Python target: values outside the DSDL range of a field and invalid union tags are not expressible (answers n/a); "
                       "deserialize() reports neither the error kind nor the consumed size"]
    return drv, sess, tally


# ------------------------------------------------------------------------------------------------------------
# replay of a failing input written by run_requests
# ------------------------------------------------------------------------------------------------------------

def replay(ctx, path):
    r = json.loads(open(path).read())
    rp = r.get("replay") or {}
    if "files" not in rp or "op" not in rp:
        print("nothing to replay (no failing input in the file)")
        return 1
    want_names = [rp["target"]] if "target" in rp else list(rp.get("answers", {}))

    def plan(ns, base, tier):
        return [t for t in target_plan(ns, base, "thorough") if t.name in want_names and not (isinstance(t, T.CTarget) and not t.run)]
    sess = Session(0, "quick", 0, 0, texts=rp["files"], plan=plan)
    try:
        gt = sess.by_name[rp["type"]]
        req = Req(gt, rp["op"], parse_arg(gt, rp["op"], rp["arg"]))
        want = ref_outcome(req.bop, gt.expr, req.marg)
        bad = 0
        outs = {}
        for t in sess.targets:
            a = t.ask([req.target_line()])[0]
            got = parse_answer(req.bop, gt.expr, a)
            outs[t.name] = got
            k = same_outcome(gt.expr, want, got, G.has_nan(gt.expr, req.value()) if req.bop != "de" else False)
            print(json.dumps({"target": t.name, "answer": a[:1000], "expected": fmt_outcome(want), "mismatch": k}))
            bad += k is not None
        for t, stage, log in sess.build_failures:
            print(json.dumps({"target": t.name, "build_failure": stage, "log": log[-800:]}))
            bad += 1
        if "answers" in rp and len({json.dumps(fmt_outcome(o)) for o in outs.values() if o[0] != "na"}) > 1:
            bad += 1
        return 1 if bad else 0
    finally:
        sess.cleanup()
