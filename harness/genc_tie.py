"""
GenC tie (C01 / C02 / C04) — the implementation-shaped Lean model of the generated C codecs
(lean/NunavutVerif/Model/GenC.lean, refinement theorems in Properties/C01Refine.lean) against the REAL generated C.

`run_genc(ctx, drivers)` is called by c01.py / c02.py after `ctx.prove(..., exes=["codec", "genc"])`:

  differential   the same request lines go to (a) every compiled C target of the session (target_endianness any / little,
                 asserts on / off), (b) the driver `genc` with the matching option set (`@any` / `@little`) and (c) the
                 spec driver `codec`.  GenC must give the answer of the real C byte for byte: produced bytes, error
                 kind, decoded value and consumed size.  Domain: per type the zero value + random values -> `ser`;
                 `serbuf` with exact-size buffers of EVERY capacity 0..max+1 (types up to 40 bytes; a sample of
                 capacities above); `de` of every truncation 0..len of valid encodings, random byte strings, every
                 length 0..max+1 of an all-ones string.  GenC is asked with the option set of each target
                 (`@any|@little[,asserts]`), with both plain renderings, and with the oracle that never claims
                 alignment and assertions on (`orc=never,asserts`): all must give the same answers (the refinement
                 theorems say the result depends on neither), and never `err:assert` / `err:prim-*`.  Requests whose
                 object is larger than WORK_LIMIT bytes are left to the spec-level tie (the model's buffers are
                 lists: quadratic on tens of thousands of elements); counted as genc:skipped-large.
  structural     the text of every generated `T_serialize_` / `T_deserialize_` is scanned for the helper each emitted
                 site uses (raw byte store, memmove, nunavutSetUxx/SetIxx/SetF*, nunavutCopyBits, loop, nested call,
                 header reserve / back-patch, padding; decode: masked byte read, nunavutGetU*/GetI*/GetF*,
                 nunavutGetBits, ...) and compared with GenC's static path selection (`paths ser|de`).  This pins the
                 fast-path choice (i.e. that PyDSDL's `is_aligned_at_byte()` is the oracle `exactOrc` of the model),
                 which differential execution cannot see.

A difference between GenC and the real C is a correspondence disagreement (stream `genc-vs-c`, `genc-vs-spec`,
`genc-structure`).
"""
import os
import pathlib
import re
import time

from . import common
from . import codec_engine as E
from . import codec_ref as R
from . import codec_targets as T
from . import dsdlgen as G

ALL_CAPS_UPTO = 40        # bytes: every capacity 0..max+1 below this size, a sample above
WORK_LIMIT = 3000         # bytes: the model's buffers are lists (indexing is linear), so requests that touch more
                          # than this many bytes are left to the spec-level tie of c01/c02 (counted as genc:skipped-large)
MAX_DISAGREEMENTS = 60


# ------------------------------------------------------------------------------------------------------------
# structural scan of the generated text
# ------------------------------------------------------------------------------------------------------------

_SER_RULES = [
    (re.compile(r"buffer\[offset_bits / 8U\] = 0U;"), lambda m: "void:byte"),
    (re.compile(r"\(void\) memset\(&buffer\[offset_bits / 8U\], 0, "), lambda m: "void:memset"),
    (re.compile(r"nunavutSetUxx\(&buffer\[0\], capacity_bytes, offset_bits, 0U, _pad\d+_\)"), lambda m: "pad"),
    (re.compile(r"nunavutSetUxx\(&buffer\[0\], capacity_bytes, offset_bits, 0U, \d+U\);  // Optimize\?"), lambda m: "void:setuxx"),
    (re.compile(r"buffer\[offset_bits / 8U\] = .* \? 1U : 0U;"), lambda m: "bool:byte"),
    (re.compile(r"buffer\[offset_bits / 8U\] = \(uint8_t\)\(buffer\[offset_bits / 8U\] \| \(1U << "), lambda m: "bool:rmw"),
    (re.compile(r"buffer\[offset_bits / 8U\] = \(uint8_t\)\(buffer\[offset_bits / 8U\] & ~\(1U << "), lambda m: None),
    (re.compile(r"buffer\[offset_bits / 8U\] = \(uint8_t\)\(.*\);  // C std, 6\.3\.1\.3"), lambda m: "int:byte"),
    (re.compile(r"\(void\) memmove\(&buffer\[\(offset_bits - 32\) / 8U\], &_size_bytes\d+_, 4U\);"), lambda m: "patch:memmove"),
    (re.compile(r"\(void\) memmove\(&buffer\[offset_bits / 8U\], &.*, (\d+)U\);"), lambda m: "memmove:" + m.group(1)),
    (re.compile(r"nunavutSetUxx\(\s*&buffer\[0\], capacity_bytes,\s*offset_bits - 32, _size_bytes\d+_,\s*32U\)"), lambda m: "patch:setuxx"),
    (re.compile(r"nunavutSetUxx\(\s*&buffer\[0\], capacity_bytes, offset_bits, .*, (\d+)U\);"), lambda m: "setuxx:" + m.group(1)),
    (re.compile(r"nunavutSetIxx\(\s*&buffer\[0\], capacity_bytes, offset_bits, .*, (\d+)U\);"), lambda m: "setixx:" + m.group(1)),
    (re.compile(r"nunavutSetF(16|32|64)\("), lambda m: "setf:" + m.group(1)),
    (re.compile(r"nunavutCopyBits\(&buffer\[0\], offset_bits, "), lambda m: "copybits"),
    (re.compile(r"for \(size_t _index\d+_ = 0U; "), lambda m: "loop"),
    (re.compile(r"offset_bits \+= 32U;  // Reserve space for the delimiter header\."), lambda m: "reserve"),
    (re.compile(r"_serialize_\($"), lambda m: "call"),
    (re.compile(r"\(\d+U == obj->_tag_\)"), lambda m: "opt"),
    (re.compile(r"return -NUNAVUT_ERROR_REPRESENTATION_BAD_ARRAY_LENGTH;"), lambda m: "lencheck"),
]

_DE_RULES = [
    (re.compile(r"= \(buffer\[offset_bits / 8U\] & 1U\) != 0U;"), lambda m: "bool:aligned"),
    (re.compile(r"= \(buffer\[offset_bits / 8U\] & \(1U << \(offset_bits % 8U\)\)\) != 0U;"), lambda m: "bool:shift"),
    (re.compile(r"= buffer\[offset_bits / 8U\] & \d+U;"), lambda m: "int:byte"),
    (re.compile(r"nunavutGetU(8|16|32|64)\(&buffer\[0\], capacity_bytes, offset_bits, "), lambda m: "getu:" + m.group(1)),
    (re.compile(r"nunavutGetI(8|16|32|64)\(&buffer\[0\], capacity_bytes, offset_bits, "), lambda m: "geti:" + m.group(1)),
    (re.compile(r"nunavutGetF(16|32|64)\(&buffer\[0\], capacity_bytes, offset_bits\)"), lambda m: "getf:" + m.group(1)),
    (re.compile(r"nunavutGetBits\(&"), lambda m: "getbits"),
    (re.compile(r"for \(size_t _index\d+_ = 0U; "), lambda m: "loop"),
    (re.compile(r"_deserialize_\($"), lambda m: "call"),
    (re.compile(r"offset_bits = \(offset_bits \+ 7U\) & ~\(size_t\) 7U;"), lambda m: "pad"),
    (re.compile(r"\(\d+U == out_obj->_tag_\)"), lambda m: "opt"),
    (re.compile(r"return -NUNAVUT_ERROR_REPRESENTATION_BAD_ARRAY_LENGTH;"), lambda m: "lencheck"),
]


def function_body(text, name):
    """Lines of `static inline int8_t <name>(` ... up to the closing brace in column 0."""
    m = re.search(r"^static inline int8_t " + re.escape(name) + r"\(\s*$", text, re.M)
    if m is None:
        return None
    end = text.find("\n}\n", m.end())
    return text[m.end():end if end >= 0 else len(text)].split("\n")


def scan(lines, rules):
    out = []
    for ln in lines:
        s = ln.strip()
        if s.startswith("//") or "NUNAVUT_ASSERT" in s:
            continue
        # a statement split over two lines by the template: join what the rule needs
        for rx, tok in rules:
            m = rx.search(s)
            if m:
                t = tok(m)
                if t:
                    out.append(t)
                break
    return out


def scan_target(target, gt, direction):
    """Helper tokens of the generated function of type gt in the output of a C target, or None."""
    hdr = target.outdir / "gen" / T._header_path(gt.model, ".h")
    if not hdr.exists():
        return None
    text = hdr.read_text()
    # the template breaks `const int8_t err = nunavutSetUxx(` + newline + arguments: undo line breaks inside calls
    text = re.sub(r"(nunavutSet[UI]xx\()\s*\n\s*", r"\1", text)
    text = re.sub(r"(_err\d+_ = nunavutSetUxx\(&buffer\[0\], capacity_bytes,)\s*\n?\s*", r"\1 ", text)
    text = re.sub(r"= \s*\n\s*(nunavutSet)", r"= \1", text)
    body = function_body(text, T.c_name(gt.model) + ("_serialize_" if direction == "ser" else "_deserialize_"))
    if body is None:
        return None
    return scan(body, _SER_RULES if direction == "ser" else _DE_RULES)


# ------------------------------------------------------------------------------------------------------------
# requests
# ------------------------------------------------------------------------------------------------------------

def _caps(rng, mx):
    if mx <= ALL_CAPS_UPTO:
        return list(range(0, mx + 2))
    pick = {0, 1, mx - 1, mx, mx + 1, mx // 2}
    while len(pick) < 12:
        pick.add(rng.randrange(0, mx + 2))
    return sorted(pick)


def _ser_size(gt, v):
    """Encoded size of a value in bytes, None if the reference rejects it."""
    try:
        return len(R.ser(gt.expr, v))
    except R.CodecError:
        return None


def _de_cheap(gt, b):
    """A byte string whose decoded object is small (a 4-byte string can announce 65 535 elements)."""
    if len(b) > WORK_LIMIT:
        return False
    try:
        v, _ = R.de(gt.expr, b)
    except R.CodecError:
        return True                                  # rejected: the count / tag / header check comes before any loop
    size = _ser_size(gt, v)
    return size is not None and size <= WORK_LIMIT


def build_requests(ctx, sess):
    rng = ctx.rng
    n_val = 6 if ctx.quick else 14
    reqs = []
    for gt in sess.ns.types:
        mx = R.bounds(gt.expr)[1] // 8
        vals = E.value_cases(rng, gt, n_val, p_invalid=0.15)
        for i, v in enumerate(vals):
            size = _ser_size(gt, v)
            cheap = (size if size is not None else mx) <= WORK_LIMIT
            if cheap:
                reqs.append(E.Req(gt, "ser", v))
            else:
                ctx.count("genc:skipped-large")
            if i < 2 or (i == 2 and not ctx.quick):
                for cap in _caps(rng, mx):
                    if cheap or cap < mx:            # a too small buffer is refused up front: always cheap
                        reqs.append(E.Req(gt, "serbuf", (v, cap)))
        for b in E.bytes_cases(rng, gt, 2 if ctx.quick else 5, 4 if ctx.quick else 10):
            if _de_cheap(gt, b):
                reqs.append(E.Req(gt, "de", b))
            else:
                ctx.count("genc:skipped-large")
        top = min(mx, WORK_LIMIT)
        ones = bytes([0xFF]) * (top + 1)
        for n in (_caps(rng, mx) if mx <= ALL_CAPS_UPTO else [0, 1, top - 1, top, top + 1]):
            if _de_cheap(gt, ones[:n]):
                reqs.append(E.Req(gt, "de", ones[:n]))
            else:
                ctx.count("genc:skipped-large")
    # distinct requests only
    seen, out = set(), []
    for r in reqs:
        k = (r.gt.index, r.op, r.text)
        if k not in seen:
            seen.add(k)
            out.append(r)
    return out


# ------------------------------------------------------------------------------------------------------------
# the tie
# ------------------------------------------------------------------------------------------------------------

# ------------------------------------------------------------------------------------------------------------
# round 2: addresses
# ------------------------------------------------------------------------------------------------------------

ADDR_WORDS = re.compile(r"\b(psrc|pdst)\b|\bsrc\s*!=\s*dst\b")


def scan_addr_asserts(ctx, genc, target, disagree):
    """Structural: the NUNAVUT_ASSERTs of the generated nunavutCopyBits that talk about addresses, in order, against
    the texts the model's `copyAsserts` stands for (driver op `addrasserts`)."""
    h = target.outdir / "gen" / "nunavut" / "support" / "serialization.h"
    try:
        txt = h.read_text()
        m0 = re.search(r"^static inline void nunavutCopyBits\(", txt, re.M)
        end = txt.find("\n}\n", m0.end()) if m0 else -1
        body = txt[m0.end():end] if m0 and end >= 0 else None
    except Exception:  # noqa: BLE001
        body = None
    if body is None:
        disagree("genc-assert-text", {"target": target.name}, "nunavutCopyBits", "not found in serialization.h")
        return 0
    text = body if isinstance(body, str) else "\n".join(body)
    real = []
    for m in re.finditer(r"NUNAVUT_ASSERT\((.*)\);", text):
        e = " ".join(m.group(1).split())
        if ADDR_WORDS.search(e):
            real.append(e)
    answers = genc.ask(["@any,nohg addrasserts", "@any addrasserts"])
    models = [[x.strip() for x in a[3:].split(";;")] if a.startswith("ok ") else [a] for a in answers]
    ctx.traces += 1
    ctx.count("genc:assert-text:" + target.name)
    if real != models[1]:    # models[1] = the text of HEAD (23731cd); models[0] = unguarded head assertion before it
        disagree("genc-assert-text", {"target": target.name}, " ;; ".join(models[1]), " ;; ".join(real))
    return {"assertions": len(real), "head_guarded": real == models[1]}


def stack_probe(ctx, genc, target, sess, disagree, head_guarded, limit=40):
    """The finding of 443d39c lived in the placement the compiler chose: a short stack buffer next to the primitive's
    local.  Compile (gcc and clang, -O2, assertions on) one small noinline function per type and shape that decodes
    from a 1-byte stack array (size 1, size 0, and the end pointer with size 0) and calls T_initialize_-free decode;
    an abort is a failing input; the return code is compared with the model's answer under `place=above,hg`."""
    import subprocess
    types = [gt for gt in sess.ns.types][:limit]
    if not types:
        return {}
    src = ['#include <stdio.h>', '#include <stdlib.h>', '#include <stdint.h>', '#include <stddef.h>', '#include <assert.h>']
    for gt in types:
        src.append(f'#include "{T._header_path(gt.model, ".h")}"')
    shapes = [("b1", "uint8_t buf[1] = {0x55};", "buf", 1), ("b0", "uint8_t buf[1] = {0x55};", "buf", 0),
              ("end0", "uint8_t buf[1] = {0x55};", "buf + 1", 0)]
    calls = []
    for i, gt in enumerate(types):
        cn = T.c_name(gt.model)
        for tag, decl, ptr, size in shapes:
            fn = f"probe_{i}_{tag}"
            src.append(f"__attribute__((noinline)) static int {fn}(void) {{ {decl} {cn} obj; size_t sz = {size}U; "
                       f"return (int) {cn}_deserialize_(&obj, {ptr}, &sz); }}")
            calls.append((fn, gt, tag, size))
    src.append("int main(int argc, char** argv) { const int start = (argc > 1) ? atoi(argv[1]) : 0;")
    for j, (fn, gt, tag, size) in enumerate(calls):
        src.append(f'    if ({j} >= start) {{ printf("{fn} %d\\n", {fn}()); fflush(stdout); }}')
    src.append("    return 0; }")
    d = target.outdir / "stack_probe"
    d.mkdir(parents=True, exist_ok=True)
    (d / "probe.c").write_text("\n".join(src) + "\n")
    e = "little" if target.endianness == "little" else "any"
    # the model under the placement "every other object directly above the buffer", with the head assertion as emitted
    mopt = f"@{e},asserts,place=above" + (",hg" if head_guarded else ",nohg")
    model = genc.ask([f"{mopt} de {gt.tstr} {'55' if size else '-'}" for fn, gt, tag, size in calls])
    plain = genc.ask([f"@{e},asserts de {gt.tstr} {'55' if size else '-'}" for fn, gt, tag, size in calls])
    out = {}
    for cc in ("gcc", "clang"):
        for opt in (("-O2",) if ctx.tier == "quick" else ("-O2", "-O1", "-O0")):
            exe = d / f"probe_{cc}{opt}"
            cmd = [cc, "-std=c11", opt, "-DNUNAVUT_ASSERT(x)=assert(x)", "-Wno-unused-function", "-I", str(target.outdir / "gen"),
                   str(d / "probe.c"), "-o", str(exe), "-lm"]
            ok, log = T._compile(cmd, timeout=600)
            if not ok:
                ctx.count("genc:stack-probe-compile-failed")
                out[cc + opt] = "compile failed: " + log[-300:]
                continue
            got, deaths, start = {}, [], 0
            for _round in range(len(calls) + 1):
                try:
                    p = subprocess.run([str(exe), str(start)], capture_output=True, text=True, timeout=120)
                    rc, lines, err = p.returncode, p.stdout.split("\n"), p.stderr
                except subprocess.TimeoutExpired:
                    rc, lines, err = -999, [], "timeout"
                for ln in lines:
                    if len(ln.split()) == 2:
                        got[ln.split()[0]] = int(ln.split()[1])
                if rc == 0:
                    break
                k = next((j for j in range(start, len(calls)) if calls[j][0] not in got), len(calls))
                if k >= len(calls):
                    break
                deaths.append((k, rc, err))
                start = k + 1
            died = {k for k, _, _ in deaths}
            for k, rc_k, err in deaths:
                fn, gt, tag, size = calls[k]
                ctx.traces += 1
                if model[k] == "err:assert" and "src != dst" in err and not head_guarded:
                    # the model with the emitted (unguarded) `src != dst` predicts exactly this abort for an object that
                    # starts at the end pointer: agreement; reported as a finding by the builder (agent_out/GENC)
                    ctx.count("genc:stack-probe-srcdst-abort-predicted")
                    continue
                disagree("genc-vs-c-stack", {"type": gt.tstr, "shape": tag, "cc": cc + opt, "target": target.name,
                                            "name": gt.full_name}, model[k][:300], f"process died rc={rc_k}: {err[-300:]}")
                ctx.fail({"kind": "c-assertion-abort", "where": "stack-buffer"},
                         f"{T.c_name(gt.model)}_deserialize_ from a {size}-byte stack buffer ({tag}) aborts: {err[-200:]}",
                         {"type": gt.tstr, "shape": tag, "cc": cc + opt})
            for k, ((fn, gt, tag, size), m) in enumerate(zip(calls, plain)):
                if k in died or fn not in got:
                    continue
                ctx.traces += 1
                ctx.count("genc:stack-probe:" + target.name)
                if (got[fn] < 0) != m.startswith("err"):
                    disagree("genc-vs-c-stack", {"type": gt.tstr, "shape": tag, "cc": cc + opt, "target": target.name}, m[:300], str(got[fn]))
            rc = len(deaths)
            out[cc + opt] = f"{len(got)}/{len(calls)} calls returned, {rc} aborted (all predicted by the model: {rc == 0 or not head_guarded})"
    return out


# ------------------------------------------------------------------------------------------------------------
# round 2: --enable-override-variable-array-capacity (GenCX `ovr=`) against C04's override builds
# ------------------------------------------------------------------------------------------------------------

def override_tie(ctx, genc, disagree):
    """The compiled override configurations of harness/c04.py (corpus/C04/override/ov, its own shim c04_override.c: objects
    with exactly the reduced member array, exact-size heap buffers, ASan/UBSan) against `genc @any,ovr=<c>[,nocheck]` on
    the same messages: every count 0 .. capacity+1 decoded from full / short / empty inputs, serialized into a buffer
    that holds the DSDL maximum (the domain of the theorems: the header compiles the up-front check out once the
    capacity macro is user-defined)."""
    import types as _types
    from . import c04
    if not c04.CODES["c"]:
        for lang in ("c", "cpp"):
            c04.CODES[lang] = {2: "err:invalid-argument", 3: "err:buffer-too-small", 10: "err:bad-array-length",
                               11: "err:bad-union-tag", 12: "err:bad-delimiter-header"}
    sub = _types.SimpleNamespace(scratch=ctx.scratch / "genc_ovr", quick=True)
    sub.scratch.mkdir(parents=True, exist_ok=True)
    state = c04.override_prepare(sub)
    state["cpp_jobs"] = []
    c04.override_build(state)
    if state["gen_log"] is not None or state["res"] is None:
        ctx.broken.append({"kind": "genc-override-generate", "log_tail": state["gen_log"]})
        return {}
    small = [t for t, d in c04.OV_TYPES.items() if d["cap"] <= 20]
    out = {}
    t_ovr = time.time()
    for (name, red, exe, cmd), (ok, log) in zip(state["jobs"], state["res"]):
        if not ok:
            ctx.broken.append({"kind": "genc-override-build", "config": name, "log_tail": log[-1500:]})
            continue
        lines, mlines = [], []
        for t in small:
            d = c04.OV_TYPES[t]
            eb, cap, lp, aw, bits = d["eb"], d["cap"], d["lp"], d.get("aw", 8), bool(d.get("bits"))
            usr = red.get(t)
            slots = cap if (usr is None or bits) else usr
            opt = "@any" + (f",ovr={usr},nocheck" if usr is not None else "")
            elem = "(b)" if bits else f"(u {eb} s)"
            ty = f"(s (u {aw} s) (l {elem} {cap}) (u 8 s))"
            maxb = (aw + lp + cap * eb + 8 + 7) // 8
            for count in range(0, cap + 2):
                for extra in sorted({0, 1, (count * eb + 7) // 8 + 1, maxb + 2}):
                    data = c04.ov_wire(t, count, extra)
                    lines.append(f"de {t} {data.hex()}")
                    mlines.append(f"{opt} de {ty} {data.hex()}")
                # the object of the shim: a = 0x0A, b = 0x0B, element i = (uint8_t)(0x11 * (i + 1)) where the array has a slot
                if bits:
                    packed = [(0x11 * (i + 1)) & 0xFF for i in range((cap + 7) // 8)]
                    vals = [str((packed[i // 8] >> (i % 8)) & 1) if i // 8 < len(packed) else "0" for i in range(count)]
                else:
                    vals = [str((0x11 * (i + 1)) & 0xFF) if i < slots else "0" for i in range(count)]
                for bcap in (maxb, maxb + 3):
                    lines.append(f"ser {t} {count} {bcap}")
                    mlines.append(f"{opt} serbuf {ty} {{10 [{' '.join(vals)}] 11}} {bcap}")
            lines.append(f"de {t} -")
            mlines.append(f"{opt} de {ty} -")
        answers, _exit = c04.run_lines(exe, lines, max_crashes=200)
        model = genc.ask(mlines, 600)
        n = 0
        for l, ml, a, m in zip(lines, mlines, answers, model):
            ctx.traces += 1
            n += 1
            ctx.count("genc:override:" + name)
            if l.startswith("de "):
                if m.startswith("ok "):
                    body = m[3:].rsplit(" ", 1)
                    inner = body[0]
                    k = inner[inner.index("[") + 1: inner.index("]")].split()
                    want = f"ok {len(k)} {body[1]}"
                else:
                    want = m
            else:
                want = m if m != "ok " else "ok -"
            if a != want:
                disagree("genc-vs-c-override", {"config": name, "request": l, "model_request": ml[:300]}, want[:400], a[:400])
        out[name] = n
    out["seconds_after_build"] = round(time.time() - t_ovr, 2)
    return out


def _opt_of(target):
    return ("@little" if target.endianness == "little" else "@any") + (",asserts" if target.asserts else "")


def run_genc(ctx, drivers, sess=None):
    """Differential + structural tie of GenC with the generated C.  Returns a small summary dict (also in ctx.extra)."""
    genc = drivers.get("genc") if drivers else None
    codec = drivers.get("codec") if drivers else None
    if genc is None:
        ctx.broken.append({"kind": "driver-missing", "exes": ["genc"]})
        return {}
    t0 = time.time()
    sess = sess or E.get_session(ctx)
    ctargets = [t for t in sess.targets if isinstance(t, T.CTarget) and not t.extra_nnvg and t.endianness in ("any", "little")]
    summary = {"targets": [t.name for t in ctargets]}
    n_dis = [0]

    def disagree(stream, inp, model, impl):
        n_dis[0] += 1
        ctx.count("genc:" + stream + "-differences")
        if n_dis[0] <= MAX_DISAGREEMENTS:
            ctx.disagree(stream, inp, model, impl)

    # ---- differential ----------------------------------------------------------------------------------------
    reqs = build_requests(ctx, sess)
    lines = [r.target_line() for r in reqs]
    mlines = [r.model_lines()[0] for r in reqs]
    # option sets asked of GenC: the one of every target, both plain renderings, and the never-aligned oracle with
    # assertions on; all asked concurrently (each is its own driver process)
    variants = sorted({_opt_of(t) for t in ctargets} | {"@any", "@little"})
    variants = [v + ",fill=165" for v in variants] + ["@any,asserts,orc=never", "@little,asserts,orc=never"]
    # round 2 (Model/GenCX.lean): the address assertions of nunavutCopyBits under three placements of the primitives'
    # locals / the member arrays: directly below the buffer, far away, directly above it.  `place=above` with the
    # emitted (unguarded) `src != dst` is asked separately: there the model may answer err:assert exactly when a
    # nested call got the end pointer of the buffer and copies zero bits (hypothesis NoAliasPastEnd of the theorem).
    ends = sorted({("little" if t.endianness == "little" else "any") for t in ctargets if t.asserts}) or ["any"]
    place_variants = [f"@{e},asserts,place={pl}" for e in ends for pl in ("below", "far", "above,hg")]
    alias_variants = [f"@{e},asserts,place=above,nohg" for e in ends]
    variants = variants + place_variants  # (asked over a bounded subset of the requests, see below)
    import concurrent.futures
    with concurrent.futures.ThreadPoolExecutor(max_workers=len(variants) + len(ctargets)) as ex:
        fc = {t.name: ex.submit(t.ask, lines) for t in ctargets}
        small = [i for i, ml in enumerate(mlines) if len(ml) <= 500]
        budget = 1200 if ctx.tier == "quick" else 20000
        stride = max(1, len(small) // budget)
        sub = small[::stride]
        fg = {v: ex.submit(genc.ask, [f"{v} {ml}" for ml in mlines], 1800) for v in variants if v not in place_variants}
        fp = {v: ex.submit(genc.ask, [f"{v} {mlines[i]}" for i in sub], 1800) for v in place_variants + alias_variants}
        answers_c = {k: f.result() for k, f in fc.items()}
        answers_g = {k.replace(",fill=165", ""): f.result() for k, f in fg.items()}
        answers_p = {k: f.result() for k, f in fp.items()}
    # emitted `src != dst`, everything directly above the buffer: same answer as the plain model, or err:assert on a
    # decode request (counted, reported in the summary; never seen on the compiled code: see stack_probe)
    n_alias = 0
    for v, ans_sub in answers_p.items():
        pv = v.split(",place=")[0]
        plain = answers_g[pv] if pv in answers_g else answers_g["@any"]
        ans = dict(zip(sub, ans_sub))
        for i in sub:
            r = reqs[i]
            ctx.traces += 1
            ctx.count("genc:placement:" + v.split("place=")[1])
            if ans[i] == plain[i]:
                continue
            if v in alias_variants and ans[i] == "err:assert" and r.op == "de":
                n_alias += 1
                ctx.count("genc:srcdst-alias-at-end-pointer")
                continue
            disagree("genc-placement", {"type": r.gt.tstr, "op": r.op, "arg": r.text[:2000], "options": v}, plain[i][:1500], ans[i][:1500])
    summary["srcdst_alias_requests"] = n_alias
    answers_s = codec.ask(mlines, timeout=1800) if codec is not None else None
    for i, r in enumerate(reqs):
        e = r.gt.expr
        nan = G.has_nan(e, r.value()) if r.op != "de" else False
        ctx.count("genc:op:" + r.op)
        parsed_g = {}
        for o in answers_g:
            a = answers_g[o][i]
            if a.startswith("err:prim-") or a.startswith("err:code") or a == "err:assert" or a == "bad-op":
                disagree("genc-internal", {"type": r.gt.tstr, "op": r.op, "arg": r.text[:2000], "options": o}, a, "a C outcome")
            parsed_g[o] = E.parse_answer(r.op, e, a)
        # GenC does not depend on the oracle, nor (C03) on the endianness option
        base = parsed_g["@any"]
        for o in answers_g:
            if E.same_outcome(e, base, parsed_g[o], nan) is not None or E.same_outcome(e, parsed_g[o], base, nan) is not None:
                disagree("genc-option-dependence", {"type": r.gt.tstr, "op": r.op, "arg": r.text[:2000], "options": o},
                         answers_g["@any"][i][:1500], answers_g[o][i][:1500])
        # GenC vs the specification driver
        if answers_s is not None:
            ps = E.parse_answer(r.op, e, answers_s[i])
            ctx.traces += 1
            if E.same_outcome(e, ps, base, nan) is not None or E.same_outcome(e, base, ps, nan) is not None:
                disagree("genc-vs-spec", {"type": r.gt.tstr, "op": r.op, "arg": r.text[:2000]}, answers_g["@any"][i][:1500], answers_s[i][:1500])
        # GenC vs the real C
        for t in ctargets:
            got = E.parse_answer(r.op, e, answers_c[t.name][i])
            want = parsed_g[_opt_of(t)]
            ctx.traces += 1
            ctx.count("genc:answers:" + t.name)
            if E.same_outcome(e, want, got, nan) is not None or (got[0] == "err") != (want[0] == "err"):
                disagree("genc-vs-c", {"type": r.gt.tstr, "op": r.op, "arg": r.text[:2000], "target": t.name},
                         answers_g[_opt_of(t)][i][:1500], answers_c[t.name][i][:1500])
    summary["requests"] = len(reqs)

    # ---- structural ------------------------------------------------------------------------------------------
    n_struct = 0
    for t in ctargets:
        o = _opt_of(t)
        for direction in ("ser", "de"):
            ans = genc.ask([f"{o} paths {direction} {gt.tstr}" for gt in sess.ns.types])
            for gt, a in zip(sess.ns.types, ans):
                real = scan_target(t, gt, direction)
                if real is None:
                    disagree("genc-structure", {"type": gt.tstr, "target": t.name, "dir": direction}, a, "function not found in the generated header")
                    continue
                model = a.split()[1:] if a.startswith("ok") else [a]
                n_struct += 1
                ctx.traces += 1
                ctx.count("genc:structure:" + t.name)
                if model != real:
                    disagree("genc-structure", {"type": gt.tstr, "target": t.name, "dir": direction, "name": gt.full_name},
                             " ".join(model)[:1500], " ".join(real)[:1500])
    summary["structural_comparisons"] = n_struct
    for t in ctargets:
        if t.asserts:
            sc = scan_addr_asserts(ctx, genc, t, disagree)
            summary.setdefault("assert_text", {})[t.name] = sc
            summary.setdefault("stack_probe", {})[t.name] = stack_probe(ctx, genc, t, sess, disagree, bool(sc and sc.get("head_guarded")))
    if ctx.prop in ("C01", "C04") or ctx.tier != "quick" or os.environ.get("GENC_OVERRIDE_TIE") == "1":
        try:
            summary["override"] = override_tie(ctx, genc, disagree)
        except Exception as ex:  # noqa: BLE001
            ctx.broken.append({"kind": "genc-override-tie", "error": f"{type(ex).__name__}: {str(ex)[:500]}"})
    summary["differences"] = n_dis[0]
    summary["seconds"] = round(time.time() - t0, 2)
    ctx.extra["genc_tie"] = summary
    return summary


# ------------------------------------------------------------------------------------------------------------
# stand-alone use during development:  python -m harness.genc_tie [quick|thorough] [seed]
# ------------------------------------------------------------------------------------------------------------

def _main(argv):
    tier = argv[1] if len(argv) > 1 else "quick"
    seed = int(argv[2]) if len(argv) > 2 else 1
    ctx = common.Ctx("C01", tier, seed)
    bindir = pathlib.Path(os.environ.get("GENC_BIN", str(common.LEAN / ".lake" / "build" / "bin")))
    drivers = {"genc": common.Driver(bindir / "genc"), "codec": common.Driver(bindir / "codec")}

    def plan(ns, base, tier):
        ts = [T.CTarget(ns, base / "c_any", "any", False),
              T.CTarget(ns, base / "c_little_asserts", "little", True)]
        if tier != "quick":
            ts += [T.CTarget(ns, base / "c_any_asserts", "any", True), T.CTarget(ns, base / "c_little", "little", False)]
        return ts
    import random
    ns_seed = random.Random(seed).getrandbits(64)
    sess = E.Session(seed, tier, 40 if tier == "quick" else 200, ns_seed, plan=plan)
    for t, stage, log in sess.build_failures:
        print("BUILD FAILURE", t.name, stage, log[-800:])
    s = run_genc(ctx, drivers, sess=sess)
    print(s)
    print("traces", ctx.traces, "disagreements", len(ctx.disagreements), "broken", ctx.broken)
    for d in ctx.disagreements[:12]:
        print(str(d)[:1200])
    print({k: v for k, v in ctx.counts.items() if k.startswith("genc:")})
    sess.cleanup()
    return 1 if ctx.disagreements or ctx.broken else 0


if __name__ == "__main__":
    import sys
    sys.exit(_main(sys.argv))
