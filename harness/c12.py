"""
C12 — regeneration over existing output is safe for every history of runs.

Proof: lean/NunavutVerif/Properties/C12.lean (model: Model/Overwrite.lean).

Tie (model vs implementation, `overwrite` driver):
  * stream "cli": random histories of real `nnvg` invocations (`python -m nunavut`, varying language, --file-mode,
    --no-overwrite, --omit-serialization-support, --generate-support, line post-processors, --pp-run-program) into one
    directory pre-populated with foreign files and stale/read-only files at output paths, every invocation under
    `strace -f`; compared per step: exit status class, the sequence of operations on the output tree
    (chmod / mkdir -p / truncating open / external program / chmod) and the resulting file system
    (path, permission bits, sha256).  The model gets, per invocation, the ordered file list and contents of the *same
    invocation into an empty directory* (content = function of the run: the property's hypothesis).
  * stream "lib": the write paths `CodeGenerator._generate_code` and `SupportGenerator._copy_header` called in-process
    (dummy generator objects, real post-processor objects) under strace: an exhaustive small domain
    (initial state of the file x allow_overwrite x post-processor lists x render / failing render / shutil.copy x line
    post-processor) as three-step histories, plus random multi-file histories.  Reaches what the CLI cannot:
    no SetFileMode, SetFileMode before the program, template errors, the copy path.

Failing-input search: the two statements of the property as predicates on the real CLI runs only (no model):
reference = the same invocation into a fresh empty directory.
"""
import concurrent.futures as cf
import hashlib
import json
import os
import pathlib
import re
import shutil
import stat
import subprocess
import sys
import threading

from . import common
from .common import enc

TRACE_SET = ("chmod,fchmod,fchmodat,openat,open,creat,unlink,unlinkat,rename,renameat,renameat2,mkdir,mkdirat,"
             "rmdir,link,linkat,symlink,symlinkat,truncate,ftruncate,execve,clone,clone3,fork,vfork")
NONE_NEEDLE = "@none@"
TS_LINE = re.compile(rb"^(#|//) Generated at\s*:\s.* UTC\r?$", re.M)
# generated Python embeds base85(gzip(pickle)): base85 chars 0-4 are the gzip magic/method/flags, chars 5-9 the gzip MTIME
# (time dependence of the content is C07's business, DESIGN F5; here content is by hypothesis a function of the run)
GZ_MTIME = re.compile(rb"'ABzY8[!-~]{5}")
RUN_TIMEOUT = 180

DSDL = {
    "tiny/Point.1.0.dsdl": "float32 x\nfloat32 y\n@sealed\n",
    "tiny/sub/Blob.1.0.dsdl": "uint8[<=16] data\ntiny.Point.1.0 origin\n@extent 64 * 8\n",
    "tiny/sub/Query.1.0.dsdl": "uint16 key\n@sealed\n---\ntiny.sub.Blob.1.0 value\n@sealed\n",
}

PROG = """#!/bin/sh
# "formatter" $1=needle $2=append|replace|chmod $3=file: fails on files whose path contains the needle, otherwise
# appends one line -- in place, or by writing a temp file (mode 0600) and renaming it over the file (new inode), or in
# place followed by chmod 0640
case "$3" in *"$1"*) exit 3;; esac
case "$2" in
  append) printf '// pp\\n' >> "$3" ;;
  replace) t="$3.tmp$$"; ( umask 077; cat "$3" > "$t" ) && printf '// pp\\n' >> "$t" && mv -f "$t" "$3" ;;
  chmod) printf '// pp\\n' >> "$3" && chmod 0640 "$3" ;;
  *) exit 4 ;;
esac
"""
PROG_MODE = {"append": None, "replace": 0o600, "chmod": 0o640}

FOREIGN = ["README.txt", "tiny/NOTES.md", "nunavut/support/extra.h", "other/deep/x.bin", "tiny/sub/zz.h", "tiny/__init__.pyi"]
MODES = [0o644, 0o444, 0o600, 0o400, 0o000, 0o755, 0o640, 0o200, 0o555, 0o666]
FILE_MODES = [None, None, "0o644", "0o444", "0o600", "0o400", "0o640", "0o664", "0o755", "0", "0o200", "0o100640", "420", "0x1a4"]


# =====================================================================================================
# snapshots, traces
# =====================================================================================================

def sha_norm(data: bytes) -> str:
    return hashlib.sha256(GZ_MTIME.sub(b"'ABzY8<mtime>", TS_LINE.sub(b"<generated-at>", data))).hexdigest()


def snapshot(root: pathlib.Path):
    """({rel: (mode, sha)} for regular files, {rel: mode} for directories); symlinks are reported as files 'LINK'."""
    files, dirs = {}, {}
    if not root.exists():
        return files, dirs
    for dp, dn, fn in os.walk(root):
        for d in dn:
            p = pathlib.Path(dp, d)
            dirs[str(p.relative_to(root))] = stat.S_IMODE(p.lstat().st_mode)
        for f in fn:
            p = pathlib.Path(dp, f)
            st = p.lstat()
            rel = str(p.relative_to(root))
            if stat.S_ISLNK(st.st_mode):
                files[rel] = (0, "LINK")
            else:
                files[rel] = (stat.S_IMODE(st.st_mode), sha_norm(p.read_bytes()))
    return files, dirs


def cid(sha: str) -> str:
    return "h" + sha[:20]


_Q = re.compile(r'"((?:[^"\\]|\\.)*)"')
_CALL = re.compile(r"^(\w+)\((.*)\)\s+=\s+(-?\d+|\?)(?:\s+(E[A-Z]+))?")


def _unq(s):
    return s.encode("latin-1", "backslashreplace").decode("unicode_escape") if "\\" in s else s


def parse_trace(text: str):
    """strace -f output -> list of (pid, syscall, [string args], raw args, ret, errno)."""
    out, pend = [], {}
    for raw in text.splitlines():
        m = re.match(r"^(\d+)\s+(.*)$", raw)
        if not m:
            continue
        pid, rest = int(m.group(1)), m.group(2)
        if rest.endswith("<unfinished ...>"):
            pend[pid] = rest[: -len("<unfinished ...>")].rstrip()
            continue
        m2 = re.match(r"^<\.\.\. (\w+) resumed>\s*(.*)$", rest)
        if m2:
            rest = pend.pop(pid, m2.group(1) + "(") + m2.group(2)
        if rest.startswith("+++") or rest.startswith("---"):
            continue
        m3 = _CALL.match(rest)
        if not m3:
            continue
        name, args, ret, errno = m3.groups()
        out.append((pid, name, [_unq(s) for s in _Q.findall(args)], args, ret, errno))
    return out


def _rel(path, cwd, root):
    p = os.path.normpath(os.path.join(cwd, path))
    r = str(root)
    if p == r:
        return "."
    if p.startswith(r + "/"):
        return p[len(r) + 1:]
    return None


def tree_events(calls, cwd, root, mainpid=None):
    """Reduce parsed syscalls to events on the tree below `root`:
    ('chmod', rel, mode) ('mkdir', rel, ok) ('open', rel, ok/denied) ('exec', rel) ('other', name, rel); main pid only,
    except that an execve of another pid naming a path below root becomes ('exec', rel) and a successful rename onto /
    chmod of a tree path by another pid becomes ('childmode', rel): the program step replaced the inode or changed the mode."""
    if mainpid is None and calls:
        mainpid = calls[0][0]
    ev, fds, execd = [], {}, set()
    # ancestry first: with vfork the parent's return is logged after the child's execve
    parent = {int(ret): pid for pid, name, _, _, ret, _ in calls if name in ("clone", "clone3", "fork", "vfork") and ret.isdigit()}
    for pid, name, strs, args, ret, errno in calls:
        if name in ("clone", "clone3", "fork", "vfork"):
            continue
        rels = [r for r in (_rel(s, cwd, root) for s in strs) if r is not None] if strs else []
        if name == "execve":
            if pid != mainpid and ret == "0" and pid not in execd:
                hit = [r for r in (_rel(s, cwd, root) for s in strs[1:]) if r is not None and r != "."]
                if hit:
                    execd.add(pid)
                    # a process started by nnvg itself begins a program step; what that program spawns belongs to it
                    ev.append(("exec", hit[-1], parent.get(pid) == mainpid))
            continue
        if pid != mainpid:
            # the external program's own doing: a rename onto / chmod of a tree path changes inode or mode
            if ret == "0" and rels and name in ("rename", "renameat", "renameat2"):
                ev.append(("childmode", rels[-1]))
            elif ret == "0" and rels and name in ("chmod", "fchmodat"):
                ev.append(("childmode", rels[0]))
            continue
        if name in ("open", "openat", "creat"):
            if not strs:
                continue
            r = _rel(strs[0], cwd, root)
            if ret not in ("?",) and not ret.startswith("-"):
                fds[int(ret)] = r
            if r is None:
                continue
            writing = name == "creat" or "O_WRONLY" in args or "O_RDWR" in args
            if not writing:
                continue
            flags = "".join(sorted(set(re.findall(r"O_(?:TRUNC|CREAT|APPEND|EXCL)", args)))) if name != "creat" else "O_CREATO_TRUNC"
            if ret.startswith("-"):
                ev.append(("open", r, "denied" if errno in ("EACCES", "EPERM") else "fail:" + str(errno), flags))
            else:
                ev.append(("open", r, "ok", flags))
        elif name in ("chmod", "fchmodat"):
            if rels:
                mm = re.search(r",\s*(0[0-7]*)\s*(?:,|$)", args)
                mode = int(mm.group(1), 8) & 0o7777 if mm else -1
                ev.append(("chmod", rels[0], mode if ret == "0" else -1))
        elif name == "fchmod":
            mm = re.match(r"\s*(\d+),\s*(0[0-7]*)", args)
            if mm and fds.get(int(mm.group(1))) is not None:
                ev.append(("chmod", fds[int(mm.group(1))], int(mm.group(2), 8) & 0o7777 if ret == "0" else -1))
        elif name in ("mkdir", "mkdirat"):
            if rels:
                ev.append(("mkdir", rels[0], "ok" if ret == "0" else str(errno)))
        elif name == "ftruncate":
            mm = re.match(r"\s*(\d+),", args)
            if mm and fds.get(int(mm.group(1))) is not None:
                ev.append(("other", name, fds[int(mm.group(1))]))
        else:
            for r in rels:
                ev.append(("other", name, r))
    return ev


def canon_ops(events):
    """Events -> the operation strings the model prints."""
    ops, pending = [], []

    def flush_raw():
        for p, res in pending:
            ops.append(f"mkdir?@{p}@{res}")
        pending.clear()

    for e in events:
        if e[0] == "mkdir":
            pending.append((e[1], e[2]))
            continue
        if e[0] == "open":
            _, p, res, flags = e
            parent = os.path.dirname(p) or "."
            if pending and pending[0][0] == parent and all(parent == q or parent.startswith(q + "/") or q == "." for q, _ in pending):
                ops.append(f"mkdirs@{p}")
                pending.clear()
            else:
                flush_raw()
            if res == "ok" and flags == "O_CREATO_TRUNC":
                ops.append(f"open@{p}")
            elif res == "denied":
                ops.append(f"denied@{p}")
            else:
                ops.append(f"open?@{p}@{res}@{flags}")
            continue
        flush_raw()
        if e[0] == "chmod":
            ops.append(f"chmod@{e[1]}@{e[2]}")
        elif e[0] == "exec":
            # one program step = the script and the tools it spawns (cat, mv, chmod), all naming the same file
            if e[2] or not (ops and ops[-1] in (f"exec@{e[1]}", f"exec@{e[1]}@mode")):
                ops.append(f"exec@{e[1]}")
        elif e[0] == "childmode":
            if ops and ops[-1] in (f"exec@{e[1]}", f"exec@{e[1]}@mode"):
                ops[-1] = f"exec@{e[1]}@mode"
            else:
                ops.append(f"childmode?@{e[1]}")
        else:
            ops.append(f"{e[1]}?@{e[2]}")
    flush_raw()
    return ops


def model_ops(mops):
    """Model operation list; the post-processor index of `exec` is not observable in a trace."""
    out = []
    for o in ([] if mops == "-" else mops.split(",")):
        t = o.split("@")
        if t[0] == "exec":
            o = f"exec@{t[1]}" + ("@mode" if len(t) == 4 else "")  # exec@p@i[@mode-left-by-the-program]
        out.append(o)
    return out


def strace_cmd(umask, trace_file, argv):
    inner = " ".join(_shq(a) for a in (["strace", "-f", "-s", "4096", "-e", "trace=" + TRACE_SET, "-o", str(trace_file)] + list(argv)))
    return ["/bin/sh", "-c", f"umask {umask:03o}; exec {inner}"]


def _shq(s):
    s = str(s)
    return "'" + s.replace("'", "'\\''") + "'"


def sub_env():
    env = dict(os.environ)
    env["PYTHONPATH"] = str(common.REPO / "src")
    env["PYTHONDONTWRITEBYTECODE"] = "1"
    env.pop("PYTHONHASHSEED", None)
    return env


# =====================================================================================================
# stream "cli"
# =====================================================================================================

def cfg_key(c):
    return json.dumps(c, sort_keys=True)


def nnvg_args(c, outdir, nsdir, prog):
    a = [common.PY, "-m", "nunavut", "--target-language", c["lang"]]
    if c["lang"] == "cpp":
        a.append("--experimental-languages")
    a += ["-O", str(outdir)]
    if c.get("file_mode") is not None:
        a += ["--file-mode", c["file_mode"]]
    if c.get("no_overwrite"):
        a.append("--no-overwrite")
    if c.get("omit"):
        a.append("--omit-serialization-support")
    if c.get("support"):
        a += ["--generate-support", c["support"]]
    if c.get("trim"):
        a.append("--pp-trim-trailing-whitespace")
    if c.get("maxempty") is not None:
        a += ["--pp-max-emptylines", str(c["maxempty"])]
    if c.get("prog"):
        a += ["--pp-run-program", str(prog), "--pp-run-program-arg", c["prog"], "--pp-run-program-arg", c.get("prog_kind") or "append"]
    a.append(str(nsdir / "tiny"))
    return a


def plain_cfg(c):
    """The invocation without the external program and without --no-overwrite (complete output list, pre-program contents)."""
    return dict(c, prog=None, prog_kind=None, no_overwrite=False)


def file_mode_int(c):
    return 0o444 if c.get("file_mode") is None else int(c["file_mode"], 0)


def classify_rc(rc, stderr):
    if rc == 0:
        return "ok"
    tail = stderr.strip().splitlines()[-1] if stderr.strip() else ""
    if "allow_overwrite is False" in tail and tail.startswith("PermissionError"):
        return "conflict"
    if "CalledProcessError" in tail:
        return "pp"
    if tail.startswith("PermissionError"):
        return "eacces"
    return f"other:rc={rc}:{tail[:160]}"


def run_traced(workdir, umask, argv, tag):
    tf = workdir / f"trace_{tag}.txt"
    p = subprocess.run(strace_cmd(umask, tf, argv), cwd=workdir, env=sub_env(), capture_output=True, text=True, timeout=RUN_TIMEOUT)
    text = tf.read_text(errors="replace") if tf.exists() else ""
    tf.unlink(missing_ok=True)
    return p.returncode, p.stderr, parse_trace(text)


class Cli:
    def __init__(self, ctx):
        self.ctx = ctx
        self.base = ctx.scratch / "cli"
        self.base.mkdir()
        self.ns = self.base / "ns"
        for rel, text in DSDL.items():
            f = self.ns / rel
            f.parent.mkdir(parents=True, exist_ok=True)
            f.write_text(text)
        self.prog = self.base / "pp.sh"
        self.prog.write_text(PROG)
        self.prog.chmod(0o755)
        self.refs = {}
        self.lock = threading.Lock()
        self.n = 0

    def _fresh(self, prefix):
        with self.lock:
            self.n += 1
            d = self.base / f"{prefix}{self.n}"
        d.mkdir()
        return d

    def reference(self, c, umask):
        """The same invocation (minus --no-overwrite, which cannot matter there) into a fresh empty directory."""
        rc_ = dict(c)
        rc_["no_overwrite"] = False
        key = (cfg_key(rc_), umask)
        with self.lock:
            if key in self.refs:
                return self.refs[key]
        wd = self._fresh("ref")
        out = wd / "out"
        rc, err, calls = run_traced(wd, umask, nnvg_args(rc_, out, self.ns, self.prog), "r")
        ev = tree_events(calls, str(wd), out)
        files, dirs = snapshot(out)
        # generation order = order of the truncating opens; restricted to what the run really left behind, so that a tree
        # that writes through other paths (scratch file + rename) breaks the tie (operation traces) but not the harness
        order = []
        for e in ev:
            if e[0] == "open" and e[1] not in order and e[1] in files:
                order.append(e[1])
        order += [p for p in sorted(files) if p not in order]
        ref = {"status": classify_rc(rc, err), "files": files, "order": order, "ops": canon_ops(ev), "stderr": err[-400:]}
        shutil.rmtree(wd, ignore_errors=True)
        with self.lock:
            self.refs[key] = ref
        return ref

    def model_run(self, c, umask):
        """The `Run` of the model for this invocation, from reference runs into empty directories."""
        a = self.reference(plain_cfg(c), umask)
        if a["status"] != "ok":
            return None, a
        writes = [(p, cid(a["files"][p][1])) for p in a["order"]]
        pps = []
        b = a
        if c.get("prog"):
            b = self.reference(c, umask)
            table = []
            for p in a["order"]:
                pre = cid(a["files"][p][1])
                if p not in b["files"]:
                    break  # not reached in the reference: the run stopped before
                post = cid(b["files"][p][1])
                failed_here = b["status"] == "pp" and post == pre
                left = PROG_MODE[c.get("prog_kind") or "append"]
                table.append((pre, "!" if failed_here else post + ("" if left is None else f"~{left}")))
                if failed_here:
                    break
            if len({x for x, _ in table}) != len(table):
                raise RuntimeError("two output files with identical content: the program table is ambiguous")
            pps.append("E" + ("+".join(f"{x}>{y}" for x, y in table) or "-"))
        pps.append(f"M{file_mode_int(c)}")
        run = f"{0 if c.get('no_overwrite') else 1}:{','.join(pps)}:{','.join(f'{p}={h}=R' for p, h in writes) or '-'}"
        return run, b

    def run_history(self, h):
        """Execute one history on the real CLI.  Returns per-step observations (no ctx calls: runs in a worker thread)."""
        wd = self._fresh("hist")
        out = wd / "out"
        for rel, text, mode in h["init"]:
            f = out / rel
            f.parent.mkdir(parents=True, exist_ok=True)
            f.write_text(text)
            f.chmod(mode)
        for rel, mode in h.get("init_dirs", []):
            (out / rel).mkdir(parents=True, exist_ok=True)
            (out / rel).chmod(mode)
        init_files, init_dirs = snapshot(out)
        steps = []
        before = (init_files, init_dirs)
        for i, c in enumerate(h["steps"]):
            rc, err, calls = run_traced(wd, h["umask"], nnvg_args(c, out, self.ns, self.prog), f"s{i}")
            ev = tree_events(calls, str(wd), out)
            after = snapshot(out)
            steps.append({"cfg": c, "status": classify_rc(rc, err), "events": ev, "ops": canon_ops(ev), "before": before, "after": after,
                          "stderr": err[-300:]})
            before = after
        # make everything deletable
        for dp, dn, fn in os.walk(wd):
            for d in dn:
                os.chmod(os.path.join(dp, d), 0o755)
        shutil.rmtree(wd, ignore_errors=True)
        return {"init": init_files, "steps": steps}


def fs_listing(files):
    return "|".join(f"{p}={cid(sha)}={mode}" for p, (mode, sha) in sorted(files.items())) or "-"


def gen_cfg(rng, lang):
    c = {"lang": lang, "file_mode": rng.choice(FILE_MODES), "no_overwrite": rng.random() < 0.3,
         "omit": rng.random() < 0.2, "support": rng.choice([None, None, None, "never", "always", "only", "as-needed"]),
         "trim": rng.random() < 0.3, "maxempty": rng.choice([None, None, None, 0, 1, 2]),
         "prog": rng.choice([None] * 5 + [NONE_NEEDLE] * 4 + [rng.choice(["Blob", "Query", "Point", "support"])] * 2),
         "prog_kind": rng.choice(["append", "replace", "replace", "chmod"])}
    if c["prog"] is None:
        c["prog_kind"] = None
    if c["omit"] and c["support"] == "always":
        c["support"] = None
    return c


def gen_history(rng, langs, mixed, nsteps=None):
    lang = rng.choice(langs)
    n = nsteps or rng.randint(3, 6)
    steps = [gen_cfg(rng, rng.choice(langs) if mixed else lang) for _ in range(n)]
    # the first overwriting run is frequently preceded by nothing but the initial files; make sure --no-overwrite
    # meets both empty and populated trees
    h = {"stream": "cli", "umask": rng.choice([0o022, 0o022, 0o027, 0o077, 0o002]), "steps": steps, "init": [], "stale": rng.choice(["none", "some", "some", "all"]),
         "stale_modes": [rng.choice(MODES) for _ in range(16)], "stale_pick": [rng.random() for _ in range(16)],
         "derived_pick": [rng.random() for _ in range(37)], "derived_modes": [rng.choice(MODES) for _ in range(23)],
         "derived_rate": rng.choice([0.0, 0.15, 0.3, 0.3, 1.0])}
    for rel in FOREIGN:
        if rng.random() < 0.45:
            h["init"].append([rel, f"foreign {rel}\n", rng.choice(MODES)])
    return h


DERIVED = [lambda p: p + ".tmp", lambda p: p + ".bak", lambda p: p + ".orig", lambda p: p + "~", lambda p: p + ".new",
           lambda p: p + ".lock", lambda p: os.path.join(os.path.dirname(p), "." + os.path.basename(p)),
           lambda p: os.path.join(os.path.dirname(p), "." + os.path.basename(p) + ".swp"),
           lambda p: p + ".d/keep.txt", lambda p: os.path.splitext(p)[0] + "/keep.txt", lambda p: os.path.splitext(p)[0] + ".tmp"]


def add_derived(h, paths):
    """Foreign files whose names are derived from output names (scratch/backup/lock names a generator might be tempted to
    use, and the output name as a directory prefix): a run must leave them alone like any other foreign file."""
    pick = h.get("derived_pick")
    if not pick:
        return
    have = {r for r, _, _ in h["init"]} | set(paths)
    k = 0
    for p in paths:
        for f in DERIVED:
            k += 1
            q = f(p)
            if pick[k % len(pick)] < h.get("derived_rate", 0.25) and q not in have and not any(q.startswith(x + "/") for x in have):
                have.add(q)
                h["init"].append([q, f"foreign, named after {p}\n", h["derived_modes"][k % len(h["derived_modes"])]])


def add_stale(h, paths):
    """Stale files at output paths of the history's first invocation (paths known only after the reference run)."""
    if h.get("stale", "none") == "none":
        return
    have = {r for r, _, _ in h["init"]}
    for i, p in enumerate(paths):
        if p in have:
            continue
        if h["stale"] == "all" or h["stale_pick"][i % 16] < 0.5:
            h["init"].append([p, f"stale {i}\n", h["stale_modes"][i % 16]])


def check_cli_step(ctx, hid, h, i, st, ref_plain, ref_same):
    """The property's two statements on the implementation alone.  ref_same = the same invocation into an empty directory
    (None if it could not be produced); ref_plain = same without the external program (complete list of output paths)."""
    c = st["cfg"]
    bf, bd = st["before"]
    af, ad = st["after"]
    outputs = set(ref_plain["files"]) if ref_plain["status"] == "ok" else None
    rep = {"history": h, "step": i, "status": st["status"], "stderr": st["stderr"]}
    if outputs is None:
        return
    # every path the run does not generate is untouched (any flags, failing or not)
    for p in set(bf) | set(af):
        if p not in outputs and bf.get(p) != af.get(p):
            ctx.fail({"kind": "foreign-touched"}, "a path the run does not generate changed", dict(rep, path=p, before=bf.get(p), after=af.get(p)))
    for d, m in bd.items():
        if d not in outputs and ad.get(d) != m:
            ctx.fail({"kind": "foreign-dir-touched"}, "a pre-existing directory changed its mode or vanished", dict(rep, path=d, before=m, after=ad.get(d)))
    if not c.get("no_overwrite"):
        if ref_same["status"] == "ok":
            if st["status"] != "ok" and h.get("no_model"):
                return  # outside the model's domain (a directory at an output path, a file where a directory is needed)
            if st["status"] != "ok":
                ctx.fail({"kind": "overwrite-run-fails"}, "a run that succeeds into an empty directory fails over existing output",
                         dict(rep))
                return
            for p, (mode, sha) in ref_same["files"].items():
                got = af.get(p)
                if got is None or got[1] != sha:
                    ctx.fail({"kind": "overwrite-content"}, "file differs from the same run into an empty directory",
                             dict(rep, path=p, got=got, expected=[mode, sha]))
                elif got[0] != mode or got[0] != file_mode_int(c) & 0o7777:
                    ctx.fail({"kind": "overwrite-mode"}, "file mode differs from the requested one / the run into an empty directory",
                             dict(rep, path=p, got=got[0], expected=mode, requested=file_mode_int(c)))
        # trace level: a pre-existing file is opened for writing only while its owner-write bit is set
        modes = {p: m for p, (m, _) in bf.items()}
        for e in st["events"]:
            if e[0] == "chmod" and e[2] >= 0:
                modes[e[1]] = e[2]
            elif e[0] == "childmode":
                modes.pop(e[1], None)  # the program left its own inode/mode: not tracked from the trace
            elif e[0] == "open":
                p = e[1]
                if p in modes and not modes[p] & 0o200:
                    ctx.fail({"kind": "open-without-write-bit"},
                             "an existing file without the owner's write bit is opened for writing (fails for a non-root owner)",
                             dict(rep, path=p, mode=modes[p]))
                modes.setdefault(p, 0o600)
    else:
        for p, v in bf.items():
            if af.get(p) != v:
                ctx.fail({"kind": "no-overwrite-changed"}, "--no-overwrite changed a pre-existing file", dict(rep, path=p, before=v, after=af.get(p)))
        for e in st["events"]:
            p = e[2] if e[0] == "other" else e[1]
            if e[0] != "mkdir" and p in bf:
                ctx.fail({"kind": "no-overwrite-op-on-existing"}, "--no-overwrite operated on a pre-existing file", dict(rep, path=p, event=list(e)))
        for d, m in bd.items():
            if ad.get(d) != m:
                ctx.fail({"kind": "no-overwrite-changed"}, "--no-overwrite changed a pre-existing directory", dict(rep, path=d, before=m, after=ad.get(d)))
        conflict = bool(outputs & (set(bf) | set(bd)))
        failed = st["status"] != "ok"
        odd = bool(h.get("no_model")) and st["status"].startswith("other")  # fails for a reason outside the model's domain
        if ref_same["status"] == "ok" and conflict != failed and not odd:
            ctx.fail({"kind": "no-overwrite-verdict"}, "--no-overwrite must fail iff one of the outputs pre-exists",
                     dict(rep, conflict=sorted(outputs & set(bf))))
        if conflict and st["status"] not in ("conflict", "pp") and not (h.get("no_model") and st["status"] != "ok"):
            ctx.fail({"kind": "no-overwrite-verdict"}, "an output pre-exists but the run did not report the conflict", dict(rep))


def do_cli(ctx, drv, histories, pool):
    cli = Cli(ctx)
    # 1. references (parallel), stale files
    need = {}
    for h in histories:
        for c in h["steps"]:
            for v in (plain_cfg(c), dict(c, no_overwrite=False)):
                need[(cfg_key(v), h["umask"])] = (v, h["umask"])
    list(pool.map(lambda cu: cli.reference(*cu), need.values()))
    ctx.count("cli_reference_runs", len(need))
    for h in histories:
        first = cli.reference(plain_cfg(h["steps"][0]), h["umask"])
        others = []
        for c in h["steps"][1:]:
            others += cli.reference(plain_cfg(c), h["umask"])["order"]
        allp = first["order"] + [p for p in others if p not in first["order"]]
        add_stale(h, allp)
        add_derived(h, allp)
    # 2. the histories on the real CLI (parallel)
    results = list(pool.map(cli.run_history, histories))
    # 3. the model
    reqs, metas = [], []
    for h, res in zip(histories, results):
        runs, ok = [], True
        for c in h["steps"]:
            run, ref = cli.model_run(c, h["umask"])
            if run is None:
                ok = False
                break
            runs.append(run)
        metas.append(ok)
        if ok and not h.get("no_model"):
            reqs.append(f"hist 1,{0o666 & ~h['umask']} {fs_listing(res['init'])} {';'.join(runs)}")
    answers = iter(drv.ask(reqs, timeout=600)) if drv is not None else iter([])
    for hid, (h, res, ok) in enumerate(zip(histories, results, metas)):
        ctx.case(("cli", json.dumps(h, sort_keys=True)), nontrivial=bool(h["init"]) or len(h["steps"]) > 1)
        ctx.count("cli_histories")
        ctx.count("cli_invocations", len(h["steps"]))
        if not ok:
            ctx.count("cli_history_without_reference")
            ctx.disagree("cli-reference", h, "a reference run into an empty directory", "failed")
            continue
        model = next(answers).split(";") if drv is not None and not h.get("no_model") else [None] * len(h["steps"])
        if h.get("name"):
            ctx.extra.setdefault("corpus_cli_statuses", {})[h["name"]] = [st["status"] for st in res["steps"]]
        for i, st in enumerate(res["steps"]):
            c = st["cfg"]
            ref_plain = cli.reference(plain_cfg(c), h["umask"])
            ref_same = cli.reference(dict(c, no_overwrite=False), h["umask"])
            ctx.count("status=" + st["status"].split(":")[0])
            ctx.count("lang=" + c["lang"])
            for flag in ("no_overwrite", "omit", "trim"):
                if c.get(flag):
                    ctx.count("flag=" + flag)
            if c.get("prog"):
                ctx.count("flag=pp-run-program:" + (c.get("prog_kind") or "append") + ("" if c["prog"] == NONE_NEEDLE else "(failing)"))
            if any(e[0] == "chmod" and i2 + 2 < len(st["events"]) and st["events"][i2 + 1][0] == "mkdir" for i2, e in enumerate(st["events"])):
                ctx.count("steps_overwriting_existing_files")
            ro = [p for p, (m, _) in st["before"][0].items() if not m & 0o200 and p in ref_plain["files"]]
            if ro and not c.get("no_overwrite"):
                ctx.count("steps_over_readonly_leftovers")
            if model[i] is not None:
                ctx.traces += 1
                mstatus, mops, mfs = model[i].split("#")
                got = (st["status"], st["ops"], fs_listing(st["after"][0]))
                want = (mstatus.split("@")[0], model_ops(mops), mfs)
                if got != want:
                    what = [n for n, a, b in zip(("status", "ops", "fs"), got, want) if a != b]
                    ctx.disagree("cli-history", {"history": h, "step": i, "differs": what},
                                 {"status": want[0], "ops": want[1], "fs": want[2]}, {"status": got[0], "ops": got[1], "fs": got[2], "stderr": st["stderr"]})
            check_cli_step(ctx, hid, h, i, st, ref_plain, ref_same)
    if results:
        last = results[-1]["steps"][-1]
        ctx.sample({"stream": "cli", "cfg": last["cfg"], "status": last["status"], "ops": last["ops"][:12]})
    return cli


# =====================================================================================================
# stream "lib": _generate_code / _copy_header in-process under strace
# =====================================================================================================

LIB_SCRIPT = r'''
import hashlib, json, os, pathlib, stat, subprocess, sys, types
spec = json.load(open(sys.argv[1]))
from nunavut.jinja import DSDLCodeGenerator, SupportGenerator
import nunavut._postprocessors as npp

class RenderBoom(Exception):
    pass

def chunks(text, boom):
    half = len(text) // 2
    yield text[:half]
    yield text[half:]
    if boom:
        raise RenderBoom()

def snap(root):
    out = {}
    for dp, dn, fn in os.walk(root):
        for f in fn:
            p = pathlib.Path(dp, f)
            st = p.lstat()
            out[str(p.relative_to(root))] = [stat.S_IMODE(st.st_mode), hashlib.sha256(p.read_bytes()).hexdigest()]
    return out

res = []
for sc in spec["scenarios"]:
    base = pathlib.Path(sc["dir"])
    steps = []
    for si, run in enumerate(sc["runs"]):
        os.mkdir(os.path.join(spec["markers"], "%s_%d" % (sc["id"], si)))
        pps = []
        for p in run["pps"]:
            if p[0] == "M":
                pps.append(npp.SetFileMode(p[1]))
            elif p[0] == "E":
                pps.append(npp.ExternalProgramEditInPlace([spec["prog"], p[1], p[2] if len(p) > 2 else "append"]))
            elif p[0] == "T":
                pps.append(npp.TrimTrailingWhitespace())
        gen = object.__new__(DSDLCodeGenerator)
        gen._env = types.SimpleNamespace()
        gen._post_processors = pps if (pps or not run.get("none_pps")) else None
        sgen = object.__new__(SupportGenerator)
        line_pps = [p for p in pps if isinstance(p, npp.LinePostProcessor)]
        file_pps = [p for p in pps if isinstance(p, npp.FilePostProcessor)]
        status = "ok"
        try:
            for w in run["writes"]:
                target = base / w["path"]
                if w["kind"] == "C":
                    sgen._copy_header(pathlib.Path(w["resource"]), target, False, run["allow"], line_pps, file_pps)
                else:
                    gen._generate_code(target, None, chunks(w["text"], w["kind"] == "X"), run["allow"])
        except PermissionError as e:
            status = "eacces" if e.errno == 13 else "conflict"
        except subprocess.CalledProcessError:
            status = "pp"
        except RenderBoom:
            status = "render"
        except Exception as e:
            status = "other:" + type(e).__name__ + ":" + str(e)[:100]
        steps.append({"status": status, "snap": snap(base)})
    res.append({"id": sc["id"], "steps": steps})
os.mkdir(os.path.join(spec["markers"], "end_0"))
json.dump(res, open(sys.argv[2], "w"))
'''

PP_TEXT = "// pp\n"


def lib_text(tag):
    return f"/* {tag} */\nline two of {tag}\n"


def lib_scenarios_exhaustive(quick):
    """Single interesting file `f.h` (+ a second new file in a new directory), three-step histories cfg, cfg', cfg."""
    inits = [None, 0o644, 0o444, 0o000, 0o200, 0o555] if not quick else [None, 0o644, 0o444, 0o000]
    ppss = [[], [["M", 0o444]], [["E", NONE_NEEDLE]], [["E", NONE_NEEDLE], ["M", 0o600]], [["M", 0o400], ["E", NONE_NEEDLE]],
            [["E", "f.h"]], [["E", "f.h"], ["M", 0o444]], [["M", 0o100640], ["M", 0o4]],
            [["E", NONE_NEEDLE, "replace"]], [["E", NONE_NEEDLE, "replace"], ["M", 0o444]], [["M", 0o444], ["E", NONE_NEEDLE, "replace"]],
            [["M", 0o400], ["E", NONE_NEEDLE, "chmod"]], [["E", NONE_NEEDLE, "chmod"], ["E", NONE_NEEDLE, "replace"], ["M", 0o644]]]
    kinds = [("R", None), ("X", None), ("C", 0o644), ("C", 0o555)]
    out = []
    for init in inits:
        for allow in (True, False):
            for pps in ppss:
                for kind, cm in kinds:
                    for linepp in (False, True):
                        if quick and linepp and kind != "C":
                            continue
                        p = ([["T"]] if linepp else []) + pps
                        def run(al, tag):
                            return {"allow": al, "pps": p,
                                    "writes": [{"path": "f.h", "tag": tag + "f", "kind": kind, "copy_mode": cm},
                                               {"path": "d/g.h", "tag": tag + "g", "kind": "R", "copy_mode": None}]}
                        out.append({"init": [] if init is None else [["f.h", "stale f\n", init]],
                                    "runs": [run(allow, "a"), run(not allow, "b"), run(allow, "c")]})
    return out


def lib_scenarios_random(rng, n):
    out = []
    paths = ["f.h", "d/g.h", "d/e/h.h", "k.h", "d/k.h"]
    for _ in range(n):
        init = [[p, f"stale {p}\n", rng.choice(MODES)] for p in paths + ["foreign.txt", "d/foreign.bin"] if rng.random() < 0.5]
        runs = []
        for r in range(rng.randint(3, 6)):
            pps = []
            for _ in range(rng.choice([0, 1, 1, 2, 2, 3])):
                pps.append(rng.choice([["M", rng.choice([0o444, 0o644, 0o600, 0o400, 0, 0o200, 0o755, 0o100664])],
                                       ["E", rng.choice([NONE_NEEDLE, NONE_NEEDLE, NONE_NEEDLE, "g.h", "k.h", "f.h"]),
                                        rng.choice(["append", "append", "replace", "chmod"])]]))
            if rng.random() < 0.25:
                pps.insert(0, ["T"])
            ws = []
            for wi in range(rng.randint(1, 4)):
                kind = rng.choice(["R", "R", "R", "C", "X" if rng.random() < 0.3 else "R"])
                ws.append({"path": rng.choice(paths), "tag": f"r{r}w{wi}", "kind": kind, "copy_mode": rng.choice([0o644, 0o444, 0o755, 0o600]) if kind == "C" else None})
            runs.append({"allow": rng.random() < 0.65, "pps": pps, "writes": ws})
        out.append({"init": init, "runs": runs})
    return out


def lib_model_request(sc, umask):
    """Request line for the model + the map content id -> sha256 the implementation must show."""
    ids = {}

    def reg(name, text):
        ids[name] = hashlib.sha256(text.encode()).hexdigest()
        return name

    init = []
    for k, (p, text, mode) in enumerate(sc["init"]):
        init.append(f"{p}={reg(f'i{k}', text)}={mode}")
    runs = []
    for run in sc["runs"]:
        has_line = any(p[0] == "T" for p in run["pps"])
        table, ws = [], []
        for w in run["writes"]:
            text = lib_text(w["tag"])
            reg(w["tag"], text)
            reg(w["tag"] + "p", text + PP_TEXT)
            reg(w["tag"] + "pp", text + PP_TEXT + PP_TEXT)
            reg(w["tag"] + "ppp", text + PP_TEXT + PP_TEXT + PP_TEXT)
            kind = "R" if w["kind"] == "R" or (w["kind"] == "C" and has_line) else ("X" if w["kind"] == "X" else f"C{w['copy_mode']}")
            ws.append(f"{w['path']}={w['tag']}={kind}")
        pps = []
        for p in run["pps"]:
            if p[0] == "M":
                pps.append(f"M{p[1]}")
            elif p[0] == "E":
                # the program: fails iff the path contains the needle, else appends one line
                ent = []
                for w in run["writes"]:
                    for suf in ("", "p", "pp"):
                        left = PROG_MODE[p[2] if len(p) > 2 else "append"]
                        ent.append(f"{w['tag']}{suf}>" + ("!" if p[1] in w["path"] else f"{w['tag']}{suf}p" + ("" if left is None else f"~{left}")))
                pps.append("E" + "+".join(ent))
        runs.append(f"{1 if run['allow'] else 0}:{','.join(pps) or '-'}:{','.join(ws)}")
    return f"hist 1,{0o666 & ~umask} {'|'.join(init) or '-'} {';'.join(runs)}", ids


def do_lib(ctx, drv, scenarios, pool, label):
    base = ctx.scratch / f"lib_{label}"
    base.mkdir()
    prog = base / "pp.sh"
    prog.write_text(PROG)
    prog.chmod(0o755)
    script = base / "lib_script.py"
    script.write_text(LIB_SCRIPT)
    umask = 0o022
    # a failing program must fail on *paths*, the model's table is per content: tags are unique per write, fine.
    nchunks = max(1, min(16, len(scenarios) // 8))
    chunks = [scenarios[i::nchunks] for i in range(nchunks)]
    for ci, ch in enumerate(chunks):
        for k, sc in enumerate(ch):
            sc["id"] = f"c{ci}k{k}"
            d = base / f"c{ci}" / f"k{k}"
            d.mkdir(parents=True)
            sc["dir"] = str(d)
            for p, text, mode in sc["init"]:
                f = d / p
                f.parent.mkdir(parents=True, exist_ok=True)
                f.write_text(text)
                f.chmod(mode)
            for ri, run in enumerate(sc["runs"]):
                for wi, w in enumerate(run["writes"]):
                    w["text"] = lib_text(w["tag"])
                    if w["kind"] == "C":
                        res = base / f"c{ci}" / f"res_{k}_{ri}_{wi}.txt"
                        res.write_text(w["text"])
                        res.chmod(w["copy_mode"])
                        w["resource"] = str(res)

    def work(ci):
        wd = base / f"c{ci}"
        markers = wd / "markers"
        markers.mkdir()
        spec = {"scenarios": chunks[ci], "markers": str(markers), "prog": str(prog)}
        (wd / "spec.json").write_text(json.dumps(spec))
        rc, err, calls = run_traced(wd, umask, [common.PY, str(script), str(wd / "spec.json"), str(wd / "result.json")], "lib")
        if rc != 0:
            raise RuntimeError(f"lib script failed: {err[-1500:]}")
        result = json.loads((wd / "result.json").read_text())
        # split the syscalls at the markers
        main = calls[0][0]
        seg, cur = {}, None
        for call in calls:
            if call[1] == "mkdir" and call[2] and os.path.dirname(call[2][0]) == str(markers):
                cur = os.path.basename(call[2][0])
                seg[cur] = []
            elif cur is not None:
                seg[cur].append(call)
        return result, seg, main, str(wd)

    outs = list(pool.map(work, range(nchunks)))
    reqs, idmaps = [], []
    for ch in chunks:
        for sc in ch:
            r, ids = lib_model_request(sc, umask)
            reqs.append(r)
            idmaps.append(ids)
    answers = drv.ask(reqs, timeout=600) if drv is not None else [None] * len(reqs)
    ai = 0
    for ci, ch in enumerate(chunks):
        result, seg, main, wd = outs[ci]
        for k, sc in enumerate(ch):
            ans, ids = answers[ai], idmaps[ai]
            ai += 1
            rev = {v: k2 for k2, v in ids.items()}
            ctx.case(("lib", json.dumps({"init": sc["init"], "runs": [{"a": r["allow"], "p": r["pps"], "w": [(w["path"], w["kind"], w["copy_mode"]) for w in r["writes"]]} for r in sc["runs"]]}, sort_keys=True)),
                     nontrivial=True)
            ctx.count(f"lib_{label}_histories")
            if ans is None:
                continue
            msteps = ans.split(";")
            for si, run in enumerate(sc["runs"]):
                real = result[k]["steps"][si]
                ev = tree_events(seg.get(f"{sc['id']}_{si}", []), wd, pathlib.Path(sc["dir"]), mainpid=main)
                ops = canon_ops(ev)
                listing = "|".join(f"{p}={rev.get(sha, 'unknown:' + sha[:10])}={mode}" for p, (mode, sha) in sorted(real["snap"].items())) or "-"
                mstatus, mops, mfs = msteps[si].split("#")
                want = (mstatus.split("@")[0], model_ops(mops), mfs)
                got = (real["status"], ops, listing)
                ctx.traces += 1
                ctx.count("lib_status=" + real["status"].split(":")[0])
                if got != want:
                    what = [n for n, a, b in zip(("status", "ops", "fs"), got, want) if a != b]
                    slim = {"init": sc["init"], "runs": [{"allow": r["allow"], "pps": r["pps"], "writes": [{k3: w[k3] for k3 in ("path", "tag", "kind", "copy_mode")} for w in r["writes"]]} for r in sc["runs"]]}
                    ctx.disagree("lib-history", {"scenario": slim, "step": si, "differs": what},
                                 {"status": want[0], "ops": want[1], "fs": want[2]}, {"status": got[0], "ops": got[1], "fs": got[2]})
    # make everything deletable
    for dp, dn, fn in os.walk(base):
        for d in dn:
            os.chmod(os.path.join(dp, d), 0o755)


# =====================================================================================================

def load_corpus():
    out = []
    d = common.VERIF / "corpus" / "C12"
    if d.exists():
        for f in sorted(d.glob("*.json")):
            out += json.loads(f.read_text())
    return out


def argv_stream(ctx, drv_cli):
    """The command-line layer (Model/CliParse.lean, Model/OverwriteCli.lean): random command lines through the real parser and the
    real ArgparseRunner with recording generators vs the model — namespace, `_generate` calls with keyword values, post-processor
    list — and the property's own reading on the implementation: both generators get the same overwrite gate / dry-run flag, which is
    what the command line says, and `SetFileMode(--file-mode)` is the last file post-processor."""
    from . import cliparse_tie as ct
    try:
        from translate import cliargs
        tr = cliargs.main(common.REPO)
        ctx.extra.setdefault("translator", {})["cliargs"] = {"changed": tr["changed"], "actions": tr["actions"], "ppRules": tr["ppRules"]}
    except Exception as e:  # the parser / runner can no longer be expressed in the tables: tie broken
        ctx.broken.append({"kind": "translator", "translator": "cliargs", "error": repr(e)[:500]})
    if drv_cli is None:
        return
    impl = ct.Impl()
    bias = ["--no-overwrite", "--file-mode", "--dry-run", "-d", "--pp-max-emptylines", "--pp-trim-trailing-whitespace", "-pp-rp", "--pp-run-program",
            "-pp-rpa", "--pp-run-program-arg", "--omit-serialization-support", "-pod", "--generate-support", "--embed-auditing-info"]
    nsdir = ctx.scratch / "argv_ns"
    nsdir.mkdir(exist_ok=True)
    argvs = [list(a) for a in ct.CORPUS] + ct.random_argvs(ctx.rng, impl, 1200 if ctx.quick else 20000, bias=bias)
    runnable = ct.runnable_argvs(ctx.rng, 300 if ctx.quick else 5000, str(nsdir))
    answers = drv_cli.ask(["parse " + " ".join(enc(a) for a in argv) for argv in argvs + runnable], timeout=1200)
    acc = ct.compare_parse(ctx, "argv", impl, argvs, answers[:len(argvs)])
    acc_run = ct.compare_parse(ctx, "argv-runnable", impl, runnable, answers[len(argvs):])

    def oracle(argv, args, p):
        gen = [(t, kw) for t, fn, kw in p.get("calls", []) if fn == "generate_all"]
        listing = bool(args.list_outputs or args.list_inputs or args.list_configuration)
        if not listing:
            for t, kw in gen:
                want = {"allow_overwrite": not args.no_overwrite, "is_dryrun": args.dry_run}
                got = {k: kw.get(k, {"allow_overwrite": True, "is_dryrun": False}[k]) for k in want}
                if got != want:
                    ctx.fail({"kind": "cli-gate-not-forwarded", "target": t},
                             "a generator is called with another overwrite gate / dry-run flag than the command line asks for",
                             {"argv": argv, "target": t, "got": got, "expected": want})
            if len({json.dumps({k: repr(v) for k, v in kw.items()}, sort_keys=True) for _, kw in gen}) > 1:
                ctx.fail({"kind": "cli-gate-differs"}, "support generator and type generator receive different keyword values",
                         {"argv": argv, "calls": [[t, {k: repr(v) for k, v in kw.items()}] for t, kw in gen]})
        fpps = [x for x in (p.get("pps") or []) if type(x).__mro__[1].__name__ == "FilePostProcessor" or type(x).__name__ in ("SetFileMode", "ExternalProgramEditInPlace")]
        if not fpps or type(fpps[-1]).__name__ != "SetFileMode" or fpps[-1]._file_mode != args.file_mode:
            ctx.fail({"kind": "cli-set-file-mode-not-last"}, "SetFileMode(--file-mode) is not the last file post-processor the generators receive",
                     {"argv": argv, "post_processors": [type(x).__name__ for x in (p.get("pps") or [])]})
    ct.compare_plan(ctx, "argv-plan", impl, acc_run + acc[: (100 if ctx.quick else 3000)], oracle)


def run(ctx: common.Ctx):
    drivers = ctx.prove(["C12", "C12Fs"], exes=["overwrite", "cli"])
    drv = drivers.get("overwrite")
    argv_stream(ctx, drivers.get("cli"))
    ctx.rule = ("cli: histories of 3-6 real nnvg invocations under strace (language, --file-mode, --no-overwrite, --omit-serialization-support, "
                "--generate-support, line post-processors, --pp-run-program incl. failing) into a directory pre-populated with foreign files and "
                "stale files of random modes at output paths; lib: _generate_code/_copy_header in-process under strace, exhaustive "
                "(initial state of the file x allow x 13 post-processor lists x render/failing render/copy x line-pp) as 3-step histories + random "
                "multi-file histories; compared per step: status class, operation sequence on the tree, resulting (path, mode, sha256); "
                "distinct by the full history description")
    ctx.assumptions = [
        "content a run renders for a file is a function of the invocation (C07/C10); the 'Generated at' line and the gzip MTIME inside generated Python's pickled model are normalised before hashing",
        "POSIX owner semantics of chmod/open as modelled; regular files only (no symlinks, no directory at an output path, no file at a directory position)",
        "the harness runs as root: a denied open is unobservable from contents, hence the operation traces (strace) and the non-root branch in the model",
        "external programs depend on the file content only (they may edit in place, replace the file by a new inode, or chmod it)",
        "paths of one run are distinct (C11) for the 'fails iff an output pre-exists' direction",
    ]
    ctx.scratch  # create before the threads start
    rng = ctx.rng
    corpus = load_corpus()
    cli_hist = [h for h in corpus if h.get("stream") == "cli"]
    lib_corpus = [h for h in corpus if h.get("stream") == "lib"]
    ncorpus = len(corpus)
    if ctx.quick:
        langs, nh, nlibrand = ["c", "py", "cpp"], 36, 200
    else:
        langs, nh, nlibrand = ["c", "py", "cpp"], 400, 2000
    for k in range(nh):
        cli_hist.append(gen_history(rng, [langs[k % len(langs)]] if k % 5 else langs, mixed=(not ctx.quick and k % 5 == 0) or (ctx.quick and k == 0)))
    lib_exh = lib_scenarios_exhaustive(ctx.quick)
    lib_rand = lib_corpus + lib_scenarios_random(rng, nlibrand)
    ctx.extra["domain"] = {"corpus": ncorpus, "cli_histories": len(cli_hist), "lib_exhaustive_histories": len(lib_exh), "lib_random_histories": len(lib_rand)}
    ctx.exhaustive = False
    with cf.ThreadPoolExecutor(max_workers=min(16, os.cpu_count() or 4)) as pool:
        do_lib(ctx, drv, lib_exh, pool, "exh")
        do_lib(ctx, drv, lib_rand, pool, "rand")
        # directories and symbolic links (Model/OverwriteFs.lean)
        from . import c12_fsx
        fsx = c12_fsx.corpus_scenarios() + c12_fsx.gen_scenarios(rng, 150 if ctx.quick else 4000)
        ctx.extra["domain"]["fsx_histories"] = len(fsx)
        c12_fsx.run_stream(ctx, drv, sys.modules[__name__], fsx, pool)
        cli = do_cli(ctx, drv, cli_hist, pool)
        # whole generator runs over links / directories at output paths, and generate_types histories inside one interpreter
        from . import c12_api
        c12_api.run_links(ctx, drv, sys.modules[__name__], cli, pool)
        api_hist = [[dict(c12_api.API_VARIANTS[0], allow=True), dict(c12_api.API_VARIANTS[1], allow=True), dict(c12_api.API_VARIANTS[0], allow=False)],
                    [dict(c12_api.API_VARIANTS[3], allow=True), dict(c12_api.API_VARIANTS[0], allow=False), dict(c12_api.API_VARIANTS[2], allow=True)],
                    [dict(c12_api.API_VARIANTS[6], allow=True), dict(c12_api.API_VARIANTS[6], allow=False), dict(c12_api.API_VARIANTS[6], allow=True)]]
        api_hist += c12_api.gen_api_histories(rng, 12 if ctx.quick else 150)
        ctx.extra["domain"]["api_histories"] = len(api_hist)
        c12_api.run_api(ctx, drv, sys.modules[__name__], cli, pool, api_hist)
    if ctx.failures or ctx.disagreements:
        dig = {}
        for f in ctx.failures:
            r = f["replay"]
            if "history" not in r:
                dig[f"{f['key'].get('kind')}|argv"] = dig.get(f"{f['key'].get('kind')}|argv", 0) + 1
                continue
            k = f"{f['key'].get('kind')}|{r['history']['steps'][r['step']].get('lang')}|step{r['step']}|{r.get('path')}|{r.get('got')}|{r.get('expected')}"
            dig[k] = dig.get(k, 0) + 1
        for d in ctx.disagreements:
            k = f"disagree|{d['stream']}|{d['input'].get('differs')}|step{d['input'].get('step')}"
            dig[k] = dig.get(k, 0) + 1
        ctx.extra["failure_digest"] = dig


def replay(ctx, path):
    r = json.loads(open(path).read())
    rp = r.get("replay", {})
    h = rp.get("history")
    if rp.get("scenario") and "init" in rp["scenario"]:
        # stream fsx: the scenario (initial tree + runs) again, implementation side only
        from . import c12_fsx
        ctx.scratch
        sc = {"init": [list(e) for e in rp["scenario"]["init"]], "runs": rp["scenario"]["runs"]}
        with cf.ThreadPoolExecutor(max_workers=2) as pool:
            c12_fsx.run_stream(ctx, None, sys.modules[__name__], [sc], pool, label="replay")
        for f in ctx.failures:
            print(json.dumps({"key": f["key"], "what": f["what"], "step": f["replay"].get("step"), "path": f["replay"].get("path")}))
        n = len([f for f in ctx.failures if f["key"].get("kind") == r.get("key", {}).get("kind")])
        ctx.cleanup()
        return 1 if n else 0
    if (h and h.get("stream") == "api") or (rp.get("scenario") or {}).get("stream") == "links":
        from . import c12_api
        ctx.scratch
        cli = Cli(ctx)
        with cf.ThreadPoolExecutor(max_workers=4) as pool:
            if h and h.get("stream") == "api":
                c12_api.run_api(ctx, None, sys.modules[__name__], cli, pool, [h["calls"]])
            else:
                c12_api.run_links(ctx, None, sys.modules[__name__], cli, pool)
        for f in ctx.failures:
            print(json.dumps({"key": f["key"], "what": f["what"], "step": f["replay"].get("step")}))
        n = len([f for f in ctx.failures if f["key"].get("kind") == r.get("key", {}).get("kind")])
        ctx.cleanup()
        return 1 if n else 0
    if rp.get("argv") is not None:
        print("command-line stream: re-run ./check C12 (the argv is in the replay file)")
        return 1
    if not h or h.get("stream") != "cli":
        print("nothing to replay (no cli history in the file)")
        return 1
    ctx.scratch
    with cf.ThreadPoolExecutor(max_workers=4) as pool:
        h = dict(h)
        h["stale"] = "none"
        do_cli(ctx, None, [h], pool)
    for f in ctx.failures:
        print(json.dumps({"key": f["key"], "what": f["what"], "step": f["replay"].get("step"), "path": f["replay"].get("path")}))
    n = len(ctx.failures)
    ctx.cleanup()
    return 1 if n else 0
