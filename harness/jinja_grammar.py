"""
Grammar-based generator of Jinja2 templates in the stable core shared by the bundled Jinja2 (2.11.dev line) and
current upstream (3.1.x): text, typed expressions (arithmetic, comparisons, filters, tests, conditional
expressions, subscripts, calls), if/elif/else, for (loop variables, else, filter, break/continue), set (inline and
block), macro/call, filter blocks, with, include/import/from/extends/blocks through a DictLoader, whitespace
control, comments, raw, autoescape, do.  Mostly valid by construction (typed names and a typed context); a small
fraction of deliberate errors (undefined names, missing templates, division by zero, syntax damage) feeds the
"both engines fail" branch.

Everything random comes from the `random.Random` handed in.

Constructs deliberately NOT generated because the two upstream *versions* differ on them for reasons unrelated to
Nunavut's edits (see EXCLUDED; the list is copied into REPORT.md).
"""

EXCLUDED = [
    "[known finding snapshot-bug-exotic-line-breaks-in-template-source, probed separately] template text containing \\x0b \\x0c \\x1c-\\x1e \\x85 U+2028 U+2029 (2.x splits the source with str.splitlines, 3.x only on \\r\\n|\\r|\\n)",
    "float literals with exponent or digit separators (1e3, 1_000): 3.x lexer only",
    "[known finding snapshot-bug-const-compare-chain, probed separately] comparison chains (two or more operators) over constants only: constant folding keeps only the last comparison in the 2.11.dev snapshot (`85 < 12 not in [true]`); generated chains contain a context variable",
    "inline `x if c` without else (3.x yields a plain Undefined even under StrictUndefined)",
    "the `+` modifier at a tag end (`+%}`, `+#}`): 3.x only — generated comments never end in `+`",
    "dotted filter names (`x|string.split()`): accepted by 3.x, 'no filter named' in 2.x — postfix operands are parenthesised",
    "filters whose behaviour or output format changed upstream and that are not generated: urlize, truncate, wordwrap, xmlattr, tojson, pprint, filesizeformat, groupby, items, random, striptags",
    "string filters on non-string input (wordcount, title … of an int/dict: TypeError in 2.x, coerced in 3.x) — operands are typed and parenthesised",
    "string filters applied to Markup values (escaped strings, block-set variables, macro/caller results under autoescape): center, striptags, title, indent keep or drop Markup-ness differently in 2.x and 3.x; Markup values are only printed or concatenated",
    "{% set x | filter %}…{% endset %} (Markup-ness of the result under autoescape differs between the versions)",
    "[known finding snapshot-bug-loop-length-of-iterator, probed separately] loop.length / loop.revindex / loop.revindex0 inside a filtered loop `for x in xs if c` (off by one in the 2.11.dev snapshot, with or without Nunavut's edits)",
    "{% include %} inside a {% call %} body (caller() then prints a generator object with its address, in both engines)",
    "tests added after 2.10: boolean, false, true, integer, float, filter, test",
    "unknown filters / tests (compile-time error in 2.x, may be a run-time error in a dead branch in 3.x)",
    "{% trans %}, async, required blocks, namespace() attribute assignment, whitespace control inside {% raw %}/{% endraw %} tags",
    "exception messages; exception classes are compared loosely ('both fail' is agreement, the class pair is counted)",
]

TEXT_ALPHA = ["a", "b", "x", " ", " ", "\n", "\n", "\t", "<", "&", "'", '"', "{", "}", "%", "#", "*", "-", ".", ",", "é", "0", "\\"]
STR_ALPHA = ["a", "b", "Z", " ", "\n", "<", "&", "'", "é", "1", "-", "\r\n", "\t", "{{", "%}"]


class Scope:
    def __init__(self, parent=None):
        self.vars = dict(parent.vars) if parent else {}
        self.in_loop = parent.in_loop if parent else False
        self.any_loop = parent.any_loop if parent else False   # inside a for body (also a filtered loop: `loop` exists, length/revindex are avoided)
        self.macros = dict(parent.macros) if parent else {}
        self.caller = parent.caller if parent else False
        self.no_include = parent.no_include if parent else False

    def of(self, ty):
        return [n for n, t in self.vars.items() if t == ty]


class Gen:
    def __init__(self, rng, trim=False, lstrip=False, errors=0.012, wsctl=0.15, line_prefixes=False):
        # environment has a line_statement_prefix / line_comment_prefix: True = ('%%', '##'), or the pair itself
        self.line_prefixes = ("%%", "##") if line_prefixes is True else line_prefixes
        self.r = rng
        self.trim, self.lstrip = trim, lstrip
        self.errors = errors
        self.wsctl = wsctl
        self.counter = 0
        self.features = set()

    # ---------------------------------------------------------------- context
    def rand_str(self, maxlen=6):
        return "".join(self.r.choice(STR_ALPHA) for _ in range(self.r.randint(0, maxlen)))

    def context(self):
        r = self.r
        ctx = {}
        for i in range(3):
            ctx[f"i{i}"] = r.choice([0, 1, 2, 3, 7, -1, -5, 10, 42])
            ctx[f"s{i}"] = self.rand_str()
        ctx["b0"], ctx["b1"] = r.random() < 0.5, r.random() < 0.5
        ctx["li"] = [r.randint(-3, 9) for _ in range(r.choice([0, 1, 2, 3, 5]))]
        ctx["ls"] = [self.rand_str(3) for _ in range(r.choice([0, 1, 2, 4]))]
        ctx["d"] = {k: r.randint(0, 5) for k in r.sample(["k", "a", "zz", "m"], r.randint(0, 4))}
        # a plain dict whose keys are spelled like dict attributes / methods: `dm.items` is the METHOD (getattr prefers the attribute),
        # `dm['items']` the entry (getitem prefers the item); the other keys resolve the same either way
        ctx["dm"] = {k: r.choice([3, "v", ["x"], r.randint(0, 9)]) for k in r.sample(["items", "values", "keys", "get", "update", "copy", "pop", "width", "a"], r.randint(2, 6))}
        ctx["n0"] = None
        ctx["acc"] = []          # only ever appended to through {% do %}; never iterated (no unbounded loops)
        ctx["obj"] = {"a": r.randint(0, 3), "b": self.rand_str(3), "l": [1, 2][: r.randint(0, 2)]}
        for i in range(3):
            ctx[f"p{i}"] = r.randint(0, 3)      # small: chained powers stay cheap whichever way they are grouped
        def tree(depth):
            return [{"v": r.randint(0, 9), "c": tree(depth - 1) if depth > 0 and r.random() < 0.6 else []} for _ in range(r.randint(0, 3))]
        ctx["tree"] = tree(2)
        return ctx

    def root_scope(self):
        s = Scope()
        s.vars.update({"i0": "int", "i1": "int", "i2": "int", "s0": "str", "s1": "str", "s2": "str", "b0": "bool", "b1": "bool",
                       "li": "lint", "ls": "lstr", "d": "dict", "n0": "none"})
        return s

    # ---------------------------------------------------------------- expressions
    @staticmethod
    def P(e):
        """parenthesise unless atomic, so that a postfix (filter, test, subscript, call) applies to the whole operand"""
        import re
        return e if re.fullmatch(r"\w+|\(.*\)|\[[^\[\]]*\]", e) and e.count("(") <= 1 else "(" + e + ")"

    def lit_str(self):
        r = self.r
        body = "".join(r.choice(["a", "b", "X", " ", "-", "1", "<", "&", "\\n", "é", "%", "{", "}}", "\\t"]) for _ in range(r.randint(0, 5)))
        q = r.choice("'\"")
        return q + body + q

    def e_int(self, sc, d):
        r = self.r
        if d <= 0 or r.random() < 0.3:
            names = sc.of("int")
            if names and r.random() < 0.6:
                return r.choice(names)
            return str(r.choice([0, 1, 2, 3, 5, 10, 255]))
        k = r.randint(0, 17)
        a, b = self.e_int(sc, d - 1), self.e_int(sc, d - 1)
        if k == 0: return f"{a} + {b}"
        if k == 1: return f"{a} - {b}"
        if k == 2: return f"({a}) * {b}"
        if k == 3:
            self.features.add("floordiv")
            return f"({a}) // {r.choice(['2', '3', '(' + b + ')'])}"
        if k == 4: return f"({a}) % {r.choice(['2', '7', '(' + b + ')'])}"
        if k == 5: return f"({a}) ** {r.choice(['0', '1', '2', '3'])}"
        if k == 6: return f"-({a})"
        if k == 7: return f"({a} if {self.e_bool(sc, d - 1)} else {b})"
        if k == 8: return f"{self.P(self.e_list(sc, d - 1))}|length"
        if k == 9: return f"{self.P(self.e_str(sc, d - 1))}|length"
        if k == 10: return f"({a})|abs"
        if k == 11: return f"{self.P(self.e_lint(sc, d - 1))}|sum"
        if k == 12: return f"{self.P(self.e_str(sc, d - 1))}|int"
        if k == 13 and sc.in_loop: return r.choice(["loop.index", "loop.index0", "loop.revindex", "loop.revindex0", "loop.length", "loop.depth"])
        if k == 14: return r.choice(["obj.a", "obj['a']", "d|length", "d.get('k', 9)", "d['k']|default(4)" if False else "d.get('zz', 0)"])
        if k == 15: return f"{self.P(self.e_str(sc, d - 1))}|wordcount"
        if k == 16: return f"[{a}, {b}]|{r.choice(['max', 'min', 'first', 'last'])}"
        return f"({a})"

    def e_str(self, sc, d):
        r = self.r
        if d <= 0 or r.random() < 0.3:
            names = sc.of("str")
            if names and r.random() < 0.6:
                return r.choice(names)
            return self.lit_str()
        k = r.randint(0, 21)
        a = self.e_str(sc, d - 1)
        if k == 0: return f"{a} ~ {self.P(self.e_any(sc, d - 1))}"
        if k == 1: return f"({a})|{r.choice(['upper', 'lower', 'trim', 'capitalize', 'title', 'string', 'urlencode', 'reverse'])}"
        if k == 2: return f"({a})|replace({self.lit_str()}, {self.lit_str()})"
        if k == 3: return f"{self.P(self.e_list(sc, d - 1))}|join({self.lit_str()})"
        if k == 4: return f"({self.e_int(sc, d - 1)})|string"
        if k == 5: return f"({a})[{r.choice(['0:2', '1:', ':-1', '::2'])}]"
        if k == 6: return f"({a}) * {r.choice(['0', '1', '2'])}"
        if k == 7: return f"({a} if {self.e_bool(sc, d - 1)} else {self.e_str(sc, d - 1)})"
        if k == 8: return f"n0|default({self.lit_str()}, true)"
        if k == 9: return f"({a})|default({self.lit_str()})"
        if k == 10: return f"'%s=%s'|format({a}, {self.e_any(sc, d - 1)})"
        if k == 11: return f"({a})|{r.choice(['upper', 'lower'])}"
        if k == 12: return r.choice(["obj.b", "obj['b']"])
        if k == 14: return f"{self.P(self.e_lstr(sc, d - 1))}|{r.choice(['first', 'last'])}|default('none')"
        if k == 15: return f"({a})|indent({r.choice(['2', '4, true', '1, false'])})" if "\\n\\n" not in a else a
        if k == 16 and sc.in_loop: return f"loop.cycle({self.lit_str()}, {self.lit_str()})"
        if k == 17: return f"({a})|list|join('.')"
        if k == 19: return f"({a})|{r.choice(['first', 'last'])}|default('')"
        if k == 20: return f"{self.P(a)} + {self.P(self.e_str(sc, d - 1))}"
        return f"({a})"

    def e_bool(self, sc, d):
        r = self.r
        if d <= 0 or r.random() < 0.25:
            names = sc.of("bool")
            if names and r.random() < 0.6:
                return r.choice(names)
            return r.choice(["true", "false", "True", "False"])
        k = r.randint(0, 13)
        if k == 0: return f"{self.e_int(sc, d - 1)} {r.choice(['==', '!=', '<', '<=', '>', '>='])} {self.e_int(sc, d - 1)}"
        if k == 1: return f"{self.e_str(sc, d - 1)} {r.choice(['==', '!=', '<', '>='])} {self.e_str(sc, d - 1)}"
        if k == 2: return f"not {self.e_bool(sc, d - 1)}"
        if k == 3: return f"({self.e_bool(sc, d - 1)} and {self.e_bool(sc, d - 1)})"
        if k == 4: return f"({self.e_bool(sc, d - 1)} or {self.e_bool(sc, d - 1)})"
        if k == 5: return f"{self.e_int(sc, d - 1)} {r.choice(['in', 'not in'])} {self.e_lint(sc, d - 1)}"
        if k == 6: return f"{self.P(self.e_any(sc, d - 1))} is {r.choice(['', 'not '])}{r.choice(['defined', 'none', 'string', 'number', 'sequence', 'mapping', 'iterable', 'callable'])}"
        if k == 7: return f"({self.e_int(sc, d - 1)}) is {r.choice(['even', 'odd', 'divisibleby(3)', 'divisibleby 2'])}"
        if k == 8: return f"{r.choice(['undefined_name', 'i0', 'nope'])} is {r.choice(['defined', 'undefined'])}"
        if k == 9: return f"({self.e_str(sc, d - 1)}) is {r.choice(['lower', 'upper'])}"
        if k == 10: return f"({self.e_int(sc, d - 1)}) is {r.choice(['eq', 'ne', 'lt', 'gt', 'ge', 'le', 'sameas', 'equalto', 'greaterthan', 'lessthan'])}({self.e_int(sc, d - 1)})"
        if k == 11: return f"{self.e_str(sc, d - 1)} in {self.e_str(sc, d - 1)}"
        if k == 12 and sc.in_loop: return r.choice(["loop.first", "loop.last", "loop.previtem is defined", "loop.nextitem is defined"])
        if k == 13: return f"{self.P(self.e_int(sc, d - 1))} is in({self.e_lint(sc, d - 1)})"
        return f"({self.e_bool(sc, d - 1)})"

    def e_lint(self, sc, d):
        r = self.r
        if d <= 0 or r.random() < 0.35:
            names = sc.of("lint")
            if names and r.random() < 0.7:
                return r.choice(names)
            return "[" + ", ".join(str(r.randint(0, 9)) for _ in range(r.randint(0, 4))) + "]"
        k = r.randint(0, 11)
        a = self.e_lint(sc, d - 1)
        if k == 0: return f"range({r.choice(['0', '1', '3', '4'])})|list"
        if k == 1: return f"{self.P(a)}|sort"
        if k == 2: return f"{self.P(a)}|sort(reverse=true)"
        if k == 3: return f"{self.P(a)}|reverse|list"
        if k == 4: return f"{self.P(a)}|{r.choice(['select', 'reject'])}('{r.choice(['odd', 'even'])}')|list"
        if k == 5: return f"{self.P(a)}|map('abs')|list"
        if k == 6: return f"{self.P(a)} + {self.P(self.e_lint(sc, d - 1))}"
        if k == 7: return f"[{self.e_int(sc, d - 1)}, {self.e_int(sc, d - 1)}]"
        if k == 8: return f"{self.P(a)}[{r.choice(['1:', ':2', '::-1'])}]"
        if k == 9: return f"{self.P(a)}|unique|list"
        if k == 10: return f"{self.P(a)}|{r.choice(['select', 'reject'])}('{r.choice(['gt', 'lt', 'eq', 'ne', 'ge'])}', {r.randint(0, 5)})|list"
        if k == 11: return "obj.l"
        return a

    def e_lstr(self, sc, d):
        r = self.r
        if d <= 0 or r.random() < 0.4:
            names = sc.of("lstr")
            if names and r.random() < 0.7:
                return r.choice(names)
            return "[" + ", ".join(self.lit_str() for _ in range(r.randint(0, 3))) + "]"
        k = r.randint(0, 7)
        a = self.e_lstr(sc, d - 1)
        if k == 0: return f"{self.P(a)}|map('{r.choice(['upper', 'lower', 'trim', 'string', 'length'])}')|map('string')|list"
        if k == 1: return f"{self.P(a)}|sort"
        if k == 2: return f"{self.e_lint(sc, d - 1)}|map('string')|list"
        if k == 3: return f"{self.e_str(sc, d - 1)}|list"
        if k == 4: return f"d|dictsort|map('first')|list"
        if k == 5: return f"d.keys()|sort"
        if k == 6: return f"({self.e_str(sc, d - 1)}).split({r.choice(['', repr('a'), repr(' ')])})"
        if k == 7: return f"{self.P(a)}|reject('eq', 'a')|list"
        return a

    def e_list(self, sc, d):
        return self.e_lint(sc, d) if self.r.random() < 0.5 else self.e_lstr(sc, d)

    def e_out(self, sc, d):
        """an expression for an output position `{{ … }}`: anything, plus the values that are Markup under autoescape
        (escaped strings, block-set variables, macro results) — these are printed, never filtered further, because the
        two upstream versions disagree on which string filters keep a value Markup"""
        r = self.r
        k = r.randint(0, 11)
        if k == 0: return f"({self.e_str(sc, d)})|{r.choice(['e', 'escape', 'safe', 'forceescape'])}"
        if k == 1 and sc.of("markup"): return r.choice(sc.of("markup"))
        if k == 2 and sc.macros: return self.macro_call(sc, d)
        if k == 3 and sc.of("markup"): return f"{r.choice(sc.of('markup'))} ~ {self.P(self.e_str(sc, d))}"
        return self.e_any(sc, d)

    def e_any(self, sc, d):
        k = self.r.randint(0, 9)
        if k <= 2: return self.e_int(sc, d)
        if k <= 5: return self.e_str(sc, d)
        if k == 6: return self.e_bool(sc, d)
        if k == 7: return self.e_list(sc, d)
        if k == 8: return self.r.choice(["n0", "none", "d", "d|dictsort", "obj.l", "(1, 'a')", "{'a': 1}", "1.5", "2.0 * 3", "7 / 2", "i0 / 4", "1.25|round(1)", "(i0)|float"])
        return self.e_str(sc, d)

    # ---- operator soup: every operator, chained at the same precedence level WITHOUT parentheses -------------------
    def s_atom(self, sc, d):
        r = self.r
        k = r.randint(0, 15)
        if k <= 3: return str(r.randint(0, 4))
        if k <= 5: return r.choice(["p0", "p1", "p2"])
        if k == 6: return r.choice(sc.of("int") or ["p0"])
        if k == 7: return r.choice(["obj.a", "obj['a']", "d.get('k', 2)", "li|length", "[1, 2, 3][p0 % 3]", "(4, 5)[1]", "{'a': 2}['a']", "{'a': 2, 'b': 3}.b",
                                    "range(p0, 4)|list|last", "'abc'|length", "dict(a=1, b=2).b", "[p0, p1]|max", "(p0, p1, p2)|sum", "[[1, 2], [3]][0][1]"])
        if k == 8: return self.s_atom(sc, d) + "|" + r.choice(["abs", "int", "string|length", "default(3)", "round|int", "float|int"])
        if k == 9 and d > 0: return "(" + self.s_arith(sc, d - 1) + ")"
        if k == 10: return r.choice(["-", "+", "- ", "-"]) + r.choice(["1", "2", "3", "p0", "p1", "p2", "(p0 + 1)", "-1", "obj.a"])
        if k == 11 and d > 0: return "[" + self.s_arith(sc, d - 1) + ", " + self.s_atom(sc, 0) + "][" + r.choice(["0", "1", "-1"]) + "]"
        if k == 12: return r.choice(["li[0:2]|length", "s0[::2]|length", "s0[1:-1:2]|length", "li[-1:]|length", "ls[:p0]|length", "range(9)[p0:p1 + 3]|list|length", "s1[p0:]|length"])
        if k == 13 and sc.in_loop: return r.choice(["loop.index", "loop.index0", "loop.depth0"])
        if k == 14: return "1.5" if r.random() < 0.3 else "2.0"
        return str(r.randint(1, 3))

    def s_pow(self, sc, d):
        r = self.r
        n = r.choice([1, 1, 1, 2, 2, 3])
        parts = [self.s_atom(sc, d)] + [r.choice(["0", "1", "2", "3", "p0", "p1", "p2", "2", "1", "3", "p1", "p2", "-1" if r.random() < 0.2 else "2", "0.5" if r.random() < 0.3 else "1"]) for _ in range(n - 1)]
        if n > 1:
            self.features.add("chained-pow" if n > 2 else "pow")
        return " ** ".join(parts) if r.random() < 0.7 else "**".join(parts)

    def s_mul(self, sc, d):
        r = self.r
        e = self.s_pow(sc, d)
        for _ in range(r.choice([0, 0, 1, 1, 2, 3])):
            op = r.choice(["*", "/", "//", "%"])
            rhs = self.s_pow(sc, d) if op == "*" else r.choice(["1", "2", "3", "4", "2.0", "(p0 + 1)", "(" + self.s_pow(sc, 0) + " + 5)"])
            e += f" {op} {rhs}"
        return e

    def s_arith(self, sc, d):
        r = self.r
        e = self.s_mul(sc, d)
        for _ in range(r.choice([0, 1, 1, 2, 3])):
            e += r.choice([" + ", " - ", " - ", "-", "+"]) + self.s_mul(sc, d)
        return e

    def s_concat(self, sc, d):
        r = self.r
        e = self.s_arith(sc, d)
        for _ in range(r.choice([0, 0, 1, 2])):
            e += " ~ " + r.choice([self.s_arith(sc, d), self.lit_str(), r.choice(sc.of("str") or ["s0"])])
        return e

    def s_cmp(self, sc, d):
        r = self.r
        k = r.randint(0, 9)
        a = self.s_arith(sc, d)
        if k <= 3:
            nops = r.choice([1, 1, 2, 3])
            # a chain of two or more comparisons gets a context variable: a chain over constants only is folded at compile
            # time, and the 2.11.dev snapshot folds it to its LAST comparison (EXCLUDED)
            e = a if nops == 1 else r.choice(["p0", "p1", "p2"]) + r.choice([" + ", " * "]) + a
            for _ in range(nops):
                e += " " + r.choice(["==", "!=", "<", "<=", ">", ">="]) + " " + self.s_arith(sc, d)
            if e.count("<") + e.count(">") + e.count("=") > 1:
                self.features.add("comparison-chain")
            return e
        if k == 4: return a + r.choice([" in ", " not in "]) + r.choice(["li", "[1, 2, 3]", "(0, 4)", "range(3)", "d.values()|list", "[p0, p1]"])
        if k == 5: return a + " is " + r.choice(["", "not "]) + r.choice(["odd", "even", "divisibleby 2", "divisibleby(3)", "number", "string", "defined", "none", "sameas p0", "eq p1", "ne(2)", "lt 3", "ge(p2)", "in [1, 2]", "in(li)"])
        if k == 6: return self.s_concat(sc, d) + r.choice([" == ", " != ", " in "]) + self.s_concat(sc, d)
        if k == 7: return r.choice(sc.of("bool") or ["b0"])
        if k == 8: return r.choice(["p0", "p1"]) + " + " + a + " < " + self.s_arith(sc, d) + r.choice([" in ", " not in "]) + "[true, false]"
        return a

    def s_bool(self, sc, d):
        r = self.r
        e = r.choice(["", "", "not ", "not not "]) + self.s_cmp(sc, d)
        for _ in range(r.choice([0, 0, 1, 2, 3])):
            e += r.choice([" and ", " or "]) + r.choice(["", "", "not "]) + self.s_cmp(sc, d)
        if " and " in e and " or " in e:
            self.features.add("and-or-mix")
        return e

    def s_expr(self, sc, d):
        """a full expression: conditional-expression chains over the boolean / arithmetic / concat levels, tuples, lists, dicts"""
        r = self.r
        self.features.add("operator-soup")
        k = r.randint(0, 11)
        if k <= 2: return self.s_arith(sc, d)
        if k == 3: return self.s_concat(sc, d)
        if k <= 5: return self.s_bool(sc, d)
        if k == 6: return f"{self.s_arith(sc, d)} if {self.s_bool(sc, d)} else {self.s_concat(sc, d)}"
        if k == 7:
            self.features.add("condexpr-chain")
            return f"{self.s_arith(sc, d)} if {self.s_bool(sc, d)} else {self.s_arith(sc, d)} if {self.s_bool(sc, d)} else {self.s_arith(sc, d)}"
        if k == 8: return "(" + self.s_arith(sc, d) + ", " + self.s_bool(sc, d) + r.choice(["", ","]) + ")"
        if k == 9: return "[" + self.s_arith(sc, d) + ", " + self.s_concat(sc, d) + ", " + self.s_bool(sc, d) + "]"
        if k == 10: return "{'x': " + self.s_arith(sc, d) + ", 'y': " + self.s_bool(sc, d) + "}|dictsort"
        return self.s_arith(sc, d) + ", " + self.s_arith(sc, d)     # bare tuple

    def e_err(self, sc):
        """an expression that fails at run time in both engines"""
        return self.r.choice(["undefined_name", "i0 // 0", "nope.attr", "li[99]", "s0 + i0", "obj.zz.q", "1 % 0", "n0.x", "d['missing']", "(1, 2)|sum('x')", "missing_fn()", "i0()"])

    def macro_call(self, sc, d):
        name, (nargs, has_default) = self.r.choice(sorted(sc.macros.items()))
        args = [self.e_any(sc, d) for _ in range(nargs)]
        if has_default and self.r.random() < 0.5:
            args.append("k=" + self.e_int(sc, 0))
        return f"{name}({', '.join(args)})"

    # ---------------------------------------------------------------- statements
    def text(self, maxlen=12):
        r = self.r
        t = "".join(r.choice(TEXT_ALPHA) for _ in range(r.randint(0, maxlen)))
        # never produce a begin sequence by accident (that is the lexer stream's job), nor a marker
        for bad in ("{{", "{%", "{#"):
            while bad in t:
                t = t.replace(bad, "{ ")
        if t.endswith("{"):
            t += " "
        return t

    def tag(self, inner, line=False):
        """`{% inner %}` with random whitespace control."""
        r = self.r
        l = "-" if r.random() < self.wsctl else ""
        rr = "-" if r.random() < self.wsctl else ""
        pad = r.choice([" ", " ", "", "  "]) if not (l or rr) else " "
        return "{%" + l + pad + inner + pad + rr + "%}"

    def var(self, expr):
        r = self.r
        l = "-" if r.random() < self.wsctl else ""
        rr = "-" if r.random() < self.wsctl else ""
        pad = r.choice([" ", " ", ""]) if not (l or rr) else " "
        if expr.lstrip().startswith(("-", "*", "+", "{")) or expr.rstrip().endswith(("-", "}")):
            pad = " "
        return "{{" + l + pad + expr + pad + rr + "}}"

    def fresh(self, p):
        self.counter += 1
        return f"{p}{self.counter}"

    def body(self, sc, depth, n=None):
        r = self.r
        n = r.randint(1, 4) if n is None else n
        b = "".join(self.stmt(sc, depth) for _ in range(n))
        # runs of blank lines at the start / end of a block body
        if r.random() < 0.12:
            self.features.add("blank-lines-at-block-start")
            b = "\n" * r.randint(1, 3) + b
        if r.random() < 0.12:
            self.features.add("blank-lines-at-block-end")
            b = b + r.choice(["\n", "\n", " \n", "\n\t"]) * r.randint(1, 3)
        return b

    def ending(self):
        """0..3 final line breaks of one style (or mixed)"""
        r = self.r
        k = r.choice([0, 0, 1, 1, 2, 3])
        if k:
            self.features.add(f"ends-in-{k}-line-breaks")
        if r.random() < 0.15:
            return "".join(r.choice(["\n", "\r\n", "\r"]) for _ in range(k))
        return r.choice(["\n", "\n", "\r\n", "\r"]) * k

    def line_tag(self, s):
        """under lstrip_blocks / trim_blocks put block tags on their own line (the common, version-independent use)"""
        return s

    def stmt(self, sc, depth):
        r = self.r
        k = r.randint(0, 35) if depth > 0 else r.randint(0, 7)
        f = self.features.add
        if self.line_prefixes and r.random() < 0.12:
            f("line-statement")
            j = r.randint(0, 3)
            lsp, lcp = self.line_prefixes
            if j == 0: return "\n" + lsp + " if " + self.e_bool(sc, 1) + "\n" + self.text(6) + "\n" + lsp + " endif\n"
            if j == 1: return "\n  " + lsp + " for lv in range(2)\n" + self.text(4) + "{{ lv }}\n" + lsp + " endfor\n"
            if j == 2: return "\n" + lcp + " a line comment " + self.text(4).replace("\n", " ") + "\n"
            return self.text(4).replace("\n", " ") + " " + lcp + " trailing comment\n"
        if k <= 2:
            return self.text()
        if k <= 6:
            f("var")
            if r.random() < self.errors:
                f("runtime-error")
                return self.var(self.e_err(sc))
            if r.random() < 0.35:
                return self.var(self.s_expr(sc, r.choice([0, 0, 1])))
            return self.var(self.e_out(sc, r.randint(0, 3)))
        if k == 7:
            f("comment")
            c = self.text(8).replace("#}", "# }").strip("*+-")   # no marker; `+#}` is a 3.x-only sign
            return "{#" + r.choice(["", " ", "-"]) + c + r.choice(["", " ", " -"]) + "#}"
        if k <= 10:
            f("if")
            s = self.tag("if " + (self.s_bool(sc, 1) if r.random() < 0.3 else self.e_bool(sc, 2))) + self.body(Scope(sc), depth - 1)
            for _ in range(r.choice([0, 0, 1, 2])):
                f("elif")
                s += self.tag("elif " + self.e_bool(sc, 2)) + self.body(Scope(sc), depth - 1)
            if r.random() < 0.5:
                s += self.tag("else") + self.body(Scope(sc), depth - 1)
            return s + self.tag("endif")
        if k <= 13:
            f("for")
            inner = Scope(sc)
            inner.in_loop = True
            inner.any_loop = True
            v = self.fresh("v")
            kind = r.randint(0, 4)
            if kind == 0:
                it, inner.vars[v] = self.e_lint(sc, 2), "int"; head = f"for {v} in {it}"
            elif kind == 1:
                it, inner.vars[v] = self.e_lstr(sc, 2), "str"; head = f"for {v} in {it}"
            elif kind == 2:
                w = self.fresh("w"); inner.vars[v] = "str"; inner.vars[w] = "int"
                head = f"for {v}, {w} in {r.choice(['d|dictsort', 'd.items()|sort', 'd|dictsort(reverse=true)'])}"
            elif kind == 3:
                inner.vars[v] = "int"; head = f"for {v} in range({self.e_int(sc, 1)} % 5)"
            else:
                inner.vars[v] = "str"; head = f"for {v} in {self.e_str(sc, 1)}"
            if r.random() < 0.25 and kind != 2:
                f("for-filter")
                inner.in_loop = False    # loop.length / loop.revindex of a filtered loop are off by one in the 2.11.dev snapshot (EXCLUDED)
                cond = (f"{v} is odd" if inner.vars[v] == "int" else f"{v} != 'a'")
                head += " if " + cond
            b = self.body(inner, depth - 1)
            if r.random() < 0.2:
                f("loopcontrols")
                b += self.tag("if " + self.e_bool(inner, 1)) + self.tag(r.choice(["break", "continue"])) + self.tag("endif") + self.text(4)
            s = self.tag(head) + b
            if r.random() < 0.3:
                f("for-else")
                s += self.tag("else") + self.body(Scope(sc), depth - 1, 1)
            return s + self.tag("endfor")
        if k == 14:
            f("set")
            v = self.fresh("g")
            ty = r.choice(["int", "str", "bool", "lint"])
            e = {"int": self.e_int, "str": self.e_str, "bool": self.e_bool, "lint": self.e_lint}[ty](sc, 2)
            sc.vars[v] = ty
            return self.tag(f"set {v} = {e}")
        if k == 15:
            f("set-block")
            v = self.fresh("g")
            flt = ""   # a filtered set block under autoescape differs between the upstream versions (EXCLUDED)
            s = self.tag(f"set {v}{flt}") + self.body(Scope(sc), depth - 1, 2) + self.tag("endset")
            sc.vars[v] = "markup"
            return s
        if k == 16:
            f("macro")
            m = self.fresh("m")
            nargs = r.randint(0, 2)
            has_default = r.random() < 0.5
            inner = Scope()
            inner.macros = dict(sc.macros)
            params = []
            for i in range(nargs):
                p = f"p{i}"; params.append(p); inner.vars[p] = "any"
            if has_default:
                params.append("k=3"); inner.vars["k"] = "int"
            b = "".join(r.choice([self.text(5), self.var(r.choice([p.split('=')[0] for p in params] or ["'m'"])), self.var(self.e_int(inner, 1))]) for _ in range(r.randint(1, 3)))
            sc.macros[m] = (nargs, has_default)
            return self.tag(f"macro {m}({', '.join(params)})") + b + self.tag("endmacro")
        if k == 17 and sc.macros:
            f("macro-call")
            return self.var(self.macro_call(sc, 1))
        if k == 18:
            f("call-block")
            m = self.fresh("m")
            inner = Scope(); inner.caller = True
            d = self.tag(f"macro {m}(t)") + self.text(4) + self.var("caller()") + self.var("t") + self.tag("endmacro")
            bsc = Scope(sc)
            bsc.no_include = True   # an include inside a call body makes caller() print a generator object (with its address) in both engines
            return d + self.tag(f"call {m}({self.e_any(sc, 1)})") + self.body(bsc, depth - 1, 2) + self.tag("endcall")
        if k == 19:
            f("filter-block")
            flt = r.choice(["upper", "lower", "trim", "replace('a', 'b')", "escape", "upper|trim"])
            return self.tag(f"filter {flt}") + self.body(Scope(sc), depth - 1, 2) + self.tag("endfilter")
        if k == 20:
            f("with")
            inner = Scope(sc); v = self.fresh("w"); inner.vars[v] = "int"
            return self.tag(f"with {v} = {self.e_int(sc, 2)}") + self.body(inner, depth - 1, 2) + self.tag("endwith")
        if k == 21:
            f("raw")
            t = "".join(r.choice(["a", " ", "{{", "}}", "{%", "%}", "x", "\n", "{#", "*", "-"]) for _ in range(r.randint(0, 8)))
            t = t.replace("endraw", "")
            return "{% raw %}" + t + "{% endraw %}"
        if k == 22 and not sc.no_include:
            f("include")
            if r.random() < self.errors:
                f("missing-template")
                return self.tag("include 'does_not_exist'")
            if r.random() < 0.15:
                return self.tag("include 'does_not_exist' ignore missing")
            return self.tag("include " + r.choice(["'inc1'", "'inc2.html'", "['nope', 'inc1']", "'inc1' with context", "'inc1' without context"]))
        if k == 23:
            f("import")
            if r.random() < 0.5:
                a = self.fresh("lib")
                return self.tag(f"import 'lib' as {a}") + self.var(f"{a}.twice({self.e_int(sc, 1)})") + self.var(f"{a}.LIBCONST")
            return self.tag("from 'lib' import twice, wrap as wr") + self.var(f"wr({self.e_str(sc, 1)})")
        if k == 24:
            f("autoescape")
            return self.tag("autoescape " + r.choice(["true", "false"])) + self.body(Scope(sc), depth - 1, 2) + self.tag("endautoescape")
        if k == 25:
            f("do")
            return self.tag(r.choice(["do acc.append(i0)", "do acc.append(s0)", "do acc.extend([1, 2])"])) + (self.var("acc|length") if r.random() < 0.5 else "")
        if k == 30 and r.random() < self.errors * 8:
            f("syntax-error")
            return r.choice(["{% if %}", "{{ 1 + }}", "{% endfor %}", "{% for x %}", "{{ 'a }}", "{% unknown_tag %}", "{{ (1 }}", "{% set = 1 %}", "{{ a b }}", "{% if x %}", "{{ 1 | }}", "{% else %}"])
        if k in (26, 31):
            return self.shadow_stmt(sc, depth)
        if k == 29 and depth > 0:
            j = r.randint(0, 3)
            if j == 0:
                f("macro-varargs")
                m = self.fresh("mv")
                return (self.tag(f"macro {m}(a, b=2)") + "{{ a }}:{{ b }}:{{ varargs }}:{{ kwargs|dictsort }}" + self.text(3) + self.tag("endmacro")
                        + self.var(r.choice([f"{m}(1)", f"{m}(1, 2, 3, 4)", f"{m}(p0, x=1, y=p1)", f"{m}(1, b=i0)", f"{m}(*[1, 2, 3])", f"{m}(**{{'a': 5, 'q': 6}})",
                                             f"{m}.name ~ {m}.arguments|join(',')", f"{m}(1, 2, 3, k=4)|trim|length"])))
            if j == 1:
                f("caller-args")
                m = self.fresh("mc")
                bsc = Scope(sc); bsc.no_include = True; bsc.vars["u"] = "int"
                return (self.tag(f"macro {m}(n)") + "{% for q in range(n) %}" + self.var("caller(q, q * 2)") + "{% endfor %}" + self.tag("endmacro")
                        + self.tag(f"call(u, w=0) {m}(p0)") + "{{ u }}-{{ w }}" + self.body(bsc, depth - 1, 1) + self.tag("endcall"))
            if j == 2:
                f("recursive-loop")
                return (self.tag("for n in tree recursive") + "{{ n.v }}{{ loop.depth }}" + self.tag("if n.c") + "(" + self.var("loop(n.c)") + ")" + self.tag("endif")
                        + self.tag("else") + "empty" + self.tag("endfor"))
            f("nested-loops")
            return (self.tag("for a in li") + self.tag("for b in [1, 2]") + "{{ loop.index }}{{ a + b }}" + self.tag("if b > p0") + self.tag("break") + self.tag("endif")
                    + self.tag("endfor") + "{{ loop.index0 }}{{ loop.last }}" + self.tag("endfor"))
        if k == 32:
            # a macro DEFINED here that reads names of the scope it is defined in — the loop object of the enclosing for,
            # loop / with / set variables — and is called right away.  Whether the enclosing body mentions `loop` outside the
            # macro is left to the other statements of that body.
            f("macro-reads-enclosing-scope")
            m = self.fresh("me")
            parts = [self.text(4)]
            if sc.any_loop:
                f("macro-uses-enclosing-loop")
                refs = ["loop.index", "loop.index0", "loop.first", "loop.last", "loop.cycle('x', 'y')", "loop.depth"]
                if sc.in_loop:
                    refs += ["loop.length", "loop.revindex"]
                parts += [self.var(r.choice(refs)) for _ in range(r.randint(1, 2))]
            names = [n for n, t in sc.vars.items() if t in ("int", "str", "bool")]
            if names:
                parts.append(self.var(r.choice(names)))
            if r.random() < 0.3:
                parts.append(self.tag("if q") + self.var("q") + self.tag("endif"))
            r.shuffle(parts)
            s = self.tag(f"macro {m}(q=0)") + "".join(parts) + self.tag("endmacro")
            s += "".join(self.var(r.choice([f"{m}()", f"{m}(2)", f"{m}()|upper", f"{m}(q=i0)"])) for _ in range(r.randint(1, 2)))
            if r.random() < 0.25:
                f("macro-nested-in-macro")
                n = self.fresh("mo")
                s = (self.tag(f"macro {n}(a)") + self.tag(f"macro {n}i()") + "{{ varargs|length }}{{ kwargs|dictsort }}" + self.tag("endmacro")
                     + self.var(f"{n}i(1, 2, z=3)") + "{{ a }}" + self.tag("endmacro") + self.var(f"{n}(5)")) + s
            return s
        if k == 33:
            # a block, and a macro whose only use of `self` is inside the macro
            f("macro-uses-self")
            b, m = self.fresh("sb"), self.fresh("ms")
            s = self.tag(f"block {b}") + self.text(5) + self.tag("endblock")
            s += self.tag(f"macro {m}()") + "<" + self.var(f"self.{b}()") + ">" + self.tag("endmacro") + self.var(f"{m}()")
            if r.random() < 0.3:
                s += self.var(f"self.{b}()")
            return s
        if k in (34, 35):
            # a block INSIDE a construct that buffers its body: its output must go through the buffer (filter, capture, macro
            # result, caller(), recursive loop), not straight to the output
            f("block-in-buffering-construct")
            b = self.fresh("bb")
            bsc = self.root_scope(); bsc.no_include = True
            blk = self.tag(f"block {b}" + r.choice(["", "", " scoped"])) + self.body(bsc, 1, r.randint(1, 2)) + self.tag("endblock" + r.choice(["", " " + b]))
            inner = self.text(3) + blk + self.text(3)
            j = r.randint(0, 5)
            if j == 0:
                f("block-in-filter")
                return self.tag("filter " + r.choice(["upper", "lower", "replace('a', 'b')", "upper|trim"])) + inner + self.tag("endfilter")
            if j == 1:
                f("block-in-set")
                g = self.fresh("g")
                sc.vars[g] = "markup"
                return self.tag(f"set {g}") + "[" + inner + "]" + self.tag("endset") + self.var(g) + self.var(g + "|upper")
            if j == 2:
                f("block-in-macro")
                m = self.fresh("mb")
                return self.tag(f"macro {m}()") + "(" + inner + ")" + self.tag("endmacro") + self.var(f"{m}()") + self.var(f"{m}()|lower")
            if j == 3:
                f("block-in-call")
                m = self.fresh("mw")
                return (self.tag(f"macro {m}()") + "<" + self.var(r.choice(["caller()", "caller()|upper"])) + ">" + self.tag("endmacro")
                        + self.tag(f"call {m}()") + inner + self.tag("endcall"))
            if j == 4:
                f("block-in-recursive-loop")
                return (self.tag("for n in tree recursive") + "{{ n.v }}" + self.tag(f"block {b} scoped") + self.text(3) + "{{ n.v }}" + self.tag("endblock")
                        + self.tag("if n.c") + "(" + self.var("loop(n.c)") + ")" + self.tag("endif") + self.tag("endfor"))
            f("block-in-nested-buffers")
            g = self.fresh("g")
            sc.vars[g] = "markup"
            return (self.tag(f"set {g}") + self.tag("filter upper") + inner + self.tag("endfilter") + self.tag("endset") + self.var(g))
        if k == 27:
            f("cond-expr")
            return self.var(f"{self.e_any(sc, 1)} if {self.e_bool(sc, 2)} else {self.e_any(sc, 1)}")
        if k == 28 and r.random() < 0.5:
            # attribute vs item resolution (Environment.getattr / getitem) on dicts whose keys collide with dict methods,
            # on lists, strings and nested data
            f("attr-vs-item")
            key = r.choice(["items", "values", "keys", "get", "update", "copy", "pop", "width", "a", "nope"])
            return self.var(r.choice([
                f"dm.{key} is callable", f"dm['{key}'] is defined", f"dm['{key}']|default('none')|string", f"dm.{key} is defined",
                "dm.items()|map('first')|sort|join(',')", "dm.keys()|sort|join(',')", "dm.values()|map('string')|sort|join(',')", f"dm.get('{key}', 'dflt')|string",
                "dm|dictsort|map('first')|join(',')", "dm|length", f"'{key}' in dm", "dm.copy()|length", f"(dm.{key}|string)[:9] if dm.{key} is not callable else 'method'",
                "{'items': 1, 'a': 2}.items()|list|length", "{'values': 5}['values']", "{'keys': 5}.keys is callable", "{'a': {'items': 7}}.a['items']",
                "li.0 is defined", "li[0] is defined", "s0.upper()|length", "obj.l.0|default('e')", "obj['l']|length", "d.items()|sort|first|default(('z', 0))|first"]))
        if k == 28:
            f("nested-data")
            return self.var(r.choice(["obj.l|join(',')", "obj|dictsort", "d|dictsort", "li", "ls", "d.items()|list|sort", "{'x': [1, 2]}.x[1]", "[1, [2, 3]][1][0]", "(1, 2)", "li|batch(2)|list", "li|slice(2)|list",
                                      "li|map('string')|join('+')", "ls|join('|')|upper", "n0", "none", "li|first|default('empty')", "1.5 + i0", "i0 / 2", "10 // 4 * 2.0", "s0|list|length", "s0|e", "s0|safe|e", "s0|center(9)"]))
        return self.text()

    def reader(self):
        """pull in a template that READS context names (reader / readmac), in one of the ways a template can"""
        r = self.r
        j = r.randint(0, 7)
        rare = r.random() < 0.06
        if j <= 2: return self.tag("include 'reader'" + (" without context" if rare else r.choice(["", "", " with context"])))
        if j == 3: return self.tag("import 'readmac' as rm" + (r.choice(["", " without context"]) if rare else " with context")) + self.var("rm.show()" if not rare else "rm.plain(1)")
        if j == 4: return self.tag("from 'readmac' import show, plain" + ("" if rare else " with context")) + self.var("show()" if not rare else "plain(2)")
        if j == 5: return self.tag("include ['nope', 'reader']")
        if j == 6: return self.var("i0 ~ '/' ~ s0")
        return self.tag("include 'reader' ignore missing")

    def shadow_stmt(self, sc, depth):
        """assign a name that the render context ALSO supplies, with readers before and after the assignment,
        at top level or inside a for / with / if / block-set body"""
        r = self.r
        self.features.add("shadow-context-name")
        name, expr = r.choice([("i0", self.e_int(sc, 1)), ("s0", self.e_str(sc, 1)), ("b0", self.e_bool(sc, 1)), ("i0", str(r.randint(100, 999))), ("s0", "'local'")])
        how = r.randint(0, 5)
        before = self.reader() if r.random() < 0.7 else ""
        after = self.reader() if r.random() < 0.7 else ""
        if sc.no_include:
            before = after = self.var("i0 ~ s0")
        if how <= 1:
            core = before + self.tag(f"set {name} = {expr}") + after
        elif how == 2:
            core = before + self.tag(f"with {name} = {expr}") + self.reader() + self.tag("endwith") + after
        elif how == 3 and name == "i0":
            core = before + self.tag("for i0 in [7, 8]") + self.reader() + self.tag("endfor") + after
        elif how == 4:
            core = before + self.tag("if b1") + self.tag(f"set {name} = {expr}") + self.tag("endif") + after
        else:
            core = before + self.tag(f"set {name} = {expr}") + self.tag(f"set {name} = {name}") + after
        wrap = r.randint(0, 4) if depth > 0 else 0
        if wrap == 1:
            return self.tag("for z in [1, 2]") + core + self.tag("endfor")
        if wrap == 2:
            return self.tag("with") + core + self.tag("endwith")
        if wrap == 3:
            return self.tag("if true") + core + self.tag("endif") + self.var(name)
        return core

    def extends_family(self, tpl, main_name):
        """base (nested + scoped blocks) / mid / child with output before and after the extends tag and in-place blocks"""
        r = self.r
        f = self.features.add
        f("extends")
        rs = self.root_scope
        base = self.text(5) + self.tag("block outer") + self.text(3) + self.tag("block inner") + self.body(rs(), 1, 1) + self.tag("endblock inner") + self.text(3) + self.tag("endblock")
        base += self.tag("for x in [1, 2]") + self.tag("block item scoped") + "{{ x }}" + self.tag("endblock") + self.tag("endfor")
        base += self.tag("block tail") + self.body(rs(), 1, 1) + self.tag("endblock") + self.text(4)
        if r.random() < 0.3:
            base += self.var(r.choice(["self.inner()", "self.tail()"]))
        if r.random() < 0.3:
            f("macro-uses-self")
            base += self.tag("macro selfmac()") + "<" + self.var(r.choice(["self.inner()", "self.tail()"])) + ">" + self.tag("endmacro") + self.var("selfmac()")
        has_buf = r.random() < 0.5
        if has_buf:
            # a block inside a buffering construct of the BASE template, overridden (or not) by the child
            f("block-in-buffering-construct")
            blk = self.text(3) + self.tag("block buf") + self.text(4) + self.tag("endblock") + self.text(3)
            j = r.randint(0, 4)
            if j == 0:
                f("block-in-filter"); base += self.tag("filter upper") + blk + self.tag("endfilter")
            elif j == 1:
                f("block-in-set"); base += self.tag("set bufv") + "[" + blk + "]" + self.tag("endset") + "{{ bufv }}{{ bufv|upper }}"
            elif j == 2:
                f("block-in-macro"); base += self.tag("macro bufm()") + "(" + blk + ")" + self.tag("endmacro") + "{{ bufm() }}{{ bufm()|upper }}"
            elif j == 3:
                f("block-in-call"); base += self.tag("macro bufw()") + "<{{ caller()|upper }}>" + self.tag("endmacro") + self.tag("call bufw()") + blk + self.tag("endcall")
            else:
                f("block-in-recursive-loop")
                base += (self.tag("for n in tree recursive") + "{{ n.v }}" + self.tag("block buf scoped") + "." + self.tag("endblock")
                         + self.tag("if n.c") + "(" + self.var("loop(n.c)") + ")" + self.tag("endif") + self.tag("endfor"))
        tpl["base"] = base
        parent = "base"
        if r.random() < 0.35:
            f("three-level-inheritance")
            tpl["mid"] = self.tag("extends 'base'") + self.tag("block inner") + "mid[" + self.var("super()") + "]" + self.tag("endblock") + self.tag("block tail") + "midtail" + self.tag("endblock")
            parent = "mid"
        child = ""
        if r.random() < 0.5:
            f("output-before-extends")
            child += "".join(r.choice([self.text(6), self.var(self.e_out(rs(), 1)), self.tag("set early = 1"),
                                       self.tag("block early" + str(self.fresh(""))) + "inplace" + self.tag("endblock")]) for _ in range(r.randint(1, 3)))
            if r.random() < 0.4:
                child += self.tag("block tail") + "tail-in-place" + self.tag("endblock")
        ext = r.randint(0, 9)
        if ext == 0:
            f("conditional-extends")
            child += self.tag("if b0") + self.tag(f"extends '{parent}'") + self.tag("endif")
        elif ext == 1:
            child += self.tag(f"extends parent_name")
        else:
            child += self.tag(f"extends '{parent}'")
        child += self.text(4)
        used = {"tail"} if "block tail" in child else set()
        names = ["outer", "inner", "item", "tail"] + (["buf"] if has_buf else [])
        for b in r.sample(names, r.randint(0, len(names))):
            if b in used:
                continue
            used.add(b)
            inner = self.body(rs(), 2, r.randint(1, 2)) if b not in ("item", "buf") else "<{{ x }}>" if b == "item" else self.text(4)
            if b == "buf" and "block buf scoped" in base:
                inner = ":{{ n.v }}"
            if r.random() < 0.5:
                if r.random() < 0.35:
                    # `super()` used ONLY by a macro defined in the overriding block
                    f("macro-uses-super")
                    sm = "sup" + str(self.fresh(""))
                    inner += self.tag(f"macro {sm}()") + self.var("super()") + self.tag("endmacro") + self.var(f"{sm}()") * r.randint(1, 2)
                else:
                    inner += self.var("super()")
            if b == "outer" and "inner" not in used and r.random() < 0.5:
                f("nested-block-override")
                inner += self.tag("block inner") + "nested" + self.var("super()") * r.randint(0, 1) + self.tag("endblock")
                used.add("inner")
            child += self.tag(f"block {b}" + (" scoped" if b == "item" or (b == "buf" and "block buf scoped" in base) else "")) + inner + self.tag("endblock" + r.choice(["", " " + b])) + self.text(3)
        if r.random() < 0.3:
            f("output-after-blocks")
            child += self.var(self.e_out(rs(), 1)) + self.text(3)
        tpl[main_name] = child

    def private_names(self, tpl, main_name, ctx):
        """`_`-prefixed and dunder-like identifiers assigned at template level (plain, tuple and block form) and read inside
        blocks (same template / child), macros, includes and plain expressions; sometimes the context supplies them too"""
        r = self.r
        self.features.add("private-names")
        names = r.sample(["_p", "__d__", "_x1", "_", "__q", "_T"], 3)
        a, b, c = names
        sets = self.tag(f"set {a} = {r.choice(['7', repr('priv'), 'i0', '[1, 2]'])}") + self.tag(f"set {b}, {c} = {r.choice(['1, 2', '(s0, i1)', '[3, 4]'])}")
        if r.random() < 0.5:
            sets += self.tag("set _blk") + "B" + self.var(a) + self.tag("endset")
            names = names + ["_blk"]
        if r.random() < 0.4:
            ctx[a] = "from-context"
            self.features.add("private-name-also-in-context")
        reads = "".join(self.var(n) for n in names)
        tpl["privreader"] = "[" + "".join("{{ %s }}" % n for n in names[:3]) + "]"
        src = tpl[main_name]
        if "extends" in src.split("%}")[0] and "if b0" not in src.split("%}")[0]:
            # child template: assignments after the extends tag, reads inside an overriding block
            head, _, rest = src.partition("%}")
            blk = "tail" if "block tail" not in rest else "inner" if "block inner" not in rest else None
            extra = (self.tag(f"block {blk}") + "P:" + reads + self.tag("endblock")) if blk else ""
            tpl[main_name] = head + "%}" + sets + rest + extra
        else:
            use = [self.tag("block priv" + str(self.fresh(""))) + "P:" + reads + self.tag("endblock"),
                   self.tag(f"macro _m()") + reads + self.tag("endmacro") + self.var("_m()"),
                   self.tag("include 'privreader'"), reads,
                   self.tag("for _i in [1, 2]") + self.var("_i") + self.var(a) + self.tag("endfor"),
                   self.tag("if true") + self.tag("block privin" + str(self.fresh(""))) + self.var(b) + self.tag("endblock") + self.tag("endif")]
            r.shuffle(use)
            tpl[main_name] = sets + src + "".join(use[: r.randint(2, 5)])

    # ---------------------------------------------------------------- whole template sets
    def library(self):
        return ("{% macro twice(x) %}{{ x * 2 }}{% endmacro %}\n"
                "{% macro wrap(s) -%} [{{ s }}] {%- endmacro %}\n"
                "{% set LIBCONST = 7 %}")

    def template_set(self):
        """-> (templates: name -> source, main template name, context)"""
        r = self.r
        self.features = set()
        ctx = self.context()
        tpl = {"lib": self.library(),
               "reader": "<{{ i0 }}|{{ s0 }}|{{ b0 }}|{{ li|length }}>",
               "readmac": "{% macro show() %}<{{ i0 }}|{{ s0 }}>{% endmacro %}{% macro plain(v) %}({{ v }}){% endmacro %}"}
        ctx["parent_name"] = "base"
        sc1 = self.root_scope()
        tpl["inc1"] = self.body(sc1, 1, r.randint(1, 3))
        sc2 = self.root_scope()
        tpl["inc2.html"] = self.body(sc2, 1, r.randint(1, 3))
        sc = self.root_scope()
        main_name = r.choice(["main", "main", "main.j2", "main.html", "main.json"])
        if r.random() < 0.22:
            self.extends_family(tpl, main_name)
        else:
            tpl[main_name] = self.body(sc, 3, r.randint(2, 6))
        if r.random() < 0.35:
            self.private_names(tpl, main_name, ctx)
        # every template and every included / imported / extended partial ends in 0..3 line breaks of some style
        for name in list(tpl):
            tpl[name] = tpl[name] + self.ending()
        return tpl, main_name, ctx


def one_line_per_tag(src):
    """Rewrite a template so that every block tag starts a line (for the lstrip/trim settings)."""
    import re
    return re.sub(r"(\{%)", r"\n\1", src)
