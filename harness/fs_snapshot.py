"""
Recursive file-system snapshots for the checks that must show "nothing on disk changed" (C08) or "exactly this
changed" (C12).

    snap = snapshot([dir1, dir2, ...])            # {abs path: Entry}
    d = diff(before, after)                       # Diff(created, deleted, modified)
    d.empty, d.as_dict()

An `Entry` records kind ('f' file, 'd' directory, 'l' symlink, 'o' other), size, mtime_ns, mode (permission and
type bits of lstat) and, for files, the sha256 of the content (for symlinks: the link target).  Access times are
never recorded (reading is allowed).  A root that does not exist is recorded as absent: creating it shows up as
`created`.  Symlinks are not followed.  Paths are absolute strings; `relative_to` shortens them for reports.
"""
import hashlib
import os
import stat
from typing import Dict, Iterable, List, NamedTuple, Optional


class Entry(NamedTuple):
    kind: str
    size: int
    mtime_ns: int
    mode: int
    digest: str


class Diff(NamedTuple):
    created: List[str]
    deleted: List[str]
    modified: List[str]   # same path, any recorded attribute differs (content, size, mtime, mode, kind)

    @property
    def empty(self) -> bool:
        return not (self.created or self.deleted or self.modified)

    def as_dict(self, relative_to: Optional[str] = None, limit: int = 20) -> dict:
        def short(ps):
            out = [os.path.relpath(p, relative_to) if relative_to else p for p in ps]
            return out[:limit] + ([f"... +{len(out) - limit} more"] if len(out) > limit else [])
        return {"created": short(self.created), "deleted": short(self.deleted), "modified": short(self.modified)}


def _entry(path: str, with_digest: bool) -> Entry:
    st = os.lstat(path)
    if stat.S_ISLNK(st.st_mode):
        return Entry("l", st.st_size, st.st_mtime_ns, st.st_mode, os.readlink(path))
    if stat.S_ISDIR(st.st_mode):
        # the size of a directory inode is file-system specific and says nothing the child entries do not say
        return Entry("d", 0, st.st_mtime_ns, st.st_mode, "")
    if stat.S_ISREG(st.st_mode):
        digest = ""
        if with_digest:
            h = hashlib.sha256()
            with open(path, "rb") as f:
                for block in iter(lambda: f.read(1 << 16), b""):
                    h.update(block)
            digest = h.hexdigest()
        return Entry("f", st.st_size, st.st_mtime_ns, st.st_mode, digest)
    return Entry("o", st.st_size, st.st_mtime_ns, st.st_mode, "")


def snapshot(roots: Iterable, with_digest: bool = True, exclude=()) -> Dict[str, Entry]:
    """Snapshot every root (file or directory, need not exist) recursively.  `exclude`: absolute paths (files or
    whole sub-trees) to leave out."""
    snap: Dict[str, Entry] = {}
    excluded = tuple(os.path.abspath(str(e)) for e in exclude)

    def skip(p: str) -> bool:
        return any(p == e or p.startswith(e + os.sep) for e in excluded)

    for root in roots:
        root = os.path.abspath(str(root))
        if skip(root) or not os.path.lexists(root):
            continue
        snap[root] = _entry(root, with_digest)
        if snap[root].kind != "d":
            continue
        for dirpath, dirnames, filenames in os.walk(root, followlinks=False):
            dirnames.sort()
            for name in dirnames + sorted(filenames):
                p = os.path.join(dirpath, name)
                if skip(p):
                    continue
                snap[p] = _entry(p, with_digest)
            dirnames[:] = [d for d in dirnames if not skip(os.path.join(dirpath, d))
                           and not os.path.islink(os.path.join(dirpath, d))]
    return snap


def diff(before: Dict[str, Entry], after: Dict[str, Entry], ignore_dir_mtime: bool = False) -> Diff:
    """`ignore_dir_mtime`: do not report a directory whose only change is its mtime (it changes whenever an entry
    is created or removed inside it — which is reported anyway)."""
    created = sorted(p for p in after if p not in before)
    deleted = sorted(p for p in before if p not in after)
    modified = []
    for p in sorted(before):
        if p in after and before[p] != after[p]:
            b, a = before[p], after[p]
            if ignore_dir_mtime and b.kind == "d" and a.kind == "d" and b._replace(mtime_ns=0) == a._replace(mtime_ns=0):
                continue
            modified.append(p)
    return Diff(created, deleted, modified)


def files(snap: Dict[str, Entry]) -> List[str]:
    return sorted(p for p, e in snap.items() if e.kind in ("f", "l", "o"))


def dirs(snap: Dict[str, Entry]) -> List[str]:
    return sorted(p for p, e in snap.items() if e.kind == "d")


def content_map(snap: Dict[str, Entry], relative_to: str) -> Dict[str, str]:
    """{relative path: sha256} of the regular files below `relative_to` — for "did the output change" comparisons
    that must ignore times and modes."""
    base = os.path.abspath(str(relative_to))
    return {os.path.relpath(p, base): e.digest for p, e in snap.items()
            if e.kind == "f" and (p == base or p.startswith(base + os.sep))}
