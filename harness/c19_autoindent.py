"""
C19, round 2 — `Parser.subparse` autoindent wrapping composed with `lineprefix` (lean/NunavutVerif/Model/Autoindent.lean,
driver ops `tree`, `render`) against the real bundled engine:

  * tie: the syntax tree the real parser builds (`Environment.parse`: Output / TemplateData / Filter('lineprefix', Const p) /
    FilterBlock(Filter(None, 'lineprefix', Const p)) / If / For / Include / Assign) == the tree the model builds from the
    model lexer's token stream, and the text the real engine renders == the model's rendering, for generated templates
    with nested markers (markers on opening, intermediate and end tags, inline and at line starts, with `-` signs,
    trim_blocks / lstrip_blocks), values and partials ending in 0-2 line breaks;
  * failing-input search: the property's sentence 2 applied recursively to the real tree — every marked construct
    renders as the plain construct with the captured blanks in front of every non-empty line and NOTHING else changed
    (independent reference `spec_render`); deviations are classified (final line terminator dropped / terminators
    rewritten = the recorded findings; anything else = `marker-render-other`).
"""
import json

from .common import enc, dec

VALUES = ["a", "a\nb", "", "a\n", "x\n\ny", "  a\n b", "k", "a\nb\n", "\n", "q\n\n"]
VALUES_EXOTIC = ["a\r\nb", "a\rb", "a\x0cb", "a b"]
PARTIALS = ["inc", "i1\ni2", "i1\ni2\n", "", "\n", "j\n\nk"]
WORDS = ["ab", "c d", "x:", "  y", "", "z;", "int a", "}", "# "]
BLANKS = ["", " ", "  ", "\t", "    ", " \t"]


class Gen:
    def __init__(self, rng, exotic=False):
        self.rng = rng
        self.ctx, self.partials = {}, {}
        self.n = 0
        self.values = VALUES + (VALUES_EXOTIC if exotic else [])

    def fresh(self, p):
        self.n += 1
        return f"{p}{self.n}"

    def star(self, p=0.45):
        return "*" if self.rng.random() < p else ""

    def close(self):
        return "-%}" if self.rng.random() < 0.12 else "%}"

    def indent(self):
        return self.rng.choice(BLANKS)

    def line_end(self):
        return self.rng.choice(["\n", "\n", "\n", "", " |\n"])

    def expr(self):
        e = self.fresh("e")
        self.ctx[e] = self.rng.choice(self.values)
        lead = self.rng.choice(["", "", "", self.rng.choice(WORDS) + ": "])
        return lead + self.indent() + "{{" + self.star(0.6) + " " + e + " " + self.rng.choice(["}}", "}}", "-}}"]) + self.line_end()

    def text(self):
        return self.rng.choice(WORDS) + self.rng.choice(["\n", "\n", ""])

    def include(self):
        p = self.fresh("p")
        self.partials[p] = self.rng.choice(PARTIALS)
        return self.indent() + "{%" + self.star(0.6) + " include '" + p + "' " + self.close() + self.line_end()

    def set_(self):
        z = self.fresh("z")
        return self.indent() + "{%" + self.star(0.3) + " set " + z + " = 1 " + self.close() + self.line_end()

    def if_(self, depth):
        c = self.fresh("c")
        self.ctx[c] = self.rng.random() < 0.7
        s = self.indent() + "{%" + self.star() + " if " + c + " " + self.close() + self.rng.choice(["\n", "\n", ""])
        s += self.body(depth + 1)
        if self.rng.random() < 0.4:
            s += self.indent() + "{%" + self.star(0.2) + " else " + self.close() + self.rng.choice(["\n", ""])
            s += self.body(depth + 1)
        s += self.indent() + "{%" + self.star(0.2) + " endif " + self.close() + self.line_end()
        return s

    def for_(self, depth):
        n = self.fresh("n")
        self.ctx[n] = list(range(self.rng.choice([0, 1, 2, 2])))
        s = self.indent() + "{%" + self.star() + " for x in " + n + " " + self.close() + self.rng.choice(["\n", "\n", ""])
        s += self.body(depth + 1)
        if self.rng.random() < 0.25:
            s += self.indent() + "{% else " + self.close() + "\n" + self.body(depth + 1)
        s += self.indent() + "{%" + self.star(0.2) + " endfor " + self.close() + self.line_end()
        return s

    def body(self, depth):
        out = ""
        for _ in range(self.rng.randint(1, 3 if depth else 4)):
            r = self.rng.random()
            if r < 0.30:
                out += self.expr()
            elif r < 0.45:
                out += self.text()
            elif r < 0.55:
                out += self.include()
            elif r < 0.60:
                out += self.set_()
            elif depth < 3 and r < 0.85:
                out += self.if_(depth)
            elif depth < 3:
                out += self.for_(depth)
            else:
                out += self.text()
        return out


# ---------------------------------------------------------------------------------------------------------------------
def _expr_text(n, nodes):
    if isinstance(n, nodes.Name):
        return n.name
    if isinstance(n, nodes.Const):
        return repr(n.value) if isinstance(n.value, str) else str(n.value)
    return "?" + type(n).__name__


def canon_real(body, nodes):
    """the real syntax tree in the notation of the driver's `tree` answer"""
    out = []
    for n in body:
        if isinstance(n, nodes.Output):
            for c in n.nodes:
                if isinstance(c, nodes.TemplateData):
                    out.append("t:" + enc(c.data))
                elif isinstance(c, nodes.Filter) and c.name == "lineprefix" and c.node is not None and len(c.args) == 1 and isinstance(c.args[0], nodes.Const):
                    out.append("E:" + enc(c.args[0].value) + ":" + enc(_expr_text(c.node, nodes)))
                else:
                    out.append("e:" + enc(_expr_text(c, nodes)))
        elif isinstance(n, nodes.If):
            if n.elif_:
                out.append("?elif")
            out.append("S:" + enc("if") + ":" + enc(_expr_text(n.test, nodes)) + "[" + canon_real(n.body, nodes) + "][" + canon_real(n.else_, nodes) + "]")
        elif isinstance(n, nodes.For):
            out.append("S:" + enc("for") + ":" + enc(_expr_text(n.target, nodes) + " in " + _expr_text(n.iter, nodes)) + "[" + canon_real(n.body, nodes) + "][" + canon_real(n.else_, nodes) + "]")
        elif isinstance(n, nodes.Include):
            out.append("s:" + enc("include") + ":" + enc(_expr_text(n.template, nodes)))
        elif isinstance(n, nodes.Assign):
            out.append("s:" + enc("set") + ":" + enc(_expr_text(n.target, nodes) + " = " + _expr_text(n.node, nodes)))
        elif isinstance(n, nodes.FilterBlock) and n.filter.name == "lineprefix" and n.filter.node is None:
            out.append("B:" + enc(n.filter.args[0].value) + "[" + canon_real(n.body, nodes) + "]")
        else:
            out.append("?" + type(n).__name__)
    return ",".join(out)


def parse_tree(s):
    """driver / canon notation -> nested python lists"""
    pos = 0

    def nodes_():
        nonlocal pos
        out = []
        while pos < len(s) and s[pos] != "]":
            if s[pos] == ",":
                pos += 1
                continue
            j = pos
            while j < len(s) and s[j] not in ",[]":
                j += 1
            head = s[pos:j].split(":")
            pos = j
            kids = []
            while pos < len(s) and s[pos] == "[":
                pos += 1
                kids.append(nodes_())
                pos += 1
            out.append((head, kids))
        return out
    return nodes_()


def spec_prefix(p, s, ref_prefix):
    return ref_prefix(p, s)


def impl_prefix(p, s):
    return "\n".join((p + l) if l else l for l in s.splitlines())


def drop_final_prefix(p, s, ref_prefix, split_keep):
    """the reference with only the final terminator dropped"""
    lt = split_keep(s)
    if lt and lt[-1][1]:
        s = "".join(c + t for c, t in lt[:-1]) + lt[-1][0]
    return ref_prefix(p, s)


def eval_tree(tree, ctx, partials, lp):
    out = ""
    for head, kids in tree:
        k = head[0]
        if k == "t":
            out += dec(head[1])
        elif k == "e":
            out += str(ctx[dec(head[1])])
        elif k == "E":
            out += lp(dec(head[1]), str(ctx[dec(head[2])]))
        elif k == "s":
            if dec(head[1]) == "include":
                out += partials[dec(head[2]).strip("'")]
        elif k == "S":
            name, arg = dec(head[1]), dec(head[2])
            if name == "if":
                out += eval_tree(kids[0] if ctx[arg] else kids[1], ctx, partials, lp)
            else:
                n = len(ctx[arg.split(" in ")[1]])
                out += eval_tree(kids[1], ctx, partials, lp) if n == 0 else "".join(eval_tree(kids[0], ctx, partials, lp) for _ in range(n))
        elif k == "B":
            out += lp(dec(head[1]), eval_tree(kids[0], ctx, partials, lp))
        else:
            raise ValueError(head)
    return out


def valuation(cx, partials):
    """the model's valuation for a context: names e* print, c* are conditions, n* are iterated by `for x in n*`"""
    ex = ",".join(f"{enc(k)}={enc(str(v))}" for k, v in cx.items() if k.startswith("e")) or "-"
    co = ",".join(f"{enc(k)}={1 if v else 0}" for k, v in cx.items() if k.startswith("c")) or "-"
    cn = ",".join(f"{enc('x in ' + k)}={len(v)}" for k, v in cx.items() if k.startswith("n")) or "-"
    si = ",".join(f"{enc('include')}/{enc(repr(k))}={enc(v)}" for k, v in partials.items()) or "-"
    return f"{ex} {co} {cn} {si}"


def run_autoindent(ctx, drv, bj, variant_letter, fail, ref_prefix, split_keep, corpus):
    import nunavut.jinja.jinja2.nodes as nodes
    from . import c19
    rng = ctx.rng
    n = 500 if ctx.quick else 8000
    cases = []
    for c in corpus:
        cases.append((c["source"], c["context"], c.get("partials", {}), c.get("lstrip_blocks", False), c.get("trim_blocks", False), valuation(c["context"], c.get("partials", {}))))
    for i in range(n):
        g = Gen(rng, exotic=(i % 5 == 4))
        src = g.body(0)
        cases.append((src, g.ctx, g.partials, rng.random() < 0.3, rng.random() < 0.3, valuation(g.ctx, g.partials)))
    reqs_t, reqs_r = [], []
    for src, cx, parts, lstrip, trim, val in cases:
        head = f"{variant_letter}{1 if lstrip else 0}{1 if trim else 0} ~ ~ 1 {enc(chr(10))} {enc(src)}"
        reqs_t.append("tree " + head)
        reqs_r.append("render " + head + " " + val)
    ans_t = drv.ask(reqs_t, timeout=1500) if drv is not None else [None] * len(cases)
    ans_r = drv.ask(reqs_r, timeout=1500) if drv is not None else [None] * len(cases)
    nested = wrapped = 0
    for (src, cx, parts, lstrip, trim, val), at, ar in zip(cases, ans_t, ans_r):
        tpl = dict(parts)
        tpl["main"] = src
        env = c19.make_env(bj, tpl, trim=trim, lstrip=lstrip)
        try:
            real_tree = "ok " + canon_real(env.parse(src).body, nodes)
        except bj.TemplateSyntaxError as e:
            real_tree = "syntax-error"
        got = c19.render(bj, tpl, "main", cx, trim=trim, lstrip=lstrip)
        setting = {"lstrip_blocks": lstrip, "trim_blocks": trim}
        nb = real_tree.count("B:") + real_tree.count("E:")
        wrapped += nb
        ctx.case(("autoindent", lstrip, trim, src, json.dumps(cx, sort_keys=True)), nb > 0)
        if "B:" in real_tree and ("E:" in real_tree.split("B:", 1)[1] or real_tree.count("B:") > 1):
            nested += 1
            ctx.count("autoindent:nested-markers")
        if real_tree == "syntax-error" or got[0] != "ok":
            # the generator writes well-formed templates only: the model accepts them, so must the parser
            ctx.count("autoindent:real-engine-error")
            if at is not None:
                ctx.traces += 1
                if at.startswith("ok"):
                    ctx.disagree("subparse-tree", {"source": src, **setting}, at, real_tree if real_tree == "syntax-error" else list(got))
            continue
        if at is not None:
            ctx.traces += 2
            if at != real_tree:
                ctx.disagree("subparse-tree", {"source": src, **setting}, at, real_tree)
            want = "ok " + enc(got[1])
            if ar != want:
                ctx.disagree("autoindent-render", {"source": src, **setting, "context": cx, "partials": parts}, dec(ar[3:]) if ar.startswith("ok ") else ar, got[1])
        # the property on the implementation: recursively "plain construct with the blanks in front of every non-empty line"
        tree = parse_tree(real_tree[3:])
        spec = eval_tree(tree, cx, parts, lambda p, s: ref_prefix(p, s))
        if got[1] != spec:
            if got[1] == eval_tree(tree, cx, parts, lambda p, s: drop_final_prefix(p, s, ref_prefix, split_keep)):
                kind = "lineprefix-final-newline"
            elif got[1] == eval_tree(tree, cx, parts, impl_prefix):
                kind = "lineprefix-terminator-rewritten"
            else:
                kind = "marker-render-other"
            ctx.count("autoindent-fail:" + kind)
            fail(ctx, {"kind": kind}, "a template with (nested) auto-indent markers does not render as the plain constructs with the captured blanks in front of every non-empty line: " + kind,
                 {"stream": "autoindent", "templates": tpl, "main": "main", "context_json": cx, "lstrip_blocks": lstrip, "trim_blocks": trim,
                  "bundled": list(got), "expected": ["ok", spec]})
    ctx.extra["autoindent_templates"] = {"generated": n, "corpus": len(corpus), "wrapper_nodes": wrapped, "with_nested_markers": nested}
    if cases:
        src, cx, parts, lstrip, trim, _ = cases[-1]
        ctx.sample({"autoindent_source": src, "context": cx, "partials": parts})


# ---------------------------------------------------------------------------------------------------------------------
# marked STATEMENTS of every kind, also under template inheritance: sentinel oracle
# ---------------------------------------------------------------------------------------------------------------------
S0, S1 = "", ""       # private-use characters: no case, no line boundary, not escaped, untouched by the filters used here

STATEMENTS = [
    # (name, open tag (without delimiters), body, close tag, extra templates, child block name or None)
    ("block", "block bx", "d1\n\nd2", "endblock", {}, "bx"),
    ("block-expr", "block bx", "{{ v }}\n  t", "endblock", {}, "bx"),
    ("block-trailing-newline", "block bx", "d1\nd2\n", "endblock bx", {}, "bx"),
    ("block-scoped-in-loop", "block bx scoped", "i{{ x }}\nj", "endblock", {}, "bx"),
    ("block-in-if", "block bx", "k\nl", "endblock", {}, "bx"),
    ("filter", "filter upper", "a\n{{ v }}", "endfilter", {}, None),
    ("filter-with-block", "filter upper", "a\n{% block bx %}in\nner{% endblock %}\nz", "endfilter", {}, "bx"),
    ("if", "if true", "a\n{{ v }}\nb", "endif", {}, None),
    ("if-else", "if false", "a", "else %}e1\ne2{% endif", {}, None),
    ("for", "for x in [1, 2]", "r{{ x }}\n", "endfor", {}, None),
    ("with", "with q = 3", "{{ q }}\n{{ v }}", "endwith", {}, None),
    ("call", "call wrapm()", "c1\nc2", "endcall", {}, None),
    ("include", "include 'part'", None, None, {"part": "p1\np2\n\np3"}, None),
    ("include-with-block", "include 'partb'", None, None, {"partb": "p1\n{% block pb %}q1\nq2{% endblock %}"}, None),
    ("set-block", "set cap", "x\ny", "endset", {}, None),
    ("macro-definition", "macro later()", "m1\nm2", "endmacro", {}, None),
    ("autoescape", "autoescape true", "{{ '<' }}\n{{ v }}", "endautoescape", {}, None),
]
CHILD_BODIES = ["l1\nl2\n\nl3", "c{{ super() }}\nd", "", "one", "{{ v }}\n"]


def statement_cases(rng, quick):
    pres = ["body:\n", "", "a\n", "x: ", "p\n\n"]
    blanks = ["", "  ", "    ", "\t", " \t "]
    posts = ["\nend\n", "", "|", "\n"]
    values = ["V", "v1\nv2", "w\n", ""]
    out = []
    for (name, open_, body, close, extra, blockname) in STATEMENTS:
        combos = [(p, w, q, v) for p in pres for w in blanks for q in posts for v in values]
        for (pre, w, post, v) in (rng.sample(combos, 6) if quick else rng.sample(combos, 60)):
            run = len(pre + w) - len((pre + w).rstrip(" \t"))
            pre, w = (pre + w)[:len(pre + w) - run], (pre + w)[len(pre + w) - run:]
            def build(star, s0, s1, trim=False):
                # trim_blocks removes the newline right behind the end tag; in the plain form the sentinel sits there
                post_ = post[1:] if (trim and s1 and post.startswith("\n")) else post
                tag = "{%" + ("*" if star else "") + " " + open_ + " %}"
                inner = tag if body is None else tag + body + "{% " + close + " %}"
                head = "{% macro wrapm() %}<{{ caller() }}>{% endmacro %}" if name == "call" else ""
                if name == "block-scoped-in-loop":
                    return head + pre + "{% for x in [7, 8] %}" + (w if star else "") + s0 + inner + s1 + "{% endfor %}" + post
                if name == "block-in-if":
                    return head + pre + "{% if true %}" + (w if star else "") + s0 + inner + s1 + "{% endif %}" + post
                return head + pre + (w if star else "") + s0 + inner + s1 + post_
            children = [None]
            if blockname:
                children += rng.sample(CHILD_BODIES, 2 if quick else len(CHILD_BODIES))
            for child in children:
                tm = dict(extra); tp = dict(extra); tpt = dict(extra)
                tm["main"] = build(True, "", "")
                tp["main"] = build(False, S0, S1)
                tpt["main"] = build(False, S0, S1, trim=True)
                target = "main"
                if child is not None:
                    scoped = " scoped" if "scoped" in open_ else ""
                    c = "{% extends 'main' %}{% block " + blockname + scoped + " %}" + child + "{% endblock %}"
                    tm["child"] = c; tp["child"] = c; tpt["child"] = c
                    target = "child"
                out.append((name, tm, tp, tpt, target, {"v": v}, w))
    return out


def _apply(out, w, fn):
    res, i = "", 0
    while True:
        a = out.find(S0, i)
        if a < 0:
            return res + out[i:]
        b = out.find(S1, a)
        if b < 0:
            return None
        res += out[i:a] + fn(w, out[a + 1:b])
        i = b + 1


def run_marked_statements(ctx, drv, bj, sj, fail, ref_prefix, split_keep):
    from . import c19
    cases = statement_cases(ctx.rng, ctx.quick)
    pending = []
    for (name, tm, tp_, tpt, target, cx, w) in cases:
        for trim in (False, True):
            tp = tpt if trim else tp_
            got = c19.render(bj, tm, target, cx, trim=trim)
            plain = c19.render(sj, tp, target, cx, trim=trim)
            plain_b = c19.render(bj, tp, target, cx, trim=trim)
            ctx.case(("marked-statement", name, json.dumps(tm, sort_keys=True), target, trim, cx["v"]), True)
            ctx.count("marked-statement:" + name + (":overridden" if target == "child" else ""))
            if plain[0] != "ok" or got[0] != "ok":
                if plain[0] != got[0]:
                    k = "marker-block-scopes-assignments" if name in ("set-block", "macro-definition") else "marker-render-other"
                    fail(ctx, {"kind": k}, "a marked statement fails where the plain statement renders (or the other way round)",
                         {"stream": "autoindent", "templates": tm, "main": target, "context_json": cx, "trim_blocks": trim, "lstrip_blocks": False,
                          "bundled": list(got), "expected": list(plain), "plain_templates": tp})
                continue
            spec = _apply(plain[1], w, ref_prefix)
            if spec is None or S0 in got[1]:
                ctx.count("marked-statement:sentinels-lost")
                continue
            if got[1] != spec:
                if got[1] == _apply(plain[1], w, lambda p, s: drop_final_prefix(p, s, ref_prefix, split_keep)):
                    kind = "lineprefix-final-newline"
                elif got[1] == _apply(plain[1], w, impl_prefix):
                    kind = "lineprefix-terminator-rewritten"
                else:
                    kind = "marker-render-other"
                ctx.count("marked-statement-fail:" + kind)
                fail(ctx, {"kind": kind}, "a marked statement (" + name + ") does not render as the plain statement with the captured blanks in front of every non-empty line: " + kind,
                     {"stream": "autoindent", "templates": tm, "main": target, "context_json": cx, "trim_blocks": trim, "lstrip_blocks": False,
                      "bundled": list(got), "expected": ["ok", spec], "plain_templates": tp, "plain_output_stock": plain[1]})
            # model prediction: the captured blanks + `lineprefix` of the model on what the bundled engine prints for the plain statement
            if drv is not None and plain_b[0] == "ok":
                pending.append((name, tm, target, trim, w, plain_b[1], got[1]))
    if drv is not None and pending:
        regions, index = [], []
        for n, (name, tm, target, trim, w, pout, got) in enumerate(pending):
            i = 0
            while True:
                a = pout.find(S0, i)
                if a < 0:
                    break
                b = pout.find(S1, a)
                regions.append(f"lp {enc(w)} {enc(pout[a + 1:b])}")
                index.append(n)
                i = b + 1
        ans = drv.ask(regions)
        per = {}
        for n, a in zip(index, ans):
            per.setdefault(n, []).append(dec(a))
        for n, (name, tm, target, trim, w, pout, got) in enumerate(pending):
            it = iter(per.get(n, []))
            pred = _apply(pout, w, lambda _p, _s: next(it))
            ctx.traces += 1
            if pred != got:
                ctx.disagree("marked-statement-render", {"statement": name, "templates": tm, "render": target, "trim_blocks": trim}, pred, got)
    ctx.extra["marked_statement_cases"] = len(cases) * 2


# ---------------------------------------------------------------------------------------------------------------------
# line statements: a prefix that merely ENDS in `*` is not the auto-indent marker
# ---------------------------------------------------------------------------------------------------------------------
def has_lineprefix_wrapper(benv, tpl):
    """does the bundled parser build a lineprefix wrapper for one of these templates"""
    import nunavut.jinja.jinja2.nodes as nodes
    for src in tpl.values():
        try:
            tree = benv.parse(src)
        except Exception:  # noqa: BLE001
            continue
        if any(f.name == "lineprefix" for f in tree.find_all(nodes.Filter)):
            return True
    return False


LINE_PREFIXES = [("%%", "##"), ("*", None), ("//*", "##"), ("%*", "//"), ("#", None), ("#*#", "*#"), ("*-", None), ("::", "#*")]


def line_statement_template(rng, lsp, lcp, with_markers):
    """a template written with line statements (if / else / for / set / include), optional markers on delimiter tags inside"""
    cx, parts = {}, {}
    n = [0]

    def fresh(p):
        n[0] += 1
        return f"{p}{n[0]}"

    def expr():
        e = fresh("e")
        cx[e] = rng.choice(VALUES)
        star = "*" if (with_markers and rng.random() < 0.5) else ""
        return rng.choice(BLANKS) + "{{" + star + " " + e + " }}" + rng.choice(["\n", "\n", " t\n"])

    def body(depth):
        out = ""
        for _ in range(rng.randint(1, 3)):
            r = rng.random()
            if r < 0.35:
                out += expr()
            elif r < 0.55:
                out += rng.choice(["ab", "c d", "x:", "z;"]) + "\n"
            elif r < 0.65 and lcp:
                out += rng.choice(["k ", ""]) + lcp + " a comment\n"
            elif r < 0.72:
                out += rng.choice(BLANKS) + lsp + " set " + fresh("z") + " = 1\n"
            elif depth < 2 and r < 0.88:
                c = fresh("c")
                cx[c] = rng.random() < 0.7
                out += rng.choice(BLANKS) + lsp + " if " + c + rng.choice(["", "  "]) + "\n" + body(depth + 1)
                if rng.random() < 0.4:
                    out += rng.choice(BLANKS) + lsp + " else\n" + body(depth + 1)
                out += rng.choice(BLANKS) + lsp + " endif\n"
            elif depth < 2:
                k = fresh("n")
                cx[k] = list(range(rng.choice([0, 1, 2])))
                out += rng.choice(BLANKS) + lsp + " for x in " + k + "\n" + body(depth + 1) + lsp + " endfor\n"
            else:
                out += "w\n"
        return out
    return body(0) + rng.choice(["end", "end\n", ""]), cx, parts


def run_line_statements(ctx, drv, bj, sj, variant_letter, fail):
    import nunavut.jinja.jinja2.nodes as nodes
    from . import c19
    from .c19_lexer import parser_variant
    rng = ctx.rng
    old = "o" if parser_variant(bj) == "before-fix" else ""
    cases = [("* for x in n1\n{{ e2 }}\n* endfor\nend", {"n1": [1, 2], "e2": "v"}, "*", None, False),
             ("  //* if c1\n{{ e2 }}\n\n//* endif\nend", {"c1": True, "e2": "a\nb"}, "//*", None, False)]
    per = 12 if ctx.quick else 150
    for (lsp, lcp) in LINE_PREFIXES:
        for i in range(per):
            src, cx, _parts = line_statement_template(rng, lsp, lcp, with_markers=(i % 3 == 2))
            cases.append((src, cx, lsp, lcp, i % 3 == 2))
    reqs_t, reqs_r = [], []
    for src, cx, lsp, lcp, _m in cases:
        head = f"{variant_letter}00{old} {enc(lsp)} {'~' if lcp is None else enc(lcp)} 1 {enc(chr(10))} {enc(src)}"
        reqs_t.append("tree " + head)
        reqs_r.append("render " + head + " " + valuation(cx, {}))
    ans_t = drv.ask(reqs_t, timeout=1500) if drv is not None else [None] * len(cases)
    ans_r = drv.ask(reqs_r, timeout=1500) if drv is not None else [None] * len(cases)
    for (src, cx, lsp, lcp, marked), at, ar in zip(cases, ans_t, ans_r):
        opts = {"line_statement_prefix": lsp, "line_comment_prefix": lcp}
        env = c19.make_env(bj, {}, opts=opts)
        try:
            real_tree = "ok " + canon_real(env.parse(src).body, nodes)
        except bj.TemplateSyntaxError:
            real_tree = "syntax-error"
        got = c19.render(bj, {"main": src}, "main", cx, opts=opts)
        ctx.case(("line-statement", lsp, lcp, src, json.dumps(cx, sort_keys=True)), lsp.endswith("*"))
        ctx.count("line-statement:prefix-ends-in-star" if lsp.endswith("*") else "line-statement:other-prefix")
        setting = {"line_statement_prefix": lsp, "line_comment_prefix": lcp}
        if at is not None:
            ctx.traces += 2
            if real_tree == "syntax-error" or got[0] != "ok":
                if at.startswith("ok"):
                    ctx.disagree("line-statement-tree", {"source": src, **setting}, at, real_tree if real_tree == "syntax-error" else list(got))
            else:
                if at != real_tree:
                    ctx.disagree("line-statement-tree", {"source": src, **setting}, at, real_tree)
                if ar != "ok " + enc(got[1]):
                    ctx.disagree("line-statement-render", {"source": src, **setting, "context": cx}, dec(ar[3:]) if ar.startswith("ok ") else ar, got[1])
        # the property, sentence 1: a template that uses no marker renders as in stock Jinja2 — whatever the line statement prefix
        if not marked:
            st = c19.render(sj, {"main": src}, "main", cx, opts=opts)
            if got != st and not (got[0] == "err" and st[0] == "err"):
                wrapper = "B:" in real_tree or "E:" in real_tree
                kind = "line-statement-prefix-star-autoindent" if (wrapper and lsp.endswith("*")) else "differs-from-stock-not-because-of-the-lexer-edit"
                fail(ctx, {"kind": kind}, "a template without auto-indent marker, written with line statements, renders differently in the bundled engine and in stock Jinja2"
                     + (": the parser takes the line statement for an auto-indent block because its prefix ends in '*'" if wrapper else ""),
                     {"stream": "differential", "origin": "line-statements", "templates": {"main": src}, "main": "main", "context_json": cx, "context": {k: repr(v) for k, v in cx.items()},
                      "trim_blocks": False, "lstrip_blocks": False, "environment_options": opts, "bundled": list(got), "stock": list(st)})
    ctx.extra["line_statement_templates"] = len(cases)
