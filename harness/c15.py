"""
C15 — line post-processing is chunking-independent and changes only what it documents.

Proof: lean/NunavutVerif/Properties/C15.lean.  Tie: the real `_generate_with_line_buffer` with real
processor objects versus the compiled Lean model (`linebuf` driver) on an exhaustive small domain + random long
texts; `isWs` of the model versus Python's `\\s` on every code point.  Failing-input search: the property's own
predicates evaluated on the implementation (independent reference written with str.rstrip / a regex split of the
*complete* text).
"""
import io
import itertools
import json
import re
import sys

from . import common
from .common import enc, dec

ALPHABET = ["a", " ", "\t", "\r", "\n", " "]
PPS = [[], ["T"], ["L0"], ["L1"], ["L2"], ["T", "L0"], ["T", "L1"], ["T", "L2"], ["L0", "T"], ["L1", "T"], ["L2", "T"]]


def impl_run(pps, chunks):
    """The real code: real processors, real line buffer."""
    import nunavut._postprocessors as npp
    from nunavut.jinja import CodeGenerator
    objs = []
    for p in pps:
        objs.append(npp.TrimTrailingWhitespace() if p == "T" else npp.LimitEmptyLines(int(p[1:])))
    out = io.StringIO()
    CodeGenerator._generate_with_line_buffer(out, (c for c in chunks), objs)
    return out.getvalue()


_SPLIT = re.compile(r"\r\n|\n")


def reference(pps, text):
    """Independent statement of the property: processors applied line by line to the complete text."""
    lines, pos = [], 0
    for m in _SPLIT.finditer(text):
        lines.append((text[pos:m.start()], m.group(0)))
        pos = m.end()
    if pos < len(text):
        lines.append((text[pos:], ""))
    for p in pps:
        if p == "T":
            lines = [(c.rstrip(), t) for c, t in lines]
        else:
            n, run, out = int(p[1:]), 0, []
            for c, t in lines:
                run = run + 1 if c == "" else 0
                out.append(("", "") if run > n else (c, t))
            lines = out
    return "".join(c + t for c, t in lines)


def chunkings(text, with_empty):
    """All ways of cutting `text` into non-empty chunks (+ variants with empty chunks inserted)."""
    n = len(text)
    if n == 0:
        yield []
        yield [""]
        yield ["", ""]
        return
    for mask in range(1 << (n - 1)):
        cuts = [i + 1 for i in range(n - 1) if mask >> i & 1]
        parts = [text[a:b] for a, b in zip([0] + cuts, cuts + [n])]
        yield parts
        if with_empty:
            yield [""] + parts
            yield parts + [""]
            if len(parts) > 1:
                mid = []
                for p in parts:
                    mid += [p, ""]
                yield mid


def line(pps, chunks):
    return "gen " + (",".join(pps) if pps else "-") + " " + ("|".join(enc(c) for c in chunks) if chunks else "!")


def run(ctx: common.Ctx):
    drivers = ctx.prove(["C15"], exes=["linebuf"])
    drv = drivers.get("linebuf")
    ctx.rule = ("exhaustive: every text up to length L over {a,space,tab,CR,LF,U+2028} x every cut set (+ empty-chunk insertions) x 11 processor "
                "lists; plus seeded random long texts with random chunkings; non-trivial = text contains a terminator or whitespace and is cut "
                "into >= 2 chunks or goes through a processor; distinct by (processors, chunk list)")
    ctx.assumptions = ["Python's re / str.rstrip are the reference for whitespace", "io.StringIO stands for the output file"]

    # ---- tie 0: isWs == Python \s on every code point -----------------------------------------------
    if drv is not None:
        cps = [c for c in range(0x110000) if not 0xD800 <= c <= 0xDFFF]
        ans = drv.ask([f"isws {c}" for c in cps])
        ws_re = re.compile(r"\s")
        nbad = 0
        for c, a in zip(cps, ans):
            real = "1" if ws_re.match(chr(c)) else "0"
            if a != real:
                nbad += 1
                ctx.disagree("isws", c, a, real)
        ctx.extra["isws_codepoints_compared"] = len(cps)
        ctx.count("isws_whitespace_codepoints", sum(1 for a in ans if a == "1"))

    # ---- build the case list ------------------------------------------------------------------------
    maxlen = 4 if ctx.quick else 6
    cases = []  # (pps, chunks)
    # corpus first
    corpus = common.VERIF / "corpus" / "C15"
    if corpus.exists():
        for f in sorted(corpus.glob("*.json")):
            for c in json.loads(f.read_text()):
                if "chunks" in c:
                    cases.append((c["pps"], c["chunks"]))
    ncorpus = len(cases)
    for L in range(0, maxlen + 1):
        for tup in itertools.product(ALPHABET, repeat=L):
            text = "".join(tup)
            for ch in chunkings(text, with_empty=(L <= 3)):
                for pps in PPS:
                    cases.append((pps, ch))
    nexh = len(cases) - ncorpus
    # one length beyond, sampled
    rng = ctx.rng
    extra_alpha = ALPHABET + ["b", "é", "\x0b", "\x0c", "\x1c", "\x85", "　", "\U0001F600", "\\"]
    nrand = 3000 if ctx.quick else 40000
    for _ in range(nrand):
        L = rng.choice([5, 6, 7, 8, 12, 20, 40, 80])
        weights = [3, 3, 1, 4, 5, 1] + [1] * (len(extra_alpha) - 6)
        text = "".join(rng.choices(extra_alpha, weights=weights, k=L))
        ncut = rng.randint(0, min(L, 10))
        cuts = sorted(rng.choices(range(0, L + 1), k=ncut))
        parts = [text[a:b] for a, b in zip([0] + cuts, cuts + [L])]
        pps = rng.choice(PPS)
        if rng.random() < 0.3:
            pps = [rng.choice(["T", f"L{rng.randint(0, 4)}"]) for _ in range(rng.randint(1, 4))]
        cases.append((pps, parts))
    ctx.extra["domain"] = {"corpus": ncorpus, "exhaustive_cases": nexh, "exhaustive_max_text_length": maxlen, "random_cases": nrand}
    ctx.exhaustive = False

    # ---- run model and implementation -------------------------------------------------------------
    model = drv.ask([line(p, c) for p, c in cases], timeout=1200) if drv is not None else [None] * len(cases)
    single_cache = {}
    for (pps, chunks), m in zip(cases, model):
        text = "".join(chunks)
        got = impl_run(pps, chunks)
        nontrivial = (len(chunks) >= 2 or bool(pps)) and any(ch in text for ch in " \t\r\n ")
        ctx.case((tuple(pps), tuple(chunks)), nontrivial)
        if "\r" in text and "\n" in text:
            ctx.count("text_has_CR_and_LF")
        if any(c.endswith("\r") for c in chunks[:-1]):
            ctx.count("cut_after_CR")
        if "" in chunks:
            ctx.count("has_empty_chunk")
        if text and not text.endswith("\n"):
            ctx.count("no_final_newline")
        ctx.count("pps=" + (",".join(p[0] for p in pps) or "none"))
        if m is not None:
            ctx.traces += 1
            if dec(m) != got:
                ctx.disagree("linebuf", {"pps": pps, "chunks": chunks}, dec(m), got)
        # failing-input search: the property itself, on the implementation
        key = (tuple(pps), text)
        if key not in single_cache:
            single_cache[key] = impl_run(pps, [text])
        if got != single_cache[key]:
            ctx.fail({"kind": "chunking-dependence"},
                     "the written file depends on how the text is cut into chunks",
                     {"pps": pps, "chunks": chunks, "output": got, "single_chunk_output": single_cache[key]})
        ref = reference(pps, text)
        if single_cache[key] != ref:
            kind = "not-linewise" if pps else "identity"
            ctx.fail({"kind": kind},
                     "the written file is not the processors applied line by line to the complete text",
                     {"pps": pps, "chunks": [text], "output": single_cache[key], "expected": ref})
    ctx.sample({"pps": cases[-1][0], "chunks": cases[-1][1], "output": impl_run(*cases[-1])})
    run_files(ctx, drv)
    run_copy(ctx, drv)
    run_assemble(ctx, drv)
    run_cli_list(ctx, drv)
    run_copy_history(ctx, drv)
    run_objects(ctx, drv)
    run_custom_processors(ctx, drv)
    run_cli_z(ctx, drv)
    run_chunk_types(ctx, drv)
    run_generate_type(ctx, drv)
    run_language_sequences(ctx)
    for p, c in cases[ncorpus + 5000: ncorpus + 5003]:
        ctx.sample({"pps": p, "chunks": c, "output": impl_run(p, c)})


def impl_files(pps, files, scratch):
    """The real `_generate_code`, once per file, with ONE shared list of processor objects (as in a real run)."""
    import types
    import nunavut._postprocessors as npp
    from nunavut.jinja import DSDLCodeGenerator
    gen = object.__new__(DSDLCodeGenerator)
    gen._env = types.SimpleNamespace()
    objs = [npp.TrimTrailingWhitespace() if p == "T" else npp.LimitEmptyLines(int(p[1:])) for p in pps]
    for o in objs:  # a non-initial state, as left behind by earlier files of a run
        if hasattr(o, "_empty_line_count"):
            o._empty_line_count = 7
    gen._post_processors = objs
    out = []
    for i, chunks in enumerate(files):
        path = scratch / f"f{i}.txt"
        if path.exists():
            path.unlink()
        gen._generate_code(path, None, (c for c in chunks), True)
        with open(path, "r", encoding="utf-8", newline="") as fh:
            out.append(fh.read())
    return out


def run_files(ctx, drv):
    """Multi-file stream: the k-th file of a run must be post-processed as if it were the only one."""
    rng = ctx.rng
    pool = ["", "x", "x\n", "x\n\n", "x\n\n\n", "\n", "\n\n", "\n\ny\n", "\n\n\ny", " \n \n", "a \r\n\r\n\r\nb", "\r\n\r\ny\r\n", "a\t\n\n\n\nb \n\n"]
    seqs = []
    for pps in [p for p in PPS if p]:
        for a in pool:
            for b in pool:
                seqs.append((pps, [a, b]))
    n_rand = 300 if ctx.quick else 5000
    for _ in range(n_rand):
        pps = rng.choice([p for p in PPS if p])
        seqs.append((pps, [rng.choice(pool) + rng.choice(pool) for _ in range(rng.randint(2, 4))]))
    scratch = ctx.scratch / "files"
    scratch.mkdir(exist_ok=True)
    reqs, chunked = [], []
    for pps, texts in seqs:
        files = []
        for t in texts:
            L = len(t)
            cuts = sorted(rng.choices(range(0, L + 1), k=rng.randint(0, 3))) if L else []
            parts = [t[a:b] for a, b in zip([0] + cuts, cuts + [L])] or [""]
            files.append(parts)
        chunked.append(files)
        reqs.append("files " + ",".join(pps) + " " + "/".join("|".join(enc(c) for c in f) for f in files))
    model = drv.ask(reqs) if drv is not None else [None] * len(reqs)
    for (pps, texts), files, m in zip(seqs, chunked, model):
        got = impl_files(pps, files, scratch)
        ctx.case(("files", tuple(pps), tuple(tuple(f) for f in files)), True)
        ctx.count("multi_file_runs")
        if m is not None:
            ctx.traces += 1
            if [dec(x) for x in m.split("/")] != got:
                ctx.disagree("linebuf-files", {"pps": pps, "files": files}, [dec(x) for x in m.split("/")], got)
        for k, t in enumerate(texts):
            alone = impl_run(pps, [t])
            if got[k] != alone:
                ctx.fail({"kind": "file-depends-on-earlier-files"},
                         "a file's post-processed text depends on the files generated before it (processor state carried over)",
                         {"pps": pps, "files": files, "index": k, "output": got[k], "alone": alone})
                break
    ctx.sample({"stream": "files", "pps": seqs[-1][0], "files": chunked[-1], "outputs": impl_files(seqs[-1][0], chunked[-1], scratch)})


def impl_copy(pps, text, scratch, dirty):
    """The real `SupportGenerator._copy_header_using_line_pps` on a raw (non-template) resource file."""
    import nunavut._postprocessors as npp
    from nunavut.jinja import SupportGenerator
    objs = [npp.TrimTrailingWhitespace() if p == "T" else npp.LimitEmptyLines(int(p[1:])) for p in pps]
    if dirty:  # state left behind by an earlier file of the run
        for o in objs:
            if hasattr(o, "_empty_line_count"):
                o._empty_line_count = 7
    src, dst = scratch / "res.h", scratch / "dst.h"
    with open(src, "w", encoding="utf-8", newline="") as fh:
        fh.write(text)
    if dst.exists():
        dst.unlink()
    SupportGenerator._copy_header_using_line_pps(object.__new__(SupportGenerator), src, dst, objs)
    with open(dst, "r", encoding="utf-8", newline="") as fh:
        return fh.read()


def run_copy(ctx, drv):
    """Copy stream: a raw support file copied through line processors = the processors applied line by line to its text."""
    rng = ctx.rng
    scratch = ctx.scratch / "copy"
    scratch.mkdir(exist_ok=True)
    texts = []
    maxlen = 3 if ctx.quick else 4
    for L in range(0, maxlen + 1):
        for tup in itertools.product(ALPHABET + ["\x0c", "\x85", "\ufeff"], repeat=L):
            texts.append("".join(tup))
    for _ in range(200 if ctx.quick else 3000):
        texts.append("".join(rng.choices(ALPHABET + ["b", "\x0b", "\x0c", "\x1c", "\x85", "\u2029"], k=rng.randint(4, 30))))
    reqs, cases = [], []
    for t in texts:
        pps = rng.choice([p for p in PPS if p])
        cases.append((pps, t))
        reqs.append("files " + ",".join(pps) + " " + enc(t))
    model = drv.ask(reqs) if drv is not None else [None] * len(reqs)
    for (pps, t), m in zip(cases, model):
        got = impl_copy(pps, t, scratch, dirty=True)
        ctx.case(("copy", tuple(pps), t), True)
        ctx.count("copied_raw_files")
        if m is not None:
            ctx.traces += 1
            if dec(m) != got:
                ctx.disagree("linebuf-copy", {"pps": pps, "text": t}, dec(m), got)
        ref = reference(pps, t)
        if got != ref:
            ctx.fail({"kind": "copy-not-linewise"},
                     "a raw support file copied through line processors is not the processors applied line by line to its text",
                     {"pps": pps, "text": t, "output": got, "expected": ref})
    ctx.sample({"stream": "copy", "pps": cases[-1][0], "text": cases[-1][1], "output": impl_copy(cases[-1][0], cases[-1][1], scratch, True)})


def run_assemble(ctx, drv):
    """How a generator assembles its processor list from the caller's list and the language configuration."""
    import nunavut._postprocessors as npp
    from nunavut.jinja import CodeGenerator

    class Other(npp.FilePostProcessor):
        def __init__(self, k):
            self.k = k

        def __call__(self, generated):
            return generated

    class FakeLanguage:
        def __init__(self, limit, trim):
            self.limit, self.trim = limit, trim

        def get_config_value(self, key):
            if key == "limit_empty_lines" and self.limit is not None:
                return str(self.limit)
            raise KeyError(key)

        def get_config_value_as_bool(self, key, default_value=False):
            return self.trim if key == "trim_trailing_whitespace" else default_value

    def make(tok):
        return npp.TrimTrailingWhitespace() if tok == "T" else npp.LimitEmptyLines(int(tok[1:])) if tok[0] == "L" else Other(int(tok[1:]))

    def show(objs):
        if objs is None:
            return "N"
        out = []
        for o in objs:
            out.append("T" if isinstance(o, npp.TrimTrailingWhitespace) else f"L{o._max_empty_lines}" if isinstance(o, npp.LimitEmptyLines) else f"O{o.k}")
        return ",".join(out) if out else "-"

    toks = ["T", "L0", "L5", "O1", "O2"]
    givens = [None, []] + [[a] for a in toks] + [[a, b] for a in toks for b in toks] + [["O1", "T", "O2"], ["L5", "O1", "T"], ["O1", "O2", "L0"]]
    cases = [(g, lim, tr) for g in givens for lim in (None, 0, 2) for tr in (False, True)]
    reqs = ["assemble " + ("N" if g is None else (",".join(g) or "-")) + " " + ("N" if lim is None else str(lim)) + " " + ("1" if tr else "0") for g, lim, tr in cases]
    model = drv.ask(reqs) if drv is not None else [None] * len(reqs)
    for (g, lim, tr), m in zip(cases, model):
        given = None if g is None else [make(t) for t in g]
        got = show(CodeGenerator._handle_post_processors(FakeLanguage(lim, tr), given))
        ctx.case(("assemble", tuple(g) if g is not None else None, lim, tr), True)
        ctx.count("assembled_processor_lists")
        if m is not None:
            ctx.traces += 1
            if m != got:
                ctx.disagree("linebuf-assemble", {"given": g, "limit_empty_lines": lim, "trim_trailing_whitespace": tr}, m, got)
        items = [] if got in ("N", "-") else got.split(",")
        want_prefix = [] if g is None else g
        ok = items[:len(want_prefix)] == want_prefix and (lim is None or any(t[0] == "L" for t in items)) and (not tr or "T" in items)
        if not ok:
            ctx.fail({"kind": "configured-processor-missing"},
                     "the generator's processor list lacks a processor the language configuration asks for, or drops/reorders the caller's",
                     {"given": g, "limit_empty_lines": lim, "trim_trailing_whitespace": tr, "assembled": got})
    ctx.sample({"stream": "assemble", "given": cases[-1][0], "limit": cases[-1][1], "trim": cases[-1][2], "assembled": model[-1]})


def run_cli_list(ctx, drv):
    """The processor list of a CLI run: real argparse -> real _build_post_processor_list_from_args -> real _handle_post_processors."""
    import nunavut._postprocessors as npp
    import nunavut.cli
    from nunavut.cli.runners import ArgparseRunner
    from nunavut.jinja import CodeGenerator

    class FakeLanguage:
        def __init__(self, limit, trim):
            self.limit, self.trim = limit, trim

        def get_config_value(self, key):
            if key == "limit_empty_lines" and self.limit is not None:
                return str(self.limit)
            raise KeyError(key)

        def get_config_value_as_bool(self, key, default_value=False):
            return self.trim if key == "trim_trailing_whitespace" else default_value

    def show(objs):
        out = []
        for o in objs:
            out.append("T" if isinstance(o, npp.TrimTrailingWhitespace) else f"L{o._max_empty_lines}" if isinstance(o, npp.LimitEmptyLines)
                       else "O1" if isinstance(o, npp.ExternalProgramEditInPlace) else "O0" if isinstance(o, npp.SetFileMode) else "O9")
        return ",".join(out)

    parser = nunavut.cli._make_parser()
    cases = [(tr, mx, pr, lim, ctr) for tr in (False, True) for mx in (None, 0, 1, 3) for pr in (False, True)
             for lim in (None, 0, 1) for ctr in (False, True)]
    reqs = [f"cli {int(tr)} {'N' if mx is None else mx} {int(pr)} {'N' if lim is None else lim} {int(ctr)}" for tr, mx, pr, lim, ctr in cases]
    model = drv.ask(reqs) if drv is not None else [None] * len(reqs)
    for (tr, mx, pr, lim, ctr), m in zip(cases, model):
        argv = ["ns_dir"]
        if tr:
            argv.append("--pp-trim-trailing-whitespace")
        if mx is not None:
            argv += ["--pp-max-emptylines", str(mx)]
        if pr:
            argv += ["--pp-run-program", "true"]
        runner = object.__new__(ArgparseRunner)
        runner._args = parser.parse_args(argv)
        got = show(CodeGenerator._handle_post_processors(FakeLanguage(lim, ctr), runner._build_post_processor_list_from_args()))
        ctx.case(("cli-list", tr, mx, pr, lim, ctr), True)
        ctx.count("cli_processor_lists")
        if m is not None:
            ctx.traces += 1
            if m != got:
                ctx.disagree("linebuf-cli", {"argv": argv, "limit_empty_lines": lim, "trim_trailing_whitespace": ctr}, m, got)
        limits = [t for t in got.split(",") if t.startswith("L")]
        want = mx if mx is not None else lim
        ok = (limits[:1] == ([f"L{want}"] if want is not None else [])) and len(limits) <= 1 and ((not (tr or ctr)) or "T" in got.split(","))
        if not ok:
            ctx.fail({"kind": "cli-processor-list"},
                     "the processors of a CLI run are not the ones the command line (and the language configuration) ask for",
                     {"argv": argv, "limit_empty_lines": lim, "trim_trailing_whitespace": ctr, "assembled": got})
    ctx.sample({"stream": "cli-list", "request": reqs[-1], "assembled": model[-1]})


# =====================================================================================================================
# round 2: histories of runs into one directory, processor objects, user-defined processors, integer limits on the CLI
# =====================================================================================================================

def _mk(p):
    import nunavut._postprocessors as npp
    return npp.TrimTrailingWhitespace() if p == "T" else npp.LimitEmptyLines(int(p[1:]))


def _read(path):
    with open(path, "r", encoding="utf-8", newline="") as fh:
        return fh.read()


def _write(path, text):
    with open(path, "w", encoding="utf-8", newline="") as fh:
        fh.write(text)


def impl_copy_history(resource_text, dst0, runs, scratch):
    """The real `SupportGenerator._copy_header`, once per run, always the same resource and the same target path.
    runs: (pps, start, dry, allow, readonly).  Returns (per-run result, final state); state None = no such file."""
    import nunavut._postprocessors as npp
    from nunavut.jinja import SupportGenerator
    gen = object.__new__(SupportGenerator)
    src, dst = scratch / "resource.h", scratch / "out" / "resource.h"
    _write(src, resource_text)
    if dst.exists():
        dst.chmod(0o644)
        dst.unlink()
    if dst0 is not None:
        dst.parent.mkdir(exist_ok=True)
        _write(dst, dst0)
    results = []
    for pps, start, dry, allow, readonly in runs:
        objs = [_mk(p) for p in pps]
        for o in objs:
            if hasattr(o, "_empty_line_count"):
                o._empty_line_count = start
        file_pps = [npp.SetFileMode(0o444)] if readonly else []
        try:
            gen._copy_header(src, dst, dry, allow, objs, file_pps)
            results.append(_read(dst) if dst.exists() else None)
        except PermissionError:
            results.append("E")
    return results, (_read(dst) if dst.exists() else None)


def run_copy_history(ctx, drv):
    """Two or three runs of the support generator's copy into the SAME directory with varying processor lists: what a run
    leaves must be a function of (resource text, that run's processors) only — not of what an earlier run left there."""
    rng = ctx.rng
    scratch = ctx.scratch / "copyh"
    scratch.mkdir(exist_ok=True)
    texts = ["", "a", "a\n", "a \n", "a \n\n\n\nb\t\n", "\n\n\n", " \n \n \nx", "a\r\n\r\n\r\nb \r\n", "x \r", "a\rb \n", "// h   \n#pragma once\t\n\n\n\nint f(void)  \r\n{\r\n}\n\n\n// end",
             "﻿a \n", "a  \n\n\n", "tail  "]
    for _ in range(12 if ctx.quick else 200):
        texts.append("".join(rng.choices(ALPHABET + ["b", "\x0c"], weights=[3, 3, 1, 2, 5, 1, 1, 1], k=rng.randint(3, 24))))
    lists = [[], ["T"], ["L0"], ["L1"], ["T", "L1"], ["L1", "T"]]
    cases = []
    hfile = common.VERIF / "corpus" / "C15" / "copy_histories.json"
    if hfile.exists():      # corpus first
        for c in json.loads(hfile.read_text()):
            cases.append((c["resource"], c["initial"], [tuple(r) for r in c["runs"]]))
    for t in texts:
        for a in lists:
            for b in lists:
                cases.append((t, None, [(a, 0, False, True, False), (b, 0, False, True, False)]))
        # an earlier verbatim copy made read-only by SetFileMode (the CLI's default), unrelated old content, a dry run in between
        cases.append((t, None, [([], 0, False, True, True), (["T", "L1"], 3, False, True, True), ([], 0, False, True, False)]))
        cases.append((t, "old \n\n\n", [(["T"], 0, True, True, False), (["T"], 0, False, False, False), (["L0", "T"], 2, False, True, False)]))
        cases.append((t, t, [(["T", "L0"], 0, False, True, False)]))
    for _ in range(150 if ctx.quick else 3000):
        t = rng.choice(texts)
        runs = [(rng.choice(lists), rng.randint(0, 4), rng.random() < 0.15, rng.random() < 0.85, rng.random() < 0.3) for _ in range(rng.randint(2, 3))]
        cases.append((t, rng.choice([None, t, "zzz\n"]), runs))

    def show(x):
        return "N" if x is None else x if x == "E" else enc(x)

    reqs = ["copyh " + enc(t) + " " + ("N" if d0 is None else enc(d0)) + " "
            + "/".join(f"{','.join(pps) or '-'};{st};{int(dry)};{int(allow)}" for pps, st, dry, allow, _ in runs) for t, d0, runs in cases]
    flreqs = ["flines " + enc(t) for t in texts]
    model = drv.ask(reqs + flreqs) if drv is not None else [None] * (len(reqs) + len(flreqs))
    # the lines a file object yields (what the copy feeds to the line buffer)
    for t, m in zip(texts, model[len(reqs):]):
        _write(scratch / "fl.txt", t)
        with open(scratch / "fl.txt", "r", encoding="utf-8", newline="") as fh:
            got = "|".join(enc(l) for l in fh) or "!"
        ctx.case(("flines", t), True)
        if m is not None:
            ctx.traces += 1
            if m != got:
                ctx.disagree("linebuf-flines", {"text": t}, m, got)
    fresh_cache = {}
    for (t, d0, runs), m in zip(cases, model):
        results, final = impl_copy_history(t, d0, runs, scratch)
        ctx.case(("copyh", t, d0, tuple((tuple(r[0]),) + r[1:] for r in runs)), True)
        ctx.count("copy_histories")
        got = "/".join(show(x) for x in results) + "=" + show(final)
        if m is not None:
            ctx.traces += 1
            if m != got:
                ctx.disagree("linebuf-copyh", {"resource": t, "initial": d0, "runs": runs}, m, got)
        # the property on the implementation: every run that writes leaves reference(pps, text), whatever was there
        state = d0
        for k, ((pps, st, dry, allow, ro), res) in enumerate(zip(runs, results)):
            writes = not dry and (allow or state is None)
            if writes:
                key = (t, tuple(pps))
                if key not in fresh_cache:       # the same run alone, into an empty directory
                    fresh_cache[key] = impl_copy_history(t, None, [(pps, 0, False, True, False)], scratch)[1]
                ref = reference(pps, t)
                if res != fresh_cache[key]:
                    ctx.fail({"kind": "copy-depends-on-destination"},
                             "what a support-file copy leaves depends on what an earlier run left at the destination (or on the processors' prior state)",
                             {"resource": t, "initial": d0, "runs": runs, "run_index": k, "output": res, "fresh_directory_output": fresh_cache[key], "expected": ref})
                    break
                if res != ref:
                    ctx.fail({"kind": "copy-not-linewise"},
                             "a raw support file copied through line processors is not the processors applied line by line to its text",
                             {"resource": t, "initial": d0, "runs": runs, "run_index": k, "pps": pps, "text": t, "output": res, "expected": ref})
                    break
                state = res
            else:
                expect = "E" if (not dry) else state
                if res != expect:
                    ctx.fail({"kind": "copy-dry-or-refused-run-wrote"}, "a dry run or a refused overwrite changed the destination",
                             {"resource": t, "initial": d0, "runs": runs, "run_index": k, "output": res, "expected": expect})
                    break
    ctx.sample({"stream": "copy-history", "request": reqs[0], "answer": model[0]})
    run_support_generator_history(ctx)


def run_support_generator_history(ctx):
    """End to end: the real SupportGenerator.generate_all for C++ (no configured line processors) twice/three times into one
    output directory, with a hand-written non-template support header among the language's support files."""
    import pydsdl
    import nunavut
    import nunavut.jinja
    import nunavut.lang.cpp.support as cpp_support
    from nunavut._utilities import ResourceType
    from nunavut.lang import LanguageContextBuilder
    scratch = ctx.scratch / "e2e"
    (scratch / "dsdl" / "demo").mkdir(parents=True, exist_ok=True)
    (scratch / "dsdl" / "demo" / "Thing.1.0.dsdl").write_text("uint8 value\n@sealed\n")
    text = "// support   \n#pragma once\t\n\n\n\nstatic inline int f(void)  \r\n{\r\n    return 42;   \r\n}\n\n\n// end"
    header = scratch / "res" / "verif_support.hpp"
    header.parent.mkdir(exist_ok=True)
    _write(header, text)
    original = cpp_support.list_support_files

    def listing(resource_type=ResourceType.ANY):
        yield from original(resource_type)
        if resource_type in (ResourceType.ANY, ResourceType.TYPE_SUPPORT):
            yield header

    histories = [[[], ["T", "L1"]], [["T"], []], [[], [], ["L0"]], [["L1", "T"], ["T", "L1"]]]
    cpp_support.list_support_files = listing
    try:
        for hi, hist in enumerate(histories):
            out = scratch / f"out{hi}"
            lctx = LanguageContextBuilder(include_experimental_languages=True).set_target_language("cpp").create()
            ns = nunavut.build_namespace_tree(pydsdl.read_namespace(str(scratch / "dsdl" / "demo"), []), str(scratch / "dsdl" / "demo"), str(out), lctx)
            for k, pps in enumerate(hist):
                nunavut.jinja.SupportGenerator(ns, post_processors=[_mk(p) for p in pps]).generate_all(False, True)
                found = list(out.rglob("verif_support.hpp"))
                got = _read(found[0]) if len(found) == 1 else None
                ref = reference(pps, text)
                ctx.case(("e2e-history", hi, k), True)
                ctx.count("support_generator_runs_into_one_directory")
                if got != ref:
                    ctx.fail({"kind": "copy-depends-on-destination"},
                             "SupportGenerator.generate_all: a copied support header is not the run's processors applied line by line (earlier runs into the same directory matter)",
                             {"resource": text, "initial": None, "runs": [(p, 0, False, True, False) for p in hist], "run_index": k, "output": got, "expected": ref,
                              "via": "SupportGenerator.generate_all(cpp)"})
                    break
    finally:
        cpp_support.list_support_files = original


def run_objects(ctx, drv):
    """`__call__` / `reset` of the built-in line post-processor objects, called directly (as an API user may)."""
    import nunavut._postprocessors as npp
    reqs, thunks = [], []
    contents = [""] + ["".join(t) for L in (1, 2, 3) for t in itertools.product(["a", " ", "\t", "\n", "\r", " "], repeat=L)]
    terms = ["", "\n", "\r\n", "\r", "x"]
    for c in contents:
        for t in terms:
            reqs.append(f"call T 0 {enc(c)} {enc(t)}")
            thunks.append(("T", None, 0, c, t))
    for n in (-2, -1, 0, 1, 2, 3):
        for s in range(0, 5):
            for c in ("", "a", " ", "\n"):
                for t in ("", "\n", "\r\n"):
                    reqs.append(f"call L{n} {s} {enc(c)} {enc(t)}")
                    thunks.append(("L", n, s, c, t))
            reqs.append(f"reset L{n} {s}")
            thunks.append(("R", n, s, None, None))
    model = drv.ask(reqs) if drv is not None else [None] * len(reqs)
    for (kind, n, s, c, t), m in zip(thunks, model):
        if kind == "T":
            o = npp.TrimTrailingWhitespace()
            r = o((c, t))
            got = f"{enc(r[0])} {enc(r[1])} 0"
            ok = r == (c.rstrip(), t)
            fresh = npp.TrimTrailingWhitespace()
            o.reset()
            ok = ok and vars(o).keys() == vars(fresh).keys() and o((c, t)) == r
        elif kind == "L":
            o = npp.LimitEmptyLines(n)
            o._empty_line_count = s
            r = o((c, t))
            got = f"{enc(r[0])} {enc(r[1])} {o._empty_line_count}"
            cnt = s + 1 if c == "" else 0
            ok = n < 0 or (r == (("", "") if cnt > n else (c, t)) and o._empty_line_count == cnt)
        else:
            o = npp.LimitEmptyLines(n)
            o._empty_line_count = s
            o.reset()
            got = str(o._empty_line_count)
            ok = vars(o) == vars(npp.LimitEmptyLines(n))
        ctx.case(("object", kind, n, s, c, t), True)
        ctx.count("processor_object_calls")
        if m is not None:
            ctx.traces += 1
            if m != got:
                ctx.disagree("linebuf-object", {"kind": kind, "n": n, "state": s, "content": c, "terminator": t}, m, got)
        if not ok:
            ctx.fail({"kind": "processor-object-contract"},
                     "a built-in line post-processor object does not keep its __call__/reset contract",
                     {"class": {"T": "TrimTrailingWhitespace", "L": "LimitEmptyLines", "R": "LimitEmptyLines.reset"}[kind], "n": n, "state": s,
                      "content": c, "terminator": t, "observed": got})
    ctx.sample({"stream": "objects", "request": reqs[-2], "answer": model[-2]})


def _custom_classes():
    import nunavut._postprocessors as npp

    class C0(npp.LinePostProcessor):          # the class docstring's CommentItAllOut('/*', '*/')
        def __call__(self, ll):
            return ("/* {} */".format(ll[0]), ll[1]) if len(ll[0]) > 0 else ("", "")

    class C1(npp.LinePostProcessor):          # a programming error: None for the line "x"
        def __call__(self, ll):
            return None if ll[0] == "x" else ll

    class C2(npp.LinePostProcessor):          # keeps state, does not override reset()
        def __init__(self):
            self.k = 0

        def __call__(self, ll):
            self.k += 1
            return (("#" if self.k % 2 == 1 else "") + ll[0], ll[1])

    class C3(C2):                             # ... and with the documented reset()
        def reset(self):
            self.k = 0

    return [C0, C1, C2, C3]


def run_custom_processors(ctx, drv):
    """User-defined LinePostProcessor subclasses (alone and mixed with the built-in ones) through the real `_generate_code`,
    several files per run: chunking independence and per-file independence under the documented reset() contract."""
    import types
    from nunavut.jinja import DSDLCodeGenerator
    rng = ctx.rng
    classes = _custom_classes()
    scratch = ctx.scratch / "custom"
    scratch.mkdir(exist_ok=True)

    def make(tok, start):
        if tok[0] == "C":
            o = classes[int(tok[1:])]()
            if hasattr(o, "k"):
                o.k = start
            return o
        o = _mk(tok)
        if hasattr(o, "_empty_line_count"):
            o._empty_line_count = start
        return o

    def impl(procs, start, files):
        gen = object.__new__(DSDLCodeGenerator)
        gen._env = types.SimpleNamespace()
        gen._post_processors = [make(t, start) for t in procs]
        out = []
        for i, chunks in enumerate(files):
            path = scratch / f"f{i}.txt"
            if path.exists():
                path.unlink()
            raised = False
            try:
                gen._generate_code(path, None, (c for c in chunks), True)
            except ValueError:
                raised = True
            out.append((_read(path), raised))
            if raised:
                break
        return out

    toks = ["C0", "C1", "C2", "C3", "T", "L1", "L0", "L-1"]
    lists = [[a] for a in toks] + [[a, b] for a in toks for b in toks if a[0] == "C" or b[0] == "C"]
    pool = ["", "a\n", "x\n", "a \n\n\nx\nb", "\n\n", "a\r\nx \r\n", "x", "b \n \n \n", "a\n\nb\n"]
    cases = []
    for procs in lists:
        for f1 in pool[:6]:
            cases.append((procs, 0, [f1, "a\n\nb\n"]))
    for _ in range(300 if ctx.quick else 5000):
        cases.append((rng.choice(lists), rng.randint(0, 3), [rng.choice(pool) + rng.choice(pool) for _ in range(rng.randint(1, 3))]))
    chunked, reqs = [], []
    for procs, start, texts in cases:
        files = []
        for t in texts:
            L = len(t)
            cuts = sorted(rng.choices(range(0, L + 1), k=rng.randint(0, 3))) if L else []
            files.append([t[a:b] for a, b in zip([0] + cuts, cuts + [L])] or [""])
        chunked.append(files)
        reqs.append(f"pfiles {','.join(procs)} {start} " + "/".join("|".join(enc(c) for c in f) for f in files))
    model = drv.ask(reqs) if drv is not None else [None] * len(reqs)
    lawful = lambda procs: "C2" not in procs
    for (procs, start, texts), files, m in zip(cases, chunked, model):
        got = impl(procs, start, files)
        ctx.case(("custom", tuple(procs), start, tuple(tuple(f) for f in files)), True)
        ctx.count("runs_with_user_defined_processors")
        if m is not None:
            ctx.traces += 1
            shown = "/".join(enc(t) + ":" + ("1" if r else "0") for t, r in got)
            if m != shown:
                ctx.disagree("linebuf-custom", {"procs": procs, "start": start, "files": files}, m, shown)
        for k, (text, raised) in enumerate(got):
            one = impl(procs, start, [[texts[k]]])[0]             # same file, one chunk, alone — but from the same start state
            alone = impl(procs, 0, [[texts[k]]])[0]               # ... and from freshly constructed objects
            if k == 0 and (text, raised) != one:
                ctx.fail({"kind": "chunking-dependence"}, "the written file depends on how the text is cut into chunks (user-defined processors)",
                         {"procs": procs, "start": start, "files": files, "index": k, "output": [text, raised], "single_chunk_output": list(one)})
                break
            if lawful(procs) and (text, raised) != alone:
                ctx.fail({"kind": "file-depends-on-earlier-files"},
                         "a file's post-processed text depends on the files generated before it although every processor resets itself",
                         {"procs": procs, "start": start, "files": files, "index": k, "output": [text, raised], "alone": list(alone)})
                break
    ctx.sample({"stream": "custom-processors", "request": reqs[0], "answer": model[0]})


def run_cli_z(ctx, drv):
    """Command line -> processor list with the limit as argparse delivers it (any integer, written any way int() accepts),
    --pp-run-program-arg, --file-mode; then _handle_post_processors TWICE on the same list (code generator and support
    generator of one run share it)."""
    import nunavut._postprocessors as npp
    import nunavut.cli
    from nunavut.cli.runners import ArgparseRunner
    from nunavut.jinja import CodeGenerator

    class FakeLanguage:
        def __init__(self, limit, trim):
            self.limit, self.trim = limit, trim

        def get_config_value(self, key):
            if key == "limit_empty_lines" and self.limit is not None:
                return str(self.limit)
            raise KeyError(key)

        def get_config_value_as_bool(self, key, default_value=False):
            return self.trim if key == "trim_trailing_whitespace" else default_value

    def show(objs):
        out = []
        for o in objs:
            out.append("T" if isinstance(o, npp.TrimTrailingWhitespace) else f"L{o._max_empty_lines}" if isinstance(o, npp.LimitEmptyLines)
                       else f"P{len(o._command_line) - 1}" if isinstance(o, npp.ExternalProgramEditInPlace)
                       else f"M{o._file_mode}" if isinstance(o, npp.SetFileMode) else "O9")
        return ",".join(out) or "-"

    parser = nunavut.cli._make_parser()
    # the post-processing surface of the command line is exactly what the model's `PPArgs` has a field for
    pp_flags = sorted(o for a in parser._actions for o in a.option_strings if o.startswith("--pp-"))
    modelled = ["--pp-max-emptylines", "--pp-run-program", "--pp-run-program-arg", "--pp-trim-trailing-whitespace"]
    ctx.extra["cli_pp_flags"] = pp_flags
    if pp_flags != modelled:
        ctx.broken.append({"kind": "cli-surface", "what": "the --pp-* options of the real parser are not the ones the model covers", "parser": pp_flags, "model": modelled})
    # the real languages' configuration (lang/properties.yaml) through the real Language objects
    from nunavut.lang import LanguageContextBuilder
    real = []
    for name in ("c", "cpp", "py", "js", "html"):
        lang = LanguageContextBuilder(include_experimental_languages=True).set_target_language(name).create().get_target_language()
        try:
            lim = int(lang.get_config_value("limit_empty_lines"))
        except KeyError:
            lim = None
        real.append((name, lang, lim, bool(lang.get_config_value_as_bool("trim_trailing_whitespace"))))
    rreqs, rthunks = [], []
    for name, lang, lim, ctr in real:
        for tr in (False, True):
            for mx in (None, "0", "2"):
                rreqs.append(f"cliz {int(tr)} {'N' if mx is None else int(mx)} N {0o444} {'N' if lim is None else lim} {int(ctr)}")
                rthunks.append((name, lang, tr, mx))
    rmodel = drv.ask(rreqs) if drv is not None else [None] * len(rreqs)
    for (name, lang, tr, mx), m in zip(rthunks, rmodel):
        argv = ["ns_dir"] + (["--pp-trim-trailing-whitespace"] if tr else []) + (["--pp-max-emptylines", mx] if mx is not None else [])
        runner = object.__new__(ArgparseRunner)
        runner._args = parser.parse_args(argv)
        got = show(CodeGenerator._handle_post_processors(lang, runner._build_post_processor_list_from_args()))
        lines = ",".join(t for t in got.split(",") if t[0] in "TL") or "-"
        ctx.case(("cli-real-language", name, tr, mx), True)
        ctx.count("cli_processor_lists_real_languages")
        if m is not None:
            ctx.traces += 1
            if m != got + ";" + lines:
                ctx.disagree("linebuf-cliz-language", {"language": name, "argv": argv}, m, got + ";" + lines)
    cases = [(tr, mx, pr, fm, lim, ctr) for tr in (False, True) for mx in (None, "0", "1", "3", "-1", "+2", "007", " 4 ")
             for pr in (None, 0, 2) for fm in (None, 0o644) for lim in (None, 0, 1, -1) for ctr in (False, True)]
    reqs = []
    for tr, mx, pr, fm, lim, ctr in cases:
        reqs.append(f"cliz {int(tr)} {'N' if mx is None else int(mx)} {'N' if pr is None else pr} {0o444 if fm is None else fm} "
                    f"{'N' if lim is None else lim} {int(ctr)}")
    model = drv.ask(reqs) if drv is not None else [None] * len(reqs)
    for (tr, mx, pr, fm, lim, ctr), m in zip(cases, model):
        argv = ["ns_dir"]
        if tr:
            argv.append("--pp-trim-trailing-whitespace")
        if mx is not None:
            argv.append("--pp-max-emptylines=" + mx)
        if pr is not None:
            argv += ["--pp-run-program", "true"] + ["--pp-run-program-arg=-x"] * pr
        if fm is not None:
            argv += ["--file-mode", oct(fm)]
        runner = object.__new__(ArgparseRunner)
        runner._args = parser.parse_args(argv)
        shared = runner._build_post_processor_list_from_args()
        lang = FakeLanguage(lim, ctr)
        first = CodeGenerator._handle_post_processors(lang, shared)        # DSDLCodeGenerator.__init__
        first_shown = show(first)
        second = CodeGenerator._handle_post_processors(lang, shared)       # SupportGenerator.__init__, same list object
        got = show(second)
        lines = ",".join(t for t in got.split(",") if t[0] in "TL") or "-"
        ctx.case(("cli-z", tr, mx, pr, fm, lim, ctr), True)
        ctx.count("cli_processor_lists_integer_limits")
        if m is not None:
            ctx.traces += 1
            if m != got + ";" + lines or first_shown != got:
                ctx.disagree("linebuf-cliz", {"argv": argv, "limit_empty_lines": lim, "trim_trailing_whitespace": ctr}, m, first_shown + " then " + got + ";" + lines)
        items = got.split(",")
        limits = [t for t in items if t.startswith("L")]
        want = int(mx) if mx is not None else lim
        ok = (limits == ([f"L{want}"] if want is not None else [])) and items.count("T") == (1 if (tr or ctr) else 0) \
            and items.count(f"M{0o444 if fm is None else fm}") == 1 and (pr is None) == (not any(t.startswith("P") for t in items)) \
            and (pr is None or f"P{pr}" in items) and first is second
        if not ok:
            ctx.fail({"kind": "cli-processor-list"},
                     "the processors of a CLI run are not the ones the command line (and the language configuration) ask for",
                     {"argv": argv, "limit_empty_lines": lim, "trim_trailing_whitespace": ctr, "assembled": got})
    ctx.sample({"stream": "cli-integer-limits", "request": reqs[-1], "assembled": model[-1]})


# =====================================================================================================================
# wave 7: chunk object types, the real _generate_type end to end, several languages in one process
# =====================================================================================================================

def run_chunk_types(ctx, drv):
    """The template engine hands over `str` subclasses (markupsafe.Markup under autoescape — the HTML target): the file must be
    the plain concatenation / the line-wise processed text whatever the chunks' type (no re-escaping, no type-specific `+`)."""
    from nunavut.jinja.markupsafe import Markup

    class MyStr(str):
        pass

    class Shouting(str):                      # a subclass with its own `+`, as Markup has
        def __add__(self, other):
            return Shouting(str.__add__(self, str(other).upper()))

        def __radd__(self, other):
            return Shouting(str.__add__(str(other).upper(), self))

    rng = ctx.rng
    texts = ["&lt;a&gt; \n", "x &amp; y\r\n<b>\n", "a<\n\n\n&\n", "&lt;", "<p>  \n", "q\n&quot;\r\n", "a&b \n \n \n<c>", "\n", ""]
    for _ in range(40 if ctx.quick else 600):
        texts.append("".join(rng.choices(["&", "<", ">", "&lt;", "a", " ", "\n", "\r\n", '"', "'"], k=rng.randint(2, 16))))
    wrappers = [("Markup", Markup), ("MyStr", MyStr), ("Shouting", Shouting)]
    cases = []
    for t in texts:
        L = len(t)
        for pps in ([], ["T"], ["L1"], ["T", "L1"]):
            cuts = sorted(rng.choices(range(0, L + 1), k=rng.randint(0, 3))) if L else []
            chunks = [t[a:b] for a, b in zip([0] + cuts, cuts + [L])] or [""]
            cases.append((pps, chunks))
    model = drv.ask([line(p, c) for p, c in cases]) if drv is not None else [None] * len(cases)
    for (pps, chunks), m in zip(cases, model):
        plain = impl_run(pps, chunks)
        ref = reference(pps, "".join(chunks))
        for wname, w in wrappers:
            mixed = [w(c) if (i % 2 == 0 or wname != "Markup") else c for i, c in enumerate(chunks)]
            for variant in ([w(c) for c in chunks], mixed):
                got = impl_run(pps, variant)
                ctx.case(("chunk-type", wname, tuple(pps), tuple(chunks), variant is mixed), True)
                ctx.count("chunks_of_str_subclass:" + wname)
                if m is not None:
                    ctx.traces += 1
                    if dec(m) != str(got):
                        ctx.disagree("linebuf-chunk-type", {"pps": pps, "chunks": chunks, "chunk_type": wname}, dec(m), str(got))
                if str(got) != ref or str(got) != plain:
                    ctx.fail({"kind": "chunk-type-dependence"},
                             "the written file depends on the type of the chunk objects (str subclass such as markupsafe.Markup): it is not the plain text processed line by line",
                             {"pps": pps, "chunks": chunks, "chunk_type": wname, "output": str(got), "plain_str_output": plain, "expected": ref})
                    break
    ctx.sample({"stream": "chunk-types", "pps": cases[1][0], "chunks": cases[1][1], "types": [w for w, _ in wrappers]})


_E2E_TEMPLATES = ["a", "a\n", "a \n\n\n\nb\t", "// {{ T.short_name }}  \r\n\r\n\r\nend", "{% if true -%}\nx \n{%- endif %}", "line \n{% for i in range(3) %}\n{% endfor %}tail",
                  "{{ T.full_name }}\n", "\n\n\n", "x\r", "{% if true %}y{% endif -%}\n"]


def run_generate_type(ctx, drv):
    """End to end through the real DSDLCodeGenerator.generate_all / _generate_type with USER templates (also ones whose output has
    no final newline): the file is the template's text (no processor) resp. that text processed line by line — nothing is added."""
    import pydsdl
    import nunavut
    import nunavut.jinja
    from nunavut.lang import LanguageContextBuilder
    scratch = ctx.scratch / "gentype"
    (scratch / "dsdl" / "demo").mkdir(parents=True, exist_ok=True)
    (scratch / "dsdl" / "demo" / "Thing.1.0.dsdl").write_text("uint8 value\n@sealed\n")
    types = pydsdl.read_namespace(str(scratch / "dsdl" / "demo"), [])
    cases = [(k, src, pps) for k, src in enumerate(_E2E_TEMPLATES) for pps in ([], ["T"], ["L1"], ["T", "L1"])]
    done = []
    for k, src, pps in cases:
        tdir = scratch / f"tpl{k}"
        tdir.mkdir(exist_ok=True)
        _write(tdir / "StructureType.j2", src)
        out = scratch / f"out{k}_{'_'.join(pps) or 'none'}"
        lctx = LanguageContextBuilder(include_experimental_languages=True).set_target_language("cpp").create()   # cpp: no configured processors
        ns = nunavut.build_namespace_tree(types, str(scratch / "dsdl" / "demo"), str(out), lctx)
        gen = nunavut.jinja.DSDLCodeGenerator(ns, templates_dir=tdir, post_processors=[_mk(p) for p in pps])
        chunks = [str(c) for c in gen._env.get_template("StructureType.j2").generate(T=types[0])]
        gen.generate_all(False, True)
        files = [f for f in out.rglob("Thing_1_0.*") if f.is_file()]
        got = _read(files[0]) if len(files) == 1 else None
        done.append((src, pps, chunks, got))
    model = drv.ask([line(p, c or [""]) for _, p, c, _ in done]) if drv is not None else [None] * len(done)
    for (src, pps, chunks, got), m in zip(done, model):
        text = "".join(chunks)
        ref = reference(pps, text)
        ctx.case(("generate-type", src, tuple(pps)), True)
        ctx.count("real_generate_type_runs")
        if m is not None:
            ctx.traces += 1
            if got is None or dec(m) != got:
                ctx.disagree("linebuf-generate-type", {"template": src, "pps": pps, "chunks": chunks}, dec(m), got)
        if got != ref:
            ctx.fail({"kind": "identity" if not pps else "not-linewise", "via": "generate_all"},
                     "DSDLCodeGenerator.generate_all: the generated file is not the template's output (processed line by line by the run's processors)",
                     {"template": src, "pps": pps, "chunks": chunks, "output": got, "expected": ref, "via": "DSDLCodeGenerator.generate_all(cpp, user template)"})
    ctx.sample({"stream": "generate-type", "template": done[2][0], "pps": done[2][1], "output": done[2][3]})


def run_language_sequences(ctx, drv=None):
    """Several generate_types() calls for different languages in ONE process: the processors each run uses are the ones ITS
    language configuration asks for (what `assemble` gives for that run alone) — nothing carried over from an earlier run;
    the files of the last run equal those of the same run in a fresh process."""
    import subprocess
    import nunavut
    import nunavut._generators as gens
    import nunavut._postprocessors as npp
    from nunavut.lang import LanguageContextBuilder
    scratch = ctx.scratch / "langseq"
    (scratch / "dsdl" / "demo").mkdir(parents=True, exist_ok=True)
    (scratch / "dsdl" / "demo" / "Thing.1.0.dsdl").write_text("uint8 value\n@sealed\n")
    root = scratch / "dsdl" / "demo"

    def show(objs):
        if objs is None:
            return "N"
        return ",".join("T" if isinstance(o, npp.TrimTrailingWhitespace) else f"L{o._max_empty_lines}" if isinstance(o, npp.LimitEmptyLines) else "O9" for o in objs) or "-"

    def expected(name):
        lang = LanguageContextBuilder(include_experimental_languages=True).set_target_language(name).create().get_target_language()
        try:
            lim = int(lang.get_config_value("limit_empty_lines"))
        except KeyError:
            lim = None
        tr = bool(lang.get_config_value_as_bool("trim_trailing_whitespace"))
        items = ([f"L{lim}"] if lim is not None else []) + (["T"] if tr else [])
        return ",".join(items) if items else "N"

    def tree(d):
        return {str(f.relative_to(d)): f.read_bytes() for f in sorted(d.rglob("*")) if f.is_file()}

    seen = []
    original = gens.create_default_generators

    def spy(namespace, *a, **kw):
        g, sg = original(namespace, *a, **kw)
        seen.append((show(g._post_processors), show(sg._post_processors)))
        return g, sg

    # the reference for the files: the last language of each sequence generated alone by a fresh interpreter
    fresh = {}
    def fresh_tree(name):
        if name not in fresh:
            out = scratch / f"fresh_{name}"
            code = f"import nunavut, pathlib; nunavut.generate_types({name!r}, pathlib.Path({str(root)!r}), pathlib.Path({str(out)!r}), omit_serialization_support=True, include_experimental_languages=True)"
            p = subprocess.run([common.PY, "-c", code], env=dict(__import__("os").environ, PYTHONPATH=str(common.REPO / "src")), capture_output=True, text=True, timeout=300)
            fresh[name] = tree(out) if p.returncode == 0 else None
        return fresh[name]

    sequences = [["c", "cpp"], ["py", "cpp", "c"], ["cpp", "c", "cpp"]] if ctx.quick else [["c", "cpp"], ["py", "cpp", "c"], ["cpp", "c", "cpp"], ["c", "py", "cpp", "html"], ["cpp", "cpp"]]
    gens.create_default_generators = spy
    try:
        for si, seq in enumerate(sequences):
            for k, name in enumerate(seq):
                out = scratch / f"seq{si}_{k}_{name}"
                del seen[:]
                nunavut.generate_types(name, root, out, omit_serialization_support=True, include_experimental_languages=True)
                ctx.case(("language-sequence", si, k, name), True)
                ctx.count("generate_types_runs_in_one_process")
                want = expected(name)
                got = seen[-1] if seen else ("?", "?")
                if got != (want, want):
                    ctx.fail({"kind": "processors-carried-between-runs"},
                             "generate_types: the post-processors of a run are not the ones its own language configuration asks for (carried over from an earlier run in the same process)",
                             {"sequence": seq, "run_index": k, "language": name, "processors_of_code_and_support_generator": list(got), "expected": want})
                    break
                if k == len(seq) - 1:
                    ref = fresh_tree(name)
                    if ref is not None and tree(out) != ref:
                        bad = sorted(f for f in set(ref) | set(tree(out)) if ref.get(f) != tree(out).get(f))
                        ctx.fail({"kind": "processors-carried-between-runs"},
                                 "generate_types: the files of a run differ from those of the same run in a fresh process",
                                 {"sequence": seq, "run_index": k, "language": name, "differing_files": bad[:5]})
    finally:
        gens.create_default_generators = original


def replay(ctx, path):
    r = json.loads(open(path).read())
    rp = r.get("replay", {})
    if "runs" in rp and "resource" in rp:
        results, final = impl_copy_history(rp["resource"], rp.get("initial"), [tuple(x) for x in rp["runs"]], ctx.scratch)
        k = rp.get("run_index", len(results) - 1)
        exp = reference(rp["runs"][k][0], rp["resource"])
        print(json.dumps({"results": results, "run_index": k, "expected": exp}))
        ctx.cleanup()
        return 0 if results[k] == exp else 1
    if "pps" in rp and "chunks" in rp and ("via" in rp or "chunk_type" in rp):
        print(json.dumps({"note": "re-run ./check C15: the stream that produced this record re-executes the real generator", "record": rp})[:2000])
        return 1
    if "pps" in rp and "chunks" in rp:
        got = impl_run(rp["pps"], rp["chunks"])
        one = impl_run(rp["pps"], ["".join(rp["chunks"])])
        ref = reference(rp["pps"], "".join(rp["chunks"]))
        print(json.dumps({"output": got, "single_chunk": one, "reference": ref}))
        return 1 if (got != one or got != ref) else 0
    print("nothing to replay (no failing input in the file)")
    return 1
