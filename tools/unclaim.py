#!/usr/bin/env python3
"""unclaim.py Cxx "reason": move a check from checks to not_applicable in tools/manifest_src.json (entry kept under 'parked')."""
import json, sys, pathlib
here = pathlib.Path(__file__).resolve().parent.parent
p = here / "tools" / "manifest_src.json"
m = json.load(open(p))
pid, reason = sys.argv[1], sys.argv[2]
ent = [c for c in m["checks"] if c["property_id"] == pid]
m["checks"] = [c for c in m["checks"] if c["property_id"] != pid]
m.setdefault("parked", {})
if ent: m["parked"][pid] = ent[0]
m["not_applicable"] = [n for n in m["not_applicable"] if n["property_id"] != pid] + [{"property_id": pid, "reason": reason}]
m["not_applicable"].sort(key=lambda n: n["property_id"])
json.dump(m, open(p, "w"), indent=1)
print("claimed:", [c["property_id"] for c in m["checks"]])
