#!/usr/bin/env python3
"""Regenerate the seeded-change table (DESIGN.md §10.3, between the markers) from seeded/*/meta.json + result.json."""
import json, pathlib, re
here = pathlib.Path(__file__).resolve().parent.parent
rows = []
def key(d):
    m = re.match(r"C(\d+)-(\d+)", d.name); return (int(m.group(1)), int(m.group(2)))
for d in sorted([x for x in (here / "seeded").iterdir() if x.is_dir()], key=key):
    try:
        meta = json.loads((d / "meta.json").read_text())
    except Exception:
        continue
    res = json.loads((d / "result.json").read_text()) if (d / "result.json").exists() else {}
    if not res:
        verdict = "not run"
    elif not res.get("applies"):
        verdict = "does not apply to HEAD"
    elif res.get("caught") and res.get("with_failing_input"):
        verdict = "caught, failing input"
    elif res.get("caught"):
        verdict = "caught, no-failing-input-found"
    else:
        verdict = "MISSED"
    summ = " ".join(str(meta.get("summary", "")).split())
    if len(summ) > 210:
        summ = summ[:207] + "..."
    summ = summ.replace("|", "\\|")
    port = " (ported)" if "ported_from" in meta else ""
    rows.append(f"| {d.name}{port} | {summ} | {verdict} |")
tbl = "| id | change (tester's summary) | result of `./check` (quick) |\n|---|---|---|\n" + "\n".join(rows) + "\n"
n = len(rows); c = sum("caught, failing" in r for r in rows); b = sum("no-failing-input-found" in r for r in rows); m = sum("MISSED" in r for r in rows)
head = f"{n} seeded changes: {c} caught with a concrete failing input, {b} caught as a broken obligation without a failing input, {m} missed, {n-c-b-m} other.\n\n"
p = here / "DESIGN.md"
s = p.read_text()
a, z = "<!-- SEEDED-TABLE-BEGIN -->", "<!-- SEEDED-TABLE-END -->"
if a not in s:
    s += f"\n### 10.3 Seeded changes (written by independent sub-agents from the property text only) and what the checks say\n\n{a}\n{z}\n"
s = s[: s.index(a) + len(a)] + "\n" + head + tbl + s[s.index(z):]
p.write_text(s)
print(head.strip())
