#!/venv/bin/python
"""Run the pinned suite of the repository (guard off) and compare the passing set with /root/.vp/BASELINE.json.
usage: baseline.py [repo-dir]   exit 0 iff every stable_pass test still passes."""
import json, os, subprocess, sys, tempfile, xml.etree.ElementTree as ET
repo = sys.argv[1] if len(sys.argv) > 1 else "/repo"
base = json.load(open("/root/.vp/BASELINE.json"))
env = dict(os.environ); env.pop("NUNAVUT_VERIF", None); env["PYTHONDONTWRITEBYTECODE"] = "1"; env["PYTHONPATH"] = os.path.join(os.path.abspath(repo), "src")
with tempfile.TemporaryDirectory() as d:
    x = os.path.join(d, "j.xml")
    subprocess.run(["/venv/bin/python", "-m", "pytest", "-ra", "-q", "-p", "no:cacheprovider", "--timeout=900",
                    "--continue-on-collection-errors", f"--junitxml={x}"], cwd=repo, env=env, capture_output=True)
    passed = set()
    for tc in ET.parse(x).getroot().iter("testcase"):
        ok = not any(c.tag in ("failure", "error", "skipped") for c in tc)
        if ok:
            passed.add(f"{tc.get('classname')}::{tc.get('name')}")
missing = [t for t in base["stable_pass"] if t not in passed]
print(f"passed={len(passed)} baseline={len(base['stable_pass'])} missing={len(missing)}")
for m in missing[:30]:
    print("  MISSING", m)
sys.exit(1 if missing else 0)
