#!/usr/bin/env python3
"""ms_append.py <entry.json with text_append/note_append/technique_append/add_lean_modules/add_exes>..."""
import json, sys, subprocess, pathlib
here = pathlib.Path(__file__).resolve().parent
p = here / "manifest_src.json"
d = json.load(open(p))
for f in sys.argv[1:]:
    e = json.load(open(f))
    c = next(x for x in d["checks"] if x["property_id"] == e["property_id"])
    for k in ("text", "note", "technique"):
        a = e.get(k + "_append")
        if a and a not in c[k]:
            c[k] = c[k] + (" || " if k != "technique" else " + ") + a
    for k, kk in (("lean_modules", "add_lean_modules"), ("exes", "add_exes")):
        for v in e.get(kk, []):
            if v not in c[k]: c[k].append(v)
json.dump(d, open(p, "w"), indent=1, ensure_ascii=False); open(p, "a").write("\n")
subprocess.run([str(here / "gen_manifest.py")], check=True)
