#!/usr/bin/env python3
"""ms_entry.py <path to manifest_entry.json>...: replace text/note/technique (and union lean_modules/exes) of that property in manifest_src.json, regenerate."""
import json, sys, subprocess, pathlib
here = pathlib.Path(__file__).resolve().parent
p = here / "manifest_src.json"
d = json.load(open(p))
for f in sys.argv[1:]:
    e = json.load(open(f))
    c = next(x for x in d["checks"] if x["property_id"] == e["property_id"])
    for k in ("text", "note", "technique"):
        if e.get(k): c[k] = e[k]
    for k in ("lean_modules", "exes"):
        for v in e.get(k, []):
            if v not in c[k]: c[k].append(v)
json.dump(d, open(p, "w"), indent=1, ensure_ascii=False); open(p, "a").write("\n")
subprocess.run([str(here / "gen_manifest.py")], check=True)
