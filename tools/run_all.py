#!/usr/bin/env python3
"""Run every claimed check (quick or given tier) against /repo and summarise. usage: run_all.py [tier] [seed] [ids...]"""
import json, subprocess, sys, time, pathlib, os
here = pathlib.Path(__file__).resolve().parent.parent
tier = sys.argv[1] if len(sys.argv) > 1 else "quick"
seed = sys.argv[2] if len(sys.argv) > 2 else "0"
only = sys.argv[3:]
m = json.load(open(here / "MANIFEST.json"))
bad = 0
for c in m["checks"]:
    pid = c["property_id"]
    if only and pid not in only:
        continue
    t0 = time.time()
    p = subprocess.run([str(here / "check"), pid, "--tier", tier, "--seed", seed], capture_output=True, text=True, cwd=here)
    viol = [l for l in p.stdout.splitlines() if l.startswith("VIOLATION")]
    known = [l for l in p.stdout.splitlines() if l.startswith("KNOWN-FINDING")]
    last = p.stdout.strip().splitlines()[-1] if p.stdout.strip() else p.stderr[-300:]
    print(f"{pid} rc={p.returncode} viol={len(viol)} known={len(known)} {time.time()-t0:.0f}s | {last[:200]}", flush=True)
    bad += p.returncode != 0
sys.exit(1 if bad else 0)
