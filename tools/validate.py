#!/opt/veriftools/pyvenv/bin/python
"""Validate MANIFEST.json and every evidence file against the schemas."""
import json, jsonschema, pathlib, sys
here = pathlib.Path(__file__).resolve().parent.parent
ok = True
m = json.load(open(here / "MANIFEST.json"))
jsonschema.validate(m, json.load(open("/root/.vp/MANIFEST.schema.json")))
props = [json.loads(l)["id"] for l in open(here / "properties.jsonl")]
claimed = [c["property_id"] for c in m["checks"]]
na = [n["property_id"] for n in m.get("not_applicable", [])]
assert sorted(claimed + na) == sorted(props), (claimed, na)
es = json.load(open("/root/.vp/EVIDENCE.schema.json"))
for c in m["checks"]:
    f = here / c["evidence_file"]
    if not f.exists():
        print("missing evidence", f); ok = False; continue
    e = json.load(open(f))
    jsonschema.validate(e, es)
    cov = e["coverage"]
    if cov["obligations"] != cov["discharged"]:
        print("undischarged", f); ok = False
print("valid" if ok else "INVALID")
sys.exit(0 if ok else 1)
