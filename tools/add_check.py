#!/usr/bin/env python3
"""add_check.py <json-file>: add/replace a check entry in tools/manifest_src.json and drop it from not_applicable."""
import json, sys, pathlib
here = pathlib.Path(__file__).resolve().parent.parent
e = json.load(open(sys.argv[1]))
p = here / "tools" / "manifest_src.json"
m = json.load(open(p))
m["checks"] = [c for c in m["checks"] if c["property_id"] != e["property_id"]] + [e]
m["checks"].sort(key=lambda c: c["property_id"])
m["not_applicable"] = [n for n in m["not_applicable"] if n["property_id"] != e["property_id"]]
json.dump(m, open(p, "w"), indent=1)
print("claimed:", [c["property_id"] for c in m["checks"]])
