#!/bin/sh
# collect_mut.sh C13 [offset]: move /tmp/mut_out/C13/{1,2,3} to /verif/seeded/C13-{1+offset,...} and drop the worktree.
# ONLY call after the tester agent has reported completion.
p=$1; off=${2:-0}; l=$(echo $p | tr 'A-Z' 'a-z')
for i in 1 2 3 4 5; do
  [ -f /tmp/mut_out/$p/$i/patch.diff ] || continue
  n=$((i+off))
  mkdir -p /verif/seeded/$p-$n
  cp /tmp/mut_out/$p/$i/patch.diff /tmp/mut_out/$p/$i/meta.json /verif/seeded/$p-$n/
  cp /tmp/mut_out/$p/$i/demo* /verif/seeded/$p-$n/ 2>/dev/null
done
git -C /repo worktree remove --force /tmp/mut_$l 2>/dev/null
rm -rf /tmp/mut_out/$p /tmp/mut_$l
ls -d /verif/seeded/$p-* | tr '\n' ' '
