#!/bin/sh
# collect_mut.sh C13 : move /tmp/mut_out/C13/{1,2,3} to /verif/seeded/C13-{1,2,3} and drop the worktree
p=$1; l=$(echo $p | tr 'A-Z' 'a-z')
for i in 1 2 3 4 5; do
  [ -f /tmp/mut_out/$p/$i/patch.diff ] || continue
  mkdir -p /verif/seeded/$p-$i
  cp /tmp/mut_out/$p/$i/patch.diff /tmp/mut_out/$p/$i/meta.json /verif/seeded/$p-$i/
  cp /tmp/mut_out/$p/$i/demo* /verif/seeded/$p-$i/ 2>/dev/null
done
git -C /repo worktree remove --force /tmp/mut_$l 2>/dev/null
rm -rf /tmp/mut_out/$p /tmp/mut_$l
ls -d /verif/seeded/$p-*
