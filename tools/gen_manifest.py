#!/venv/bin/python
"""Regenerate MANIFEST.json from tools/manifest_src.json (keeps the boilerplate in one place)."""
import json, pathlib
here = pathlib.Path(__file__).resolve().parent.parent
src = json.loads((here / "tools" / "manifest_src.json").read_text())
checks = []
for c in src["checks"]:
    pid = c["property_id"]
    checks.append({
        "property_id": pid,
        "quick_cmd": f"./check {pid} --tier quick",
        "thorough_cmd": f"./check {pid} --tier thorough",
        "evidence_file": f"evidence/{pid}.json",
        "replay_cmd_template": f"./check {pid} --replay {{path}}",
        "engine": "lean4-proof+correspondence",
        "level_claimed": {"category": "proof", "text": c["text"], "design_ref": c.get("design_ref", "DESIGN.md §4 " + pid)},
        "level_note": c["note"],
        "technique": c["technique"],
    })
m = {
    "version": 1,
    "setup_cmd": "./setup.sh",
    "hooks": src["hooks"],
    "engines": [{"name": "lean4-proof+correspondence", "path": "lean/ + harness/ + translate/ + check",
                 "serves_properties": [c["property_id"] for c in src["checks"]],
                 "kind_free_text": "Lean 4 models and theorems (lake build + #print axioms audit), tied to /repo on every run by translators that regenerate model tables from the source and by correspondence harnesses that run the compiled Lean model and the real implementation on the same inputs"}],
    "checks": checks,
    "notes": src.get("notes", ""),
    "not_applicable": src["not_applicable"],
}
targets = []
for c in src["checks"]:
    for t in c.get("lean_modules", []) + c.get("exes", []):
        if t not in targets:
            targets.append(t)
(here / "lean" / "targets.txt").write_text("\n".join(targets) + "\n")
(here / "MANIFEST.json").write_text(json.dumps(m, indent=1) + "\n")
print("checks:", [c["property_id"] for c in checks], "n/a:", [n["property_id"] for n in m["not_applicable"]])
