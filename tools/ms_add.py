#!/usr/bin/env python3
"""ms_add.py Cxx [--module M]... [--exe E]... : add Lean modules / driver exes to a property in manifest_src.json, then regenerate."""
import json, sys, subprocess, pathlib
here = pathlib.Path(__file__).resolve().parent
p = here / "manifest_src.json"
d = json.load(open(p))
pid = sys.argv[1]; a = sys.argv[2:]
c = next(x for x in d["checks"] if x["property_id"] == pid)
i = 0
while i < len(a):
    k, v = a[i], a[i + 1]; i += 2
    lst = c["lean_modules"] if k == "--module" else c["exes"]
    if v not in lst: lst.append(v)
json.dump(d, open(p, "w"), indent=1, ensure_ascii=False); open(p, "a").write("\n")
subprocess.run([str(here / "gen_manifest.py")], check=True)
