#!/venv/bin/python
"""
Validate the checks against the seeded breaking changes in /verif/seeded/<id>/ (patch.diff, demo.*, meta.json).
For each: scratch worktree of /repo HEAD -> apply patch -> (optionally) pinned suite -> demo must fail ->
`VERIF_REPO=<wt> ./check <prop>` must exit 1 with a VIOLATION line; then the worktree is removed.
usage: run_seeded.py [--suite] [--tier quick|thorough] [id ...]
"""
import json, os, pathlib, subprocess, sys, shutil, time
here = pathlib.Path(__file__).resolve().parent.parent
args = sys.argv[1:]
suite = "--suite" in args
tier = "quick"
if "--tier" in args:
    tier = args[args.index("--tier") + 1]
ids = [a for a in args if not a.startswith("--") and a not in ("quick", "thorough")]
rows = []
for d in sorted((here / "seeded").iterdir()):
    if not d.is_dir() or (ids and d.name not in ids):
        continue
    meta = json.loads((d / "meta.json").read_text())
    prop = meta["property"]
    wt = pathlib.Path(f"/tmp/seed_wt_{d.name}")
    subprocess.run(["git", "-C", "/repo", "worktree", "remove", "--force", str(wt)], capture_output=True)
    subprocess.run(["git", "-C", "/repo", "worktree", "add", "-q", str(wt), "HEAD"], check=True)
    res = {"id": d.name, "property": prop}
    gen = here / "lean" / "NunavutVerif" / "Gen"
    saved = {f: f.read_bytes() for f in gen.glob("*.lean")}   # translators will rewrite these from the changed tree
    try:
        p = subprocess.run(["git", "-C", str(wt), "apply", str(d / "patch.diff")], capture_output=True, text=True)
        res["applies"] = p.returncode == 0
        if p.returncode != 0:
            res["apply_err"] = p.stderr[-300:]
        else:
            env = dict(os.environ, PYTHONPATH=str(wt / "src"), VERIF_REPO=str(wt), PYTHONDONTWRITEBYTECODE="1",
                       VERIF_EVIDENCE_DIR=f"/tmp/seed_ev_{d.name}", VERIF_REPLAY_DIR=str(d / "replays"))
            if suite:
                q = subprocess.run([str(here / "tools" / "baseline.py"), str(wt)], capture_output=True, text=True)
                res["suite_ok"] = q.returncode == 0
                res["suite"] = q.stdout.strip().splitlines()[0] if q.stdout else ""
            demos = sorted(d.glob("demo*"))
            if demos:
                dm = demos[0]
                cmd = ["/venv/bin/python", str(dm)] if dm.suffix == ".py" else ["sh", str(dm)]
                q = subprocess.run(cmd, capture_output=True, text=True, env=env, cwd=str(wt), timeout=900)
                res["demo_fails_with_patch"] = q.returncode != 0
            t0 = time.time()
            q = subprocess.run([str(here / "check"), prop, "--tier", tier], capture_output=True, text=True, env=env, cwd=str(here), timeout=7200)
            res["check_rc"] = q.returncode
            res["check_wall_s"] = round(time.time() - t0, 1)
            res["violation_lines"] = [l for l in q.stdout.splitlines() if l.startswith("VIOLATION")][:5]
            res["caught"] = q.returncode == 1 and bool(res["violation_lines"])
            res["with_failing_input"] = any("no-failing-input-found" not in l for l in res["violation_lines"])
            shutil.rmtree(f"/tmp/seed_ev_{d.name}", ignore_errors=True)
    finally:
        for f in list(gen.glob("*.lean")):
            if f not in saved:
                f.unlink()
        for f, b in saved.items():
            if not f.exists() or f.read_bytes() != b:
                f.write_bytes(b)
        subprocess.run(["git", "-C", "/repo", "worktree", "remove", "--force", str(wt)], capture_output=True)
        shutil.rmtree(wt, ignore_errors=True)
    (d / "result.json").write_text(json.dumps(res, indent=1) + "\n")
    rows.append(res)
    print(json.dumps(res))
# evidence of the default tree is overwritten by these runs; the caller re-runs the real check afterwards
