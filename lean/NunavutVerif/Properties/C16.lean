import NunavutVerif.Lemmas.Resolve
import NunavutVerif.Lemmas.ResolveDirs
import NunavutVerif.Lemmas.EnvCtor
/-!
# C16 — template resolution and environment contract

Property theorems only (definitions in `Model/Resolve.lean`, helper lemmas in `Lemmas/Resolve.lean`, the
PyDSDL class table in `Gen/PydsdlClasses.lean`, regenerated on every run).

Quantifiers.  Part 1: every hierarchy `H` (classes, `__bases__`, `__name__` arbitrary functions) that is
single-inheritance and ranked (= acyclic), every pair of template sets (each loader present or absent), every
cache reachable by any sequence of earlier look-ups with any fuel, every class, every sufficient fuel.
Parts 2 and 4: the generated PyDSDL table, by `decide` over the whole table.  Part 3: every list of user
directories, every package content, every template name.  Part 5: every configuration of built-in names,
every list of user globals / filters / tests.  Part 6 (round 2): every ORDERED LIST of user directories (each an
arbitrary name ↦ content store), every package, hierarchy, cache, class — `Model/ResolveDirs.lean` models
`FileSystemLoader.list_templates` (union of ALL search paths, `sorted(set(·))`), `get_source` (first hit),
`DSDLTemplateLoader.get_templates` (glob under every search path).  Part 7: every loader configuration (any boolean
attributes of the loader object), every constructor argument, every additional_* map, each of the three ways an
environment is constructed — `Model/EnvCtor.lean` interprets the statement list and the right-hand side of
`_allow_replacements` REGENERATED from the source (`Gen/EnvCtor.lean`).  Part 8: the instance tests of the finished
environment of every target language (regenerated), by `decide` over the whole tables.

Which names of the environment are protected against additional filters / tests / globals, and by what
(all four mechanisms are in `construct`; theorem 22 `C16_user_additions_never_replace_builtins` covers them together):
  (a) RESERVED_GLOBAL_NAMESPACES / _NAMES: explicit check in the `additional_globals` loop — raise, any allow flag
      (`C16_reserved_global_raises`); their values are (re)installed after the loop anyway;
  (b) names present when the user's items are added — Jinja's default globals, filters and tests; the filters and
      tests of the language support (`ln.<lang>.<x>` for every supported language, `<x>` for the target) and of the
      environment itself, all installed BEFORE the user's filters/tests: `_add_to_environment` finds the name —
      raise unless the allow flag is set (`C16_colliding_filter_or_test_raises`, `C16_colliding_global_raises`);
  (c) names installed AFTER the user's globals by unconditional assignment — the target language's globals
      (`globals.update(target_language.get_globals())`), the reserved namespace objects, `now_utc`: the built-in
      value overwrites the user's, with or without the allow flag; no error, but the built-in is never replaced
      (`C16_language_and_reserved_globals_installed_last`);
  (d) names installed after `create()` through `_add_to_environment` — instance tests, the generator's own
      `filter_*` / `is_*` methods: the installation finds the user's item and raises unless the allow flag is set.

`lookup`, `construct` describe the code with the two repairs proposed by this check; `lookupBeforeFix`,
`constructBeforeFix` the code before them, with the violated statements refuted by concrete witnesses.
-/
namespace NunavutVerif.Resolve

/-! ## 1. `type_to_template` -/

/-- T1: with any reachable cache and enough fuel the look-up terminates and returns the template named after
the nearest class of the inheritance chain (self first) that has a template in either set; at that class the
user's (file-system) template shadows the built-in (package) one (`mfind`).  The cache it leaves is again
reachable. -/
theorem C16_lookup_nearest {H : Hier} {rank : Cls → Nat} (hS : SingleInheritance H) (hR : RankedBy H rank)
    (fs pkg : Option Templates) {cache : Cache} (hc : Reachable H fs pkg cache) (c : Cls) (fuel : Nat)
    (hf : rank c < fuel) :
    ∃ cache', lookup H fuel cache fs pkg c = some (nearestAncestor H (mfind fs pkg) rank c, cache') ∧
      Reachable H fs pkg cache' := by
  have hC := reachable_cacheOk hS hR fs pkg hc
  rw [← tfind_merged_fun] at hC ⊢
  rcases bfs_spec hS hR (merged fs pkg) fuel cache c [] hC (by simp) with ⟨_, h2⟩ | ⟨cache', h1, _⟩
  · omega
  · exact ⟨cache', h1, Reachable.step hc h1⟩

/-- T1 (any fuel): whenever a look-up returns at all, it returns the specified template. -/
theorem C16_lookup_sound {H : Hier} {rank : Cls → Nat} (hS : SingleInheritance H) (hR : RankedBy H rank)
    (fs pkg : Option Templates) {cache : Cache} (hc : Reachable H fs pkg cache) (c : Cls) (fuel : Nat)
    (r : Option Path) (cache' : Cache) (h : lookup H fuel cache fs pkg c = some (r, cache')) :
    r = nearestAncestor H (mfind fs pkg) rank c := by
  have hC := reachable_cacheOk hS hR fs pkg hc
  rw [← tfind_merged_fun] at hC ⊢
  rcases bfs_spec hS hR (merged fs pkg) fuel cache c [] hC (by simp) with ⟨h1, _⟩ | ⟨cache'', h1, _⟩
  · unfold lookup at h; rw [h1] at h; cases h
  · unfold lookup at h; rw [h1] at h; cases h; rfl

/-- T1 (independent of earlier look-ups): two loader objects with the same template sets, whatever was
looked up on each before, give the same template for the same class. -/
theorem C16_lookup_independent_of_history {H : Hier} {rank : Cls → Nat} (hS : SingleInheritance H)
    (hR : RankedBy H rank) (fs pkg : Option Templates) {cache₁ cache₂ : Cache}
    (h₁ : Reachable H fs pkg cache₁) (h₂ : Reachable H fs pkg cache₂) (c : Cls) (f₁ f₂ : Nat)
    (r₁ r₂ : Option Path) (c₁ c₂ : Cache)
    (e₁ : lookup H f₁ cache₁ fs pkg c = some (r₁, c₁)) (e₂ : lookup H f₂ cache₂ fs pkg c = some (r₂, c₂)) :
    r₁ = r₂ := by
  rw [C16_lookup_sound hS hR fs pkg h₁ c f₁ r₁ c₁ e₁, C16_lookup_sound hS hR fs pkg h₂ c f₂ r₂ c₂ e₂]

/-- T1 (independent of enumeration order): when no two listed templates of a set share a stem, permuting the
listings changes nothing. -/
theorem C16_lookup_order_independent (H : Hier) (rank : Cls → Nat) (fs fs' pkg pkg' : Templates)
    (hfs : fs.Perm fs') (hpkg : pkg.Perm pkg') (ufs : (fs.map Prod.fst).Nodup) (upkg : (pkg.map Prod.fst).Nodup)
    (c : Cls) :
    nearestAncestor H (mfind (some fs) (some pkg)) rank c = nearestAncestor H (mfind (some fs') (some pkg')) rank c := by
  have : mfind (some fs) (some pkg) = mfind (some fs') (some pkg') := by
    funext n
    simp only [mfind, Option.bind]
    rw [tfind_perm hfs ufs n, tfind_perm hpkg upkg n]
  rw [this]

/-- T1 (precedence): a class that has a user template resolves to it, whatever the built-in set contains. -/
theorem C16_user_template_shadows_builtin {H : Hier} {rank : Cls → Nat} (hS : SingleInheritance H)
    (hR : RankedBy H rank) (fs : Templates) (pkg : Option Templates) {cache : Cache}
    (hc : Reachable H (some fs) pkg cache) (c : Cls) (p : Path) (hp : tfind fs (H.name c) = some p)
    (fuel : Nat) (hf : rank c < fuel) :
    ∃ cache', lookup H fuel cache (some fs) pkg c = some (some p, cache') := by
  obtain ⟨cache', h, _⟩ := C16_lookup_nearest hS hR (some fs) pkg hc c fuel hf
  refine ⟨cache', ?_⟩
  rw [h, nearestAncestor_step hR]
  simp [mfind, Option.bind, hp]

/-- T1 (a class without a template of its own resolves like its base; a root without one has none). -/
theorem C16_lookup_falls_back_to_base {H : Hier} {rank : Cls → Nat} (hR : RankedBy H rank)
    (fs pkg : Option Templates) (c : Cls) (h : mfind fs pkg (H.name c) = none) :
    nearestAncestor H (mfind fs pkg) rank c =
      match H.bases c with
      | [] => none
      | b :: _ => nearestAncestor H (mfind fs pkg) rank b := by
  rw [nearestAncestor_step hR, h]
  rfl

/-- The code before the repair is the same function whenever only one loader exists — which is what
`DSDLCodeGenerator` (search policy FIND_FIRST) always constructs. -/
theorem C16_beforeFix_single_loader (H : Hier) (fuel : Nat) (cache : Cache) (t : Templates) (c : Cls) :
    lookupBeforeFix H fuel cache (some t) none c = lookup H fuel cache (some t) none c ∧
    lookupBeforeFix H fuel cache none (some t) c = lookup H fuel cache none (some t) c :=
  ⟨lookupBeforeFix_fs_only H fuel cache t c, lookupBeforeFix_pkg_only H fuel cache t c⟩

/-! ### Witnesses against the code before the repair (both loaders present) -/

/-- Three classes `A ← B ← C` (0, 1, 2). -/
def exH : Hier where
  bases c := if c = 2 then [1] else if c = 1 then [0] else []
  name c := if c = 0 then ['A'] else if c = 1 then ['B'] else ['C']

example : SingleInheritance exH := by
  intro c; unfold exH; dsimp only; split
  · simp
  · split <;> simp

example : RankedBy exH id := by
  intro c b hb
  unfold exH at hb
  dsimp only at hb
  split at hb
  · simp at hb; subst hb; subst_vars; decide
  · split at hb
    · simp at hb; subst hb; subst_vars; decide
    · simp at hb

/-- Dependence on earlier look-ups: built-in templates for `B` and `C`, an empty user directory.  Cold, `C`
resolves to `C.j2`; after a look-up of `B` it resolves to `B.j2`. -/
example :
    let pkg : Templates := [(['B'], "B.j2".toList), (['C'], "C.j2".toList)]
    (lookupBeforeFix exH 9 [] (some []) (some pkg) 2).map (·.1) = some (some "C.j2".toList) ∧
    ((lookupBeforeFix exH 9 [] (some []) (some pkg) 1).bind fun r =>
        (lookupBeforeFix exH 9 r.2 (some []) (some pkg) 2).map (·.1)) = some (some "B.j2".toList) ∧
    (lookup exH 9 [] (some []) (some pkg) 2).map (·.1) = some (some "C.j2".toList) ∧
    ((lookup exH 9 [] (some []) (some pkg) 1).bind fun r =>
        (lookup exH 9 r.2 (some []) (some pkg) 2).map (·.1)) = some (some "C.j2".toList) := by
  decide

/-- Not the nearest class: a user template for the far ancestor `A`, a built-in one for `C` itself.  Before
the repair `C` resolved to the user's `A.j2`; now to `C.j2`. -/
example :
    let fs : Templates := [(['A'], "usr/A.j2".toList)]
    let pkg : Templates := [(['C'], "C.j2".toList)]
    (lookupBeforeFix exH 9 [] (some fs) (some pkg) 2).map (·.1) = some (some "usr/A.j2".toList) ∧
    (lookup exH 9 [] (some fs) (some pkg) 2).map (·.1) = some (some "C.j2".toList) ∧
    nearestAncestor exH (mfind (some fs) (some pkg)) id 2 = some "C.j2".toList := by
  decide

/-! ## 2. The PyDSDL hierarchy (generated table) -/

/-- The hierarchy the loader walks for PyDSDL objects: class = row of the generated table. -/
def pydsdlHier : Hier := Hier.ofTable genTable genStops

/-- The table is well formed: names are unique and every base is a row. -/
theorem C16_pydsdl_table_wellformed :
    (genTable.map Prod.fst).Nodup ∧ ∀ e ∈ genTable, ∀ b ∈ e.2, (indexOf genTable b).isSome = true := by
  decide +kernel

theorem C16_pydsdl_single_inheritance : SingleInheritance pydsdlHier := by
  intro c
  by_cases h : c < genTable.length
  · have hall : ∀ c, c < genTable.length → (pydsdlHier.bases c).length ≤ 1 := by decide +kernel
    exact hall c h
  · have : genTable[c]? = none := List.getElem?_eq_none (Nat.le_of_not_lt h)
    simp [pydsdlHier, Hier.ofTable, this]

/-- Acyclic: every base precedes its subclasses in the table, so the row index is a rank. -/
theorem C16_pydsdl_acyclic : RankedBy pydsdlHier id := by
  intro c b hb
  by_cases h : c < genTable.length
  · have hall : ∀ c, c < genTable.length → ∀ b ∈ pydsdlHier.bases c, b < c := by decide +kernel
    exact hall c h b hb
  · have : genTable[c]? = none := List.getElem?_eq_none (Nat.le_of_not_lt h)
    simp [pydsdlHier, Hier.ofTable, this] at hb

/-- T1 for PyDSDL objects: every class of the running PyDSDL, every pair of template sets, every history. -/
theorem C16_pydsdl_lookup (fs pkg : Option Templates) {cache : Cache} (hc : Reachable pydsdlHier fs pkg cache)
    (c : Cls) :
    ∃ cache', lookup pydsdlHier (c + 1) cache fs pkg c =
        some (nearestAncestor pydsdlHier (mfind fs pkg) id c, cache') ∧ Reachable pydsdlHier fs pkg cache' :=
  C16_lookup_nearest C16_pydsdl_single_inheritance C16_pydsdl_acyclic fs pkg hc c (c + 1) (Nat.lt_succ_self c)

/-- "Ending at `Any`": the chain the search walks from any class under `pydsdl.Any` ends at `Any` (it does not
go on to `abc.ABC`, the base of `Any`). -/
theorem C16_pydsdl_chain_ends_at_any :
    ∀ n ∈ Gen.PydsdlClasses.underAny, ∃ c, indexOf genTable n = some c ∧
      ((chain pydsdlHier (c + 1) c).getLast?.map pydsdlHier.name) = some ['A', 'n', 'y'] := by
  decide +kernel

example : (indexOf genTable "StructureType".toList).map (fun c => (chain pydsdlHier (c + 1) c).map pydsdlHier.name) =
    some ["StructureType".toList, "CompositeType".toList, "SerializableType".toList, "Any".toList] := by
  decide +kernel

/-! ## 3. `get_source` -/

/-- The user's template is loaded whenever a user directory has a file of that name — however the request spells
the name (`./x`, `a//x`, `/x`; canonical form `c`), whether or not a listing shows the file, whatever the package
contains: the first such directory in search-path order. -/
theorem C16_getSource_user_first (dirs : List Store) (pkg : Option Store) (t c : Path)
    (hc : canonicalName t = some c) (h : ∃ d ∈ dirs, (sfind d c).isSome = true) :
    ∃ v, fsSource dirs c = some v ∧ getSource (some dirs) pkg t = some (.user, v) := by
  have hv : ∃ v, fsSource dirs c = some v := by
    induction dirs with
    | nil => obtain ⟨d, hd, _⟩ := h; cases hd
    | cons d ds ih =>
      simp only [fsSource]
      cases hs : sfind d c with
      | some v => exact ⟨v, rfl⟩
      | none =>
        obtain ⟨d', hd', hsome⟩ := h
        rcases List.mem_cons.mp hd' with h1 | h1
        · subst h1; rw [hs] at hsome; cases hsome
        · exact ih ⟨d', h1, hsome⟩
  obtain ⟨v, hv⟩ := hv
  exact ⟨v, hv, by simp [getSource, getSourceAt, hc, Option.bind, hv]⟩

/-- Only when no user directory has the name is the built-in template loaded; with neither, `TemplateNotFound`. -/
theorem C16_getSource_builtin_fallback (fs : Option (List Store)) (pkg : Option Store) (t c : Path)
    (hc : canonicalName t = some c) (h : fs.bind (fsSource · c) = none) :
    getSource fs pkg t = (pkg.bind (sfind · c)).map fun v => (Origin.builtin, v) := by
  simp only [getSource, getSourceAt, hc, h]
  cases pkg <;> rfl

/-- Two spellings of one name are served from the same source; a name with a `..` piece is never served. -/
theorem C16_getSource_spelling_irrelevant (fs : Option (List Store)) (pkg : Option Store) (t t' : Path) :
    (canonicalName t = canonicalName t' → getSource fs pkg t = getSource fs pkg t') ∧
    (canonicalName t = none → getSource fs pkg t = none) := by
  constructor
  · intro h; simp only [getSource, h]
  · intro h; simp only [getSource, h]

example : canonicalName "./a//b/./c.j2".toList = some "a/b/c.j2".toList ∧ canonicalName "/x.j2/".toList = some "x.j2".toList ∧
    canonicalName "sub/../x.j2".toList = none ∧ canonicalName "a/..b/x".toList = some "a/..b/x".toList := by
  decide

/-- The stem a template is filed under is its name minus the LAST suffix only: for every name `s.x` (`s`, `x`
non-empty, no dot in `x`) `Path.stem = s` and `Path.suffix = .x`, whatever dots `s` contains.  So `UnionType.orig.j2`
is filed under `UnionType.orig` — it is nobody's template. -/
theorem C16_stem_drops_last_suffix_only (s x : List Char) (hs : s ≠ []) (hx : x ≠ []) (hdot : '.' ∉ x) :
    splitExt (s ++ '.' :: x) = (s, '.' :: x) :=
  splitExt_last_suffix s x hs hx hdot

example : templatesOf ".j2".toList ["UnionType.orig.j2".toList, "StructureType.j2.bak".toList, ".Any.j2".toList,
      "UNIONTYPE.j2".toList, "sub/UnionType.j2".toList, "UnionType.j2/readme.txt".toList] =
    [("UnionType.orig".toList, "UnionType.orig.j2".toList), (".Any".toList, ".Any.j2".toList),
     ("UNIONTYPE".toList, "UNIONTYPE.j2".toList), ("UnionType".toList, "sub/UnionType.j2".toList)] := by
  decide

/-! ## 4. Instance tests over the generated table -/

/-- `_create_all_dsdl_tests()` as computed by the model over the generated table (evaluated by the kernel). -/
def genTestList : List (Name × Name) := genTests.getD []

/-- The enumeration terminates (fuel suffices). -/
theorem C16_tests_enumerated : genTests = some genTestList := by decide +kernel

/-- `cls` is in one of the sub-trees `_create_all_dsdl_tests` starts from. -/
def underRoot (cls : Name) : Bool := genRoots.any fun r => isSub genTable genTable.length cls r

/-- Every class of the `SerializableType` and `Attribute` sub-trees has a test of its own name and one of its
short alias, both bound to that class. -/
theorem C16_every_class_has_test_and_alias :
    ∀ e ∈ genTable, underRoot e.1 = true →
      testClass genTestList e.1 = some e.1 ∧ testClass genTestList (aliasOf e.1) = some e.1 := by
  decide +kernel

/-- The name → class map is a function: no alias collides with another alias or with a class name. -/
theorem C16_test_names_unambiguous :
    ∀ a ∈ genTestList, ∀ b ∈ genTestList, a.1 = b.1 → a.2 = b.2 := by
  decide +kernel

/-- The model's enumeration is exactly what the code's `_create_all_dsdl_tests()` returns (names and the class
each closure is bound to, read from the running code by the translator). -/
theorem C16_tests_agree_with_code :
    (∀ e ∈ genTestList, e ∈ genCodeTests) ∧ (∀ e ∈ genCodeTests, e ∈ genTestList) := by
  decide +kernel

/-- Sub-class membership as computed on names (`issubclass`) is membership in the chain the search walks, for
every class under `pydsdl.Any` as the ancestor. -/
theorem C16_isSub_is_chain_membership :
    ∀ i, i < genTable.length → ∀ j, j < genTable.length → Gen.PydsdlClasses.underAny.contains (pydsdlHier.name j) = true →
      isSub genTable genTable.length (pydsdlHier.name i) (pydsdlHier.name j) = (chain pydsdlHier (i + 1) i).contains j := by
  decide +kernel

/-- The value of a test, by its class name or by its alias, on any value: sub-class membership of the value's
class — or, when the value is an attribute, of its `data_type`'s class. -/
theorem C16_test_value (e : Name × List Name) (he : e ∈ genTable) (hr : underRoot e.1 = true)
    (vcls : Name) (dt : Option Name) :
    evalTest genTable genTestList genRedirect (aliasOf e.1) vcls dt =
      evalTest genTable genTestList genRedirect e.1 vcls dt ∧
    evalTest genTable genTestList genRedirect e.1 vcls dt =
      if isSub genTable genTable.length vcls genRedirect then
        match dt with
        | some d => .ok (isSub genTable genTable.length d e.1)
        | none => .error .noDataType
      else .ok (isSub genTable genTable.length vcls e.1) := by
  obtain ⟨h1, h2⟩ := C16_every_class_has_test_and_alias e he hr
  refine ⟨by simp only [evalTest, h1, h2], ?_⟩
  simp only [evalTest, h1]
  rfl

/-- A test's answer is a function of the value alone (its class, its data_type's class): whatever was tested
before in the same environment — objects long gone, objects of other classes that lived at the same address — the
answers for `qs` are those of `qs` asked in a fresh environment. -/
theorem C16_tests_independent_of_history (t : Table) (tests : List (Name × Name)) (redirect : Name)
    (earlier qs : List (Name × Name × Option Name)) :
    (evalSeq t tests redirect (earlier ++ qs)).drop earlier.length = evalSeq t tests redirect qs := by
  induction earlier with
  | nil => rfl
  | cons q earlier ih => simpa [evalSeq] using ih

/-- Consequence of the redirection (recorded, see REPORT): the tests named after the attribute classes
(`Attribute`, `Field`, `PaddingField`, `Constant` and their aliases) are false on every attribute. -/
theorem C16_attribute_class_tests_false_on_attributes :
    ∀ e ∈ genTable.filter (fun e => isSub genTable genTable.length e.1 genRedirect),
    ∀ v ∈ genTable.filter (fun e => isSub genTable genTable.length e.1 genRedirect),
    ∀ d ∈ genTable.filter (fun e => !isSub genTable genTable.length e.1 genRedirect),
      (match evalTest genTable genTestList genRedirect e.1 v.1 (some d.1) with
        | .ok b => b
        | .error _ => true) = false := by
  decide +kernel

/-! ## 5. The environment -/

/-- The environment with no user additions. -/
def builtinEnv (cfg : EnvCfg) : Except Err Env := construct cfg false [] [] []

/-- T5 (main): without the allow flag, if construction with the user's globals, filters and tests succeeds,
every name the environment defines without them — Jinja defaults, reserved namespaces, language globals,
language support, instance tests, the generator's own filters and tests — still has its built-in value. -/
theorem C16_user_additions_never_replace_builtins (cfg : EnvCfg) (ug uf ut : List (Name × Owner))
    (env env₀ : Env) (h : construct cfg false ug uf ut = .ok env) (h₀ : builtinEnv cfg = .ok env₀) :
    (∀ n v, cget env₀.filters n = some v → cget env.filters n = some v) ∧
    (∀ n v, cget env₀.tests n = some v → cget env.tests n = some v) ∧
    (∀ n v, cget env₀.globals n = some v → cget env.globals n = some v) := by
  unfold builtinEnv construct at h₀
  unfold construct at h
  simp only [addGlobals] at h₀
  cases hg : addGlobals (cfg.reservedNs ++ cfg.reservedNames) false cfg.jinjaGlobals ug with
  | error x => simp [hg] at h
  | ok g =>
    simp only [hg] at h
    unfold constructRest at h h₀
    cases hf1 : addAll false cfg.jinjaFilters cfg.preFilters with
    | error x => simp [hf1] at h
    | ok f1 =>
      cases ht1 : addAll false cfg.jinjaTests cfg.preTests with
      | error x => simp [hf1, ht1] at h
      | ok t1 =>
        simp only [hf1, ht1, conv, List.map_nil, addAll] at h h₀
        cases hf2 : addAll false f1 (List.map (fun e => (conventionalName e.1, e.2)) uf) with
        | error x => simp [hf2] at h
        | ok f2 =>
          cases ht2 : addAll false t1 (List.map (fun e => (conventionalName e.1, e.2)) ut) with
          | error x => simp [hf2, ht2] at h
          | ok t2 =>
            simp only [hf2, ht2] at h
            obtain ⟨hF, hT, hG⟩ := addPost_ok false cfg.post _ _ h
            obtain ⟨hF₀, hT₀, hG₀⟩ := addPost_ok false cfg.post _ _ h₀
            simp only at hF hT hG hF₀ hT₀ hG₀
            obtain ⟨f2M, _, _, _, _⟩ := addAll_false_ok _ _ _ hf2
            obtain ⟨t2M, _, _, _, _⟩ := addAll_false_ok _ _ _ ht2
            obtain ⟨fM, fN, _, _, _⟩ := addAll_false_ok _ _ _ hF
            obtain ⟨tM, tN, _, _, _⟩ := addAll_false_ok _ _ _ hT
            obtain ⟨_, _, fD₀, _, _⟩ := addAll_false_ok _ _ _ hF₀
            obtain ⟨_, _, tD₀, _, _⟩ := addAll_false_ok _ _ _ hT₀
            obtain ⟨gM, _, _⟩ := addGlobals_false_ok _ _ _ _ hg
            refine ⟨?_, ?_, ?_⟩
            · intro n v hn
              rcases fD₀ n v hn with h1 | h1
              · exact fM n v (f2M n v h1)
              · exact fN (n, v) h1
            · intro n v hn
              rcases tD₀ n v hn with h1 | h1
              · exact tM n v (t2M n v h1)
              · exact tN (n, v) h1
            · intro n v hn
              rw [hG₀] at hn
              rw [hG]
              exact cget_builtinGlobals_of_some cfg _ _ n v (fun w hw => gM n w hw) hn

/-- T5 (the user's own additions are effective): after a successful construction each user filter / test is
registered under its conventional name (`is_` / `filter_` / `uses_` prefix removed) with the user's value. -/
theorem C16_user_additions_registered (cfg : EnvCfg) (ug uf ut : List (Name × Owner)) (env : Env)
    (h : construct cfg false ug uf ut = .ok env) :
    (∀ e ∈ uf, cget env.filters (conventionalName e.1) = some e.2) ∧
    (∀ e ∈ ut, cget env.tests (conventionalName e.1) = some e.2) := by
  unfold construct at h
  cases hg : addGlobals (cfg.reservedNs ++ cfg.reservedNames) false cfg.jinjaGlobals ug with
  | error x => simp [hg] at h
  | ok g =>
    simp only [hg] at h
    unfold constructRest at h
    cases hf1 : addAll false cfg.jinjaFilters cfg.preFilters with
    | error x => simp [hf1] at h
    | ok f1 =>
      cases ht1 : addAll false cfg.jinjaTests cfg.preTests with
      | error x => simp [hf1, ht1] at h
      | ok t1 =>
        simp only [hf1, ht1] at h
        cases hf2 : addAll false f1 (conv uf) with
        | error x => simp [hf2] at h
        | ok f2 =>
          cases ht2 : addAll false t1 (conv ut) with
          | error x => simp [hf2, ht2] at h
          | ok t2 =>
            simp only [hf2, ht2] at h
            obtain ⟨hF, hT, _⟩ := addPost_ok false cfg.post _ _ h
            simp only at hF hT
            obtain ⟨_, f2N, _, _, _⟩ := addAll_false_ok _ _ _ hf2
            obtain ⟨_, t2N, _, _, _⟩ := addAll_false_ok _ _ _ ht2
            obtain ⟨fM, _, _, _, _⟩ := addAll_false_ok _ _ _ hF
            obtain ⟨tM, _, _, _, _⟩ := addAll_false_ok _ _ _ hT
            refine ⟨?_, ?_⟩
            · intro e he
              exact fM _ _ (f2N (conventionalName e.1, e.2) (List.mem_map.mpr ⟨e, he, rfl⟩))
            · intro e he
              exact tM _ _ (t2N (conventionalName e.1, e.2) (List.mem_map.mpr ⟨e, he, rfl⟩))

/-- T5 (never silently): a user filter or test whose conventional name is a name the environment defines
without the user's additions makes the construction raise. -/
theorem C16_colliding_filter_or_test_raises (cfg : EnvCfg) (ug uf ut : List (Name × Owner)) (env₀ : Env)
    (h₀ : builtinEnv cfg = .ok env₀) (e : Name × Owner)
    (hcol : (e ∈ uf ∧ (cget env₀.filters (conventionalName e.1)).isSome = true) ∨
            (e ∈ ut ∧ (cget env₀.tests (conventionalName e.1)).isSome = true)) :
    ∃ x, construct cfg false ug uf ut = .error x := by
  cases h : construct cfg false ug uf ut with
  | error x => exact ⟨x, rfl⟩
  | ok env =>
    exfalso
    obtain ⟨hF, hT, _⟩ := C16_user_additions_never_replace_builtins cfg ug uf ut env env₀ h h₀
    obtain ⟨uF, uT⟩ := C16_user_additions_registered cfg ug uf ut env h
    -- the name would have to carry both the built-in and the user's value: impossible because the user's
    -- addition would have found the name taken; redo the construction up to that addition
    unfold construct at h
    cases hg : addGlobals (cfg.reservedNs ++ cfg.reservedNames) false cfg.jinjaGlobals ug with
    | error x => simp [hg] at h
    | ok g =>
      simp only [hg] at h
      unfold builtinEnv construct at h₀
      simp only [addGlobals] at h₀
      unfold constructRest at h h₀
      cases hf1 : addAll false cfg.jinjaFilters cfg.preFilters with
      | error x => simp [hf1] at h
      | ok f1 =>
        cases ht1 : addAll false cfg.jinjaTests cfg.preTests with
        | error x => simp [hf1, ht1] at h
        | ok t1 =>
          simp only [hf1, ht1, conv, List.map_nil, addAll] at h h₀
          cases hf2 : addAll false f1 (List.map (fun e => (conventionalName e.1, e.2)) uf) with
          | error x => simp [hf2] at h
          | ok f2 =>
            cases ht2 : addAll false t1 (List.map (fun e => (conventionalName e.1, e.2)) ut) with
            | error x => simp [hf2, ht2] at h
            | ok t2 =>
              simp only [hf2, ht2] at h
              obtain ⟨pF, pT, _⟩ := addPost_ok false cfg.post _ _ h
              obtain ⟨pF₀, pT₀, _⟩ := addPost_ok false cfg.post _ _ h₀
              simp only at pF pT pF₀ pT₀
              obtain ⟨_, f2N, _, f2F, _⟩ := addAll_false_ok _ _ _ hf2
              obtain ⟨_, t2N, _, t2F, _⟩ := addAll_false_ok _ _ _ ht2
              obtain ⟨_, _, _, fF, _⟩ := addAll_false_ok _ _ _ pF
              obtain ⟨_, _, _, tF, _⟩ := addAll_false_ok _ _ _ pT
              obtain ⟨_, _, fD₀, _, _⟩ := addAll_false_ok _ _ _ pF₀
              obtain ⟨_, _, tD₀, _, _⟩ := addAll_false_ok _ _ _ pT₀
              rcases hcol with ⟨he, hs⟩ | ⟨he, hs⟩
              · obtain ⟨w, hw⟩ := Option.isSome_iff_exists.mp hs
                have hmem : (conventionalName e.1, e.2) ∈ List.map (fun e => (conventionalName e.1, e.2)) uf :=
                  List.mem_map.mpr ⟨e, he, rfl⟩
                rcases fD₀ _ _ hw with h1 | h1
                · have := f2F _ hmem
                  simp only at this
                  rw [h1] at this; cases this
                · have := fF _ h1
                  simp only at this
                  rw [f2N _ hmem] at this; cases this
              · obtain ⟨w, hw⟩ := Option.isSome_iff_exists.mp hs
                have hmem : (conventionalName e.1, e.2) ∈ List.map (fun e => (conventionalName e.1, e.2)) ut :=
                  List.mem_map.mpr ⟨e, he, rfl⟩
                rcases tD₀ _ _ hw with h1 | h1
                · have := t2F _ hmem
                  simp only at this
                  rw [h1] at this; cases this
                · have := tF _ h1
                  simp only at this
                  rw [t2N _ hmem] at this; cases this

/-- T5 (reserved globals): a user global named like a reserved namespace or reserved name raises, with or
without the allow flag, in the repaired and in the unrepaired code. -/
theorem C16_reserved_global_raises (cfg : EnvCfg) (allow : Bool) (ug uf ut : List (Name × Owner))
    (e : Name × Owner) (he : e ∈ ug) (hr : e.1 ∈ cfg.reservedNs ++ cfg.reservedNames) :
    (∃ x, construct cfg allow ug uf ut = .error x) ∧ (∃ x, constructBeforeFix cfg allow ug uf ut = .error x) := by
  constructor
  · obtain ⟨x, hx⟩ := addGlobals_reserved _ allow ug cfg.jinjaGlobals e he hr
    exact ⟨x, by simp [construct, hx]⟩
  · obtain ⟨x, hx⟩ := addGlobalsBeforeFix_reserved _ ug cfg.jinjaGlobals e he hr
    exact ⟨x, by simp [constructBeforeFix, hx]⟩

/-- T5 (default globals, repaired code): a user global named like a global Jinja defines (`range`, `dict`,
`namespace`, …) raises without the allow flag. -/
theorem C16_colliding_global_raises (cfg : EnvCfg) (ug uf ut : List (Name × Owner)) (e : Name × Owner)
    (he : e ∈ ug) (w : Owner) (hw : cget cfg.jinjaGlobals e.1 = some w) :
    ∃ x, construct cfg false ug uf ut = .error x := by
  cases hg : addGlobals (cfg.reservedNs ++ cfg.reservedNames) false cfg.jinjaGlobals ug with
  | error x => exact ⟨x, by simp [construct, hg]⟩
  | ok g =>
    have := ((addGlobals_false_ok _ _ _ _ hg).2.2 e he).1
    rw [hw] at this; cases this

/-- T5 (order of installation, globals): the target language's globals (`typename_*`, `valuetoken_*`,
`ConstructorConvention`, …), the reserved namespaces and `now_utc` are installed AFTER the user's globals were
taken, by unconditional assignment (`globals.update(get_globals())`, `globals[ns] = …`).  Hence, with or without
the allow flag, in the repaired and in the unrepaired constructor, a successfully constructed environment holds the
built-in value at each of these names — a user global of that name is overwritten, never the other way round. -/
theorem C16_language_and_reserved_globals_installed_last (cfg : EnvCfg) (allow : Bool)
    (ug uf ut : List (Name × Owner)) (env : Env)
    (h : construct cfg allow ug uf ut = .ok env ∨ constructBeforeFix cfg allow ug uf ut = .ok env) (n : Name) :
    (∀ v, lastOf cfg.langGlobals n = some v → cget env.globals n = some v) ∧
    (lastOf cfg.langGlobals n = none → (n = nowUtc ∨ n ∈ cfg.reservedNs) → cget env.globals n = some .reserved) := by
  have hg : ∃ g, env.globals = builtinGlobals cfg g := by
    rcases h with h | h
    · unfold construct at h
      cases hg : addGlobals (cfg.reservedNs ++ cfg.reservedNames) allow cfg.jinjaGlobals ug with
      | error x => simp [hg] at h
      | ok g => simp only [hg] at h; exact ⟨g, constructRest_globals cfg allow g uf ut env h⟩
    · unfold constructBeforeFix at h
      cases hg : addGlobalsBeforeFix (cfg.reservedNs ++ cfg.reservedNames) cfg.jinjaGlobals ug with
      | error x => simp [hg] at h
      | ok g => simp only [hg] at h; exact ⟨g, constructRest_globals cfg allow g uf ut env h⟩
  obtain ⟨g, hg⟩ := hg
  rw [hg, cget_builtinGlobals]
  constructor
  · intro v hv; simp [hv]
  · intro hnone hres
    simp only [hnone]
    rcases hres with h1 | h1
    · simp [h1]
    · by_cases h2 : nowUtc = n <;> simp [h1, h2]

def exCfg₁ : EnvCfg where
  jinjaFilters := []
  jinjaTests := []
  jinjaGlobals := [("range".toList, .jinja)]
  reservedNs := ["ln".toList]
  reservedNames := ["now_utc".toList]
  langGlobals := []
  preFilters := []
  preTests := []
  post := []

/-- T5 (what the allow flag does): whatever the flag, a construction that does not raise is plain item assignment in
installation order — filters/tests: Jinja defaults, language support, the USER's, then instance tests and the
generator's own; globals: Jinja defaults, the USER's (none of them reserved), then reserved namespaces, `now_utc`
and the language globals.  The flag only decides whether a collision raises. -/
theorem C16_constructed_environment_is_installation_order (cfg : EnvCfg) (allow : Bool)
    (ug uf ut : List (Name × Owner)) (env : Env) (h : construct cfg allow ug uf ut = .ok env) :
    env.filters = setAll cfg.jinjaFilters (cfg.preFilters ++ conv uf ++ postOf .filter cfg.post) ∧
    env.tests = setAll cfg.jinjaTests (cfg.preTests ++ conv ut ++ postOf .test cfg.post) ∧
    env.globals = builtinGlobals cfg (setAll cfg.jinjaGlobals ug) ∧
    ∀ e ∈ ug, e.1 ∉ cfg.reservedNs ++ cfg.reservedNames := by
  unfold construct at h
  cases hg : addGlobals (cfg.reservedNs ++ cfg.reservedNames) allow cfg.jinjaGlobals ug with
  | error x => simp [hg] at h
  | ok g =>
    simp only [hg] at h
    obtain ⟨hg1, hg2⟩ := addGlobals_ok _ allow ug _ _ hg
    have hglob := constructRest_globals cfg allow g uf ut env h
    unfold constructRest at h
    cases hf1 : addAll allow cfg.jinjaFilters cfg.preFilters with
    | error x => simp [hf1] at h
    | ok f1 =>
      cases ht1 : addAll allow cfg.jinjaTests cfg.preTests with
      | error x => simp [hf1, ht1] at h
      | ok t1 =>
        simp only [hf1, ht1] at h
        cases hf2 : addAll allow f1 (conv uf) with
        | error x => simp [hf2] at h
        | ok f2 =>
          cases ht2 : addAll allow t1 (conv ut) with
          | error x => simp [hf2, ht2] at h
          | ok t2 =>
            simp only [hf2, ht2] at h
            obtain ⟨pF, pT, _⟩ := addPost_ok allow cfg.post _ _ h
            simp only at pF pT
            refine ⟨?_, ?_, ?_, hg2⟩
            · rw [addAll_ok allow _ _ _ pF, addAll_ok allow _ _ _ hf2, addAll_ok allow _ _ _ hf1,
                setAll_append, setAll_append]
            · rw [addAll_ok allow _ _ _ pT, addAll_ok allow _ _ _ ht2, addAll_ok allow _ _ _ ht1,
                setAll_append, setAll_append]
            · rw [hglob, hg1]

/-- T5 (scope of the allow flag).  With the flag ON the user's item may replace only what was installed BEFORE it:
Jinja's default globals, filters and tests and the language-support filters/tests.  It may NOT touch
 * reserved globals: a reserved name among the additional globals raises whatever the flag
   (`C16_reserved_global_raises`), and the reserved namespaces, `now_utc` and the target language's globals hold
   their built-in value in every constructed environment (`C16_language_and_reserved_globals_installed_last`);
 * anything installed after it: at the name of an instance test or of one of the generator's own filters/tests
   the constructed environment holds the built-in item (it replaced the user's). -/
theorem C16_allow_flag_scope (cfg : EnvCfg) (allow : Bool) (ug uf ut : List (Name × Owner)) (env : Env)
    (h : construct cfg allow ug uf ut = .ok env) (n : Name) :
    (∀ v, lastOf (postOf .filter cfg.post) n = some v → cget env.filters n = some v) ∧
    (∀ v, lastOf (postOf .test cfg.post) n = some v → cget env.tests n = some v) ∧
    (∀ v, lastOf cfg.langGlobals n = some v → cget env.globals n = some v) ∧
    (lastOf cfg.langGlobals n = none → (n = nowUtc ∨ n ∈ cfg.reservedNs) → cget env.globals n = some .reserved) ∧
    (∀ e ∈ ug, e.1 ∉ cfg.reservedNs ++ cfg.reservedNames) := by
  obtain ⟨hF, hT, _, hR⟩ := C16_constructed_environment_is_installation_order cfg allow ug uf ut env h
  obtain ⟨hL, hRes⟩ := C16_language_and_reserved_globals_installed_last cfg allow ug uf ut env (Or.inl h) n
  refine ⟨?_, ?_, hL, hRes, hR⟩
  · intro v hv
    rw [hF, cget_setAll, lastOf_append, hv]
  · intro v hv
    rw [hT, cget_setAll, lastOf_append, hv]

/-- Why the explicit reserved-name check matters (counterfactual, seeded change C16-5): were reserved names left to
the generic "already defined" check of `_add_to_environment`, the allow flag would let the user's value in. -/
example :
    (addToEnv true [(nowUtc, Owner.reserved)] nowUtc (.user 0)).toOption.bind (cget · nowUtc) = some (.user 0) ∧
    (match construct exCfg₁ true [(nowUtc, .user 0)] [] [] with
      | .error (.reservedGlobal _) => true
      | _ => false) = true := by
  decide

/-- Why the order matters (counterfactual, seeded change C16-3): were the language globals installed with
`setdefault` instead of an overwrite, the user's value would stay in force without any error. -/
example :
    let tn := "typename_unsigned_length".toList
    cget (setAll [(tn, Owner.user 0)] [(tn, Owner.lang)]) tn = some .lang ∧
    cget (setDefaultAll [(tn, Owner.user 0)] [(tn, Owner.lang)]) tn = some (.user 0) := by
  decide

/-- Before the repair: the user's `range` silently replaced Jinja's (no error, the user's value is what
templates see); the repaired constructor raises. -/
example :
    ((constructBeforeFix exCfg₁ false [("range".toList, .user 0)] [] []).toOption.bind
        fun env => cget env.globals "range".toList) = some (.user 0) ∧
    ((builtinEnv exCfg₁).toOption.bind fun env => cget env.globals "range".toList) = some .jinja ∧
    (match construct exCfg₁ false [("range".toList, .user 0)] [] [] with
      | .error (.alreadyDefined n) => n == "range".toList
      | _ => false) = true := by
  decide

def exCfg₂ : EnvCfg where
  jinjaFilters := [("upper".toList, .jinja)]
  jinjaTests := [("odd".toList, .jinja)]
  jinjaGlobals := [("range".toList, .jinja)]
  reservedNs := ["ln".toList]
  reservedNames := ["now_utc".toList]
  langGlobals := [("typename_byte".toList, .lang)]
  preFilters := [("id".toList, .pre 0)]
  preTests := []
  post := [(.test, "StructureType".toList, .post 0), (.filter, "type_to_template".toList, .post 1)]

/-- Non-vacuity of T5: a configuration with built-ins in every phase; user additions that do not collide are
accepted, colliding ones raise (before and after the user's phase), the allow flag lifts the check. -/
example :
    (construct exCfg₂ false [("mine".toList, .user 0)] [("filter_x".toList, .user 0)] [("is_y".toList, .user 0)]).isOk = true ∧
    (construct exCfg₂ false [] [("filter_upper".toList, .user 0)] []).isOk = false ∧
    (construct exCfg₂ false [] [] [("StructureType".toList, .user 0)]).isOk = false ∧
    (construct exCfg₂ true [] [] [("StructureType".toList, .user 0)]).isOk = true := by
  decide

/-! ## 6. A LIST of user template directories -/


/-- `FileSystemLoader.list_templates()` over a directory list: exactly the names some directory of the list has —
EVERY directory, not only the first —, each once, in Python's string order. -/
theorem C16_dirs_listing_is_union (dirs : List Store) :
    (∀ p, p ∈ fsList dirs ↔ ∃ d ∈ dirs, p ∈ names d) ∧ StrictSorted (fsList dirs) :=
  ⟨fun p => mem_fsList p dirs, strictSorted_sortDedup _⟩

/-- Resolution over a directory LIST is resolution over the UNION directory in which, under every name, the file of
the first directory that has the name shadows those of the later ones: for ANY single directory `u` with that content,
`type_to_template` (any hierarchy, fuel, cache, class) and `get_source` (any spelling) give the same answers; the
concatenation of the directories is such a `u`. -/
theorem C16_dirs_lookup_is_union_lookup (H : Hier) (sfx : Name) (fuel : Nat) (cache : Cache) (dirs : List Store)
    (u : Store) (hu : UnionOf u dirs) (pkg : Option Store) (c : Cls) (t : Path) :
    lookupDirs H sfx fuel cache (some dirs) pkg c = lookupDirs H sfx fuel cache (some [u]) pkg c ∧
    getSource (some dirs) pkg t = getSource (some [u]) pkg t ∧
    UnionOf dirs.flatten dirs := by
  refine ⟨?_, ?_, unionOf_flatten dirs⟩
  · simp only [lookupDirs, Option.map_some, dirsTemplates, fsList_union hu]
  · unfold getSource getSourceAt
    cases canonicalName t with
    | none => rfl
    | some c => simp only [Option.bind_some, fsSource, ← hu c]; cases sfind u c <;> rfl

/-- A class has a user template iff ANY directory of the list holds a template file with its name as the stem; then
the dict `type_to_template` searches holds a USER file for it, whatever the package has (precedence of the user's
templates, over every directory). -/
theorem C16_dirs_user_template_in_any_directory (sfx : Name) (dirs : List Store) (pkg : Option Store) (n : Name) :
    ((tfind (dirsTemplates sfx dirs) n).isSome ↔ ∃ d ∈ dirs, ∃ p ∈ names d, splitExt (baseName p) = (n, sfx)) ∧
    (∀ d ∈ dirs, ∀ p ∈ names d, splitExt (baseName p) = (n, sfx) →
      ∃ q, mfind (some (dirsTemplates sfx dirs)) (pkg.map (pkgTemplates sfx)) n = some q ∧
        (∃ d' ∈ dirs, q ∈ names d') ∧ splitExt (baseName q) = (n, sfx)) := by
  have key : ∀ q, (n, q) ∈ dirsTemplates sfx dirs ↔ (∃ d ∈ dirs, q ∈ names d) ∧ splitExt (baseName q) = (n, sfx) := by
    intro q; unfold dirsTemplates; rw [mem_templatesOf, mem_fsList]
  constructor
  · constructor
    · intro h
      cases hf : tfind (dirsTemplates sfx dirs) n with
      | none => rw [hf] at h; cases h
      | some q =>
        have hm : (n, q) ∈ dirsTemplates sfx dirs := tfind_mem hf
        obtain ⟨⟨d, hd, hq⟩, hs⟩ := (key q).mp hm
        exact ⟨d, hd, q, hq, hs⟩
    · rintro ⟨d, hd, p, hp, hs⟩
      obtain ⟨q, hq⟩ := tfind_some_of_mem ((key p).mpr ⟨⟨d, hd, hp⟩, hs⟩)
      rw [hq]; rfl
  · intro d hd p hp hs
    obtain ⟨q, hq⟩ := tfind_some_of_mem ((key p).mpr ⟨⟨d, hd, hp⟩, hs⟩)
    refine ⟨q, by simp [mfind, hq], ?_⟩
    exact (key q).mp (tfind_mem hq)

/-- Theorem 1 for a loader over a directory list: the template of the nearest class of the chain that has one in ANY of
the user directories or in the package (`C16_dirs_user_template_in_any_directory` says when that is). -/
theorem C16_dirs_lookup_nearest {H : Hier} {rank : Cls → Nat} (hS : SingleInheritance H) (hR : RankedBy H rank)
    (sfx : Name) (dirs : Option (List Store)) (pkg : Option Store) {cache : Cache}
    (hc : Reachable H (dirs.map (dirsTemplates sfx)) (pkg.map (pkgTemplates sfx)) cache) (c : Cls) (fuel : Nat)
    (hf : rank c < fuel) :
    ∃ cache', lookupDirs H sfx fuel cache dirs pkg c =
        some (nearestAncestor H (mfind (dirs.map (dirsTemplates sfx)) (pkg.map (pkgTemplates sfx))) rank c, cache') ∧
      Reachable H (dirs.map (dirsTemplates sfx)) (pkg.map (pkgTemplates sfx)) cache' :=
  C16_lookup_nearest hS hR _ _ hc c fuel hf

/-- A name the file-system loader lists is loaded by `get_source` from the FIRST directory of the list that has it
(index `i`): that directory has it, no earlier one does, the package is not consulted. -/
theorem C16_dirs_listed_name_loads_from_first_directory (dirs : List Store) (pkg : Option Store) (p : Path)
    (hp : p ∈ fsList dirs) :
    ∃ i v, firstDir dirs p = some (i, v) ∧ getSourceAt (some dirs) pkg p = some (.user, v) ∧
      (∃ d, dirs[i]? = some d ∧ sfind d p = some v) ∧ ∀ j, j < i → ∀ d, dirs[j]? = some d → sfind d p = none := by
  have h1 : (fsSource dirs p).isSome := (fsSource_isSome_iff p dirs).mpr ((mem_fsList p dirs).mp hp)
  have h2 := firstDir_fsSource p dirs
  cases hf : firstDir dirs p with
  | none => rw [hf] at h2; rw [← h2] at h1; cases h1
  | some r =>
    obtain ⟨i, v⟩ := r
    rw [hf] at h2
    simp only [Option.map_some] at h2
    obtain ⟨h3, h4⟩ := firstDir_spec p dirs i v hf
    exact ⟨i, v, rfl, by simp [getSourceAt, ← h2], h3, h4⟩

/-- `type_to_template` returns only candidates (values of the dict it searches), and every candidate is returned for
some class: the one-class hierarchy whose class is named by the candidate's stem. -/
theorem C16_dirs_lookup_returns_candidates {H : Hier} {rank : Cls → Nat} (hS : SingleInheritance H) (hR : RankedBy H rank)
    (sfx : Name) (dirs : Option (List Store)) (pkg : Option Store) :
    (∀ {cache : Cache}, Reachable H (dirs.map (dirsTemplates sfx)) (pkg.map (pkgTemplates sfx)) cache →
      ∀ c fuel p cache', lookupDirs H sfx fuel cache dirs pkg c = some (some p, cache') →
        p ∈ candidates sfx dirs pkg) ∧
    (∀ p ∈ candidates sfx dirs pkg, ∃ n cache',
      lookupDirs ⟨fun _ => [], fun _ => n⟩ sfx 1 [] dirs pkg 0 = some (some p, cache')) := by
  constructor
  · intro cache hc c fuel p cache' h
    have := C16_lookup_sound hS hR _ _ hc c fuel (some p) cache' h
    obtain ⟨c', _, h2⟩ := nearest_some this.symm
    exact (mem_candidates sfx dirs pkg p).mpr ⟨_, h2⟩
  · intro p hp
    obtain ⟨n, hn⟩ := (mem_candidates sfx dirs pkg p).mp hp
    rw [← tfind_merged_fun] at hn
    exact ⟨n, [(0, p)], by simp [lookupDirs, lookup, bfs, cfind, hn]⟩

/-- `get_templates()` (the templates among what `--list-inputs` reports) against resolution, user directories `dirs`, suffix `.x`:
(1) under the user directories it lists the files of EVERY directory that match `*.x`;
(2) every path resolution can return is listed — as the very file `get_source` opens for it: the copy in the first
    directory that has the name, or the package's when no directory has it;
(3) every listed file (other than one whose whole name is the bare suffix) names a stem for which resolution has a
    template — the listed file itself unless another file with the same stem takes precedence (user over built-in,
    the later name in the sorted listing within one loader, the earlier directory for the same name). -/
theorem C16_enumeration_lists_what_resolution_returns (x : List Char) (hx : x ≠ []) (hdot : '.' ∉ x)
    (dirs : List Store) (pkg : Option Store) :
    (∀ j p, (Origin.user, j, p) ∈ getTemplates ('.' :: x) (some dirs) pkg ↔
        ∃ d, dirs[j]? = some d ∧ p ∈ names d ∧ globMatch ('.' :: x) p = true) ∧
    (∀ p ∈ candidates ('.' :: x) (some dirs) pkg,
        (∃ i v, firstDir dirs p = some (i, v) ∧ (Origin.user, i, p) ∈ getTemplates ('.' :: x) (some dirs) pkg) ∨
        ((∀ d ∈ dirs, p ∉ names d) ∧ (Origin.builtin, 0, p) ∈ getTemplates ('.' :: x) (some dirs) pkg)) ∧
    (∀ o j p, (o, j, p) ∈ getTemplates ('.' :: x) (some dirs) pkg → baseName p ≠ '.' :: x →
        ∃ q ∈ candidates ('.' :: x) (some dirs) pkg, (splitExt (baseName q)).1 = (splitExt (baseName p)).1) := by
  have huser : ∀ j p, (Origin.user, j, p) ∈ getTemplates ('.' :: x) (some dirs) pkg ↔
      ∃ d, dirs[j]? = some d ∧ p ∈ names d ∧ globMatch ('.' :: x) p = true := by
    intro j p
    unfold getTemplates
    rw [List.mem_append, mem_enumDirs]
    constructor
    · rintro (⟨_, _, d, h⟩ | h)
      · exact ⟨d, by simpa using h⟩
      · cases pkg <;> simp at h
    · rintro ⟨d, h⟩
      exact Or.inl ⟨rfl, Nat.zero_le _, d, by simpa using h⟩
  have hbuiltin : ∀ p s, pkg = some s → p ∈ pkgList s → suffixMatch ('.' :: x) p = true →
      (Origin.builtin, 0, p) ∈ getTemplates ('.' :: x) (some dirs) pkg := by
    intro p s hs h1 h2
    unfold getTemplates
    rw [List.mem_append]
    right
    subst hs
    simp only [List.mem_map, List.mem_filter]
    exact ⟨p, ⟨h1, h2⟩, rfl⟩
  refine ⟨huser, ?_, ?_⟩
  · intro p hp
    obtain ⟨n, hn⟩ := (mem_candidates _ _ _ p).mp hp
    unfold mfind at hn
    simp only [Option.map_some, Option.bind_some] at hn
    cases hfs : tfind (dirsTemplates ('.' :: x) dirs) n with
    | some q =>
      rw [hfs] at hn
      simp only [Option.some.injEq] at hn
      subst hn
      have hm := tfind_mem hfs
      unfold dirsTemplates at hm
      rw [mem_templatesOf] at hm
      obtain ⟨i, v, h1, _, ⟨d, h3, h4⟩, _⟩ := C16_dirs_listed_name_loads_from_first_directory dirs pkg q hm.1
      left
      refine ⟨i, v, h1, (huser i q).mpr ⟨d, h3, (sfind_isSome_iff q d).mp (by simp [h4]), ?_⟩⟩
      exact suffixMatch_globMatch _ _ (by simp [suffixMatch, hm.2])
    | none =>
      rw [hfs] at hn
      simp only at hn
      cases hpk : pkg with
      | none => rw [hpk] at hn; simp at hn
      | some s =>
        rw [hpk] at hn
        simp only [Option.map_some, Option.bind_some] at hn
        have hm := tfind_mem hn
        unfold pkgTemplates at hm
        rw [mem_templatesOf] at hm
        right
        refine ⟨?_, hpk ▸ hbuiltin p s hpk hm.1 (by simp [suffixMatch, hm.2])⟩
        intro d hd hpd
        have hnone := (tfind_none_iff _ n).mp hfs p
        apply hnone
        unfold dirsTemplates
        rw [mem_templatesOf, mem_fsList]
        exact ⟨⟨d, hd, hpd⟩, hm.2⟩
  · intro o j p hmem hbase
    -- the stem of a listed file is a key of the merged dict
    have hkey : ∃ q, tfind (merged (some (dirsTemplates ('.' :: x) dirs)) (pkg.map (pkgTemplates ('.' :: x))))
        (splitExt (baseName p)).1 = some q := by
      unfold getTemplates at hmem
      rw [List.mem_append] at hmem
      rcases hmem with h | h
      · rw [mem_enumDirs] at h
        obtain ⟨_, _, d, h1, h2, h3⟩ := h
        have hsm : suffixMatch ('.' :: x) p = true := by
          rcases (globMatch_iff x hx hdot p).mp h3 with h | h
          · exact h
          · exact absurd h hbase
        have hd : d ∈ dirs := List.mem_of_getElem? h1
        have : ((splitExt (baseName p)).1, p) ∈ dirsTemplates ('.' :: x) dirs := by
          unfold dirsTemplates
          rw [mem_templatesOf, mem_fsList]
          refine ⟨⟨d, hd, h2⟩, ?_⟩
          have := of_decide_eq_true hsm
          exact Prod.ext rfl this
        obtain ⟨q, hq⟩ := tfind_some_of_mem this
        exact ⟨q, by rw [tfind_merged]; simp [mfind, hq]⟩
      · cases hpk : pkg with
        | none => rw [hpk] at h; simp at h
        | some s =>
          rw [hpk] at h
          simp only [List.mem_map, List.mem_filter, Prod.mk.injEq] at h
          obtain ⟨p', ⟨h1, h2⟩, _, _, rfl⟩ := h
          have : ((splitExt (baseName p')).1, p') ∈ pkgTemplates ('.' :: x) s := by
            unfold pkgTemplates
            rw [mem_templatesOf]
            exact ⟨h1, Prod.ext rfl (of_decide_eq_true h2)⟩
          obtain ⟨q, hq⟩ := tfind_some_of_mem this
          rw [tfind_merged]
          unfold mfind
          simp only [Option.map_some, Option.bind_some]
          cases tfind (dirsTemplates ('.' :: x) dirs) (splitExt (baseName p')).1 with
          | some q' => exact ⟨q', rfl⟩
          | none => exact ⟨q, hq⟩
    obtain ⟨q, hq⟩ := hkey
    have hqm := tfind_mem hq
    refine ⟨q, ?_, ?_⟩
    · unfold candidates
      simp only [List.mem_map, List.mem_filter, decide_eq_true_eq]
      exact ⟨(_, q), ⟨hqm, hq⟩, rfl⟩
    · unfold merged at hqm
      simp only [Option.getD_some] at hqm
      rw [List.mem_append] at hqm
      rcases hqm with h | h
      · cases hpk : pkg with
        | none => rw [hpk] at h; simp at h
        | some s =>
          rw [hpk] at h
          simp only [Option.map_some, Option.getD_some, pkgTemplates, mem_templatesOf] at h
          rw [h.2]
      · simp only [dirsTemplates, mem_templatesOf] at h
        rw [h.2]

/-- Non-vacuity: `Any.j2` in the first directory, `StructureType.j2` only in the second, a decoy and a shadowed copy. -/
def exDirs : List Store :=
  [[("Any.j2".toList, 10), ("readme.md".toList, 11)], [("StructureType.j2".toList, 20), ("Any.j2".toList, 21)]]

example : fsList exDirs = ["Any.j2".toList, "StructureType.j2".toList, "readme.md".toList] := by decide

example : (indexOf genTable "StructureType".toList).bind (fun c =>
      (lookupDirs (Hier.ofTable genTable genStops) ".j2".toList 100 [] (some exDirs) none c).map (·.1)) =
    some (some "StructureType.j2".toList) := by decide

example : firstDir exDirs "Any.j2".toList = some (0, 10) ∧ firstDir exDirs "StructureType.j2".toList = some (1, 20) ∧
    getSource (some exDirs) none "./Any.j2".toList = some (.user, 10) := by decide

example : getTemplates ".j2".toList (some exDirs) (some [("__init__.py".toList, 0), ("UnionType.j2".toList, 1)]) =
    [(.user, 0, "Any.j2".toList), (.user, 1, "StructureType.j2".toList), (.user, 1, "Any.j2".toList),
     (.builtin, 0, "UnionType.j2".toList)] := by decide

/-- COUNTERFACTUAL (seeded C16-13): a listing of the FIRST search path only does not see `StructureType.j2`. -/
example : tfind (templatesOf ".j2".toList (fsList (exDirs.take 1))) "StructureType".toList = none ∧
    tfind (dirsTemplates ".j2".toList exDirs) "StructureType".toList = some "StructureType.j2".toList := by decide

/-! ## 7. The construction of the environment as a state machine over the regenerated statement list

`Gen/EnvCtor.lean` is rewritten from the source on every run (translate/env_ctor.py, Python `ast`): EVERY assignment to
`_allow_replacements` under src/nunavut with file, line, function and right-hand side; the statements of
`CodeGenEnvironment.__init__` in order; what the generators add after `create()`.  `constructSM` interprets that list;
the flag is the regenerated right-hand side evaluated over the constructor's inputs — the argument, the loader object,
and an arbitrary boolean for anything the translator did not understand. -/

open Gen.EnvCtor in
/-- Where the flag comes from: one assignment, in the constructor; the only input its right-hand side mentions is the
constructor argument; the only reader is `_add_to_environment`, whose guard is the flag itself (a name already present is
replaced iff the flag is set, else RuntimeError).  (An extra disjunct such as
`or getattr(loader, "masks_builtin_templates", False)` adds `loader.masks_builtin_templates` to `allowInputs`; an
assignment elsewhere adds a row: this theorem then fails with the file and line in `allowAssignments`.) -/
theorem C16_allow_flag_sources :
    allowAssignments.map (fun a => a.1.func) = ["CodeGenEnvironment.__init__"] ∧
    allowInputs = ["allow_filter_test_or_use_query_overwrite"] ∧
    allowReaders = ["CodeGenEnvironment._add_to_environment"] ∧
    addGuard = .ctorArg := by decide

/-- For EVERY loader configuration and every value of anything else the constructor could look at, each right-hand
side `_allow_replacements` is assigned from evaluates to the constructor argument. -/
theorem C16_allow_flag_is_constructor_argument (i : CtorInputs) :
    ∀ a ∈ Gen.EnvCtor.allowAssignments, evalAllow i a.2 = i.allowArg := by
  intro a ha
  simp only [Gen.EnvCtor.allowAssignments, List.mem_singleton] at ha
  subst ha
  rfl

/-- The order in which the constructor fills the collections, and what the generators add after `create()`, are the
ones `construct` (sections 5) describes: Jinja defaults; the flag; additional globals (reserved names raise, the others
through `_add_to_environment`); reserved namespaces, `now_utc`, language globals by plain assignment; language
modules' and the environment's own filters and tests; additional filters; additional tests; then — `DSDLCodeGenerator`
only — instance tests and the generator's own methods. -/
theorem C16_constructor_order :
    Gen.EnvCtor.ctorSteps = canonCtorSteps ∧ Gen.EnvCtor.dsdlGeneratorSteps = canonDsdlSteps ∧
    Gen.EnvCtor.supportGeneratorSteps = [] := by decide

/-- The three ways an environment comes to be (statement list, built-in items installed after `create()`):
`DSDLCodeGenerator`, `SupportGenerator`, a bare `CodeGenEnvironmentBuilder.create()`. -/
def ways (cfg : SMCfg) : List (List Gen.EnvCtor.Step × List (Kind × Name × Owner)) :=
  [(stepsDsdlGenerator, cfg.instanceTests ++ cfg.generatorMethods), (stepsSupportGenerator, []), (stepsBuilder, [])]

/-- The state machine over the regenerated list succeeds exactly when `construct` does, with the same environment, and
ends with `_allow_replacements` equal to the constructor argument — whatever the loader is. -/
theorem C16_state_machine_is_construct (cfg : SMCfg) (i : CtorInputs) : ∀ w ∈ ways cfg,
    okOf (constructSM cfg i w.1) =
      (okOf (construct (cfg.toEnvCfg w.2) i.allowArg i.ug i.uf i.ut)).map fun env => ⟨some i.allowArg, env⟩ := by
  obtain ⟨h1, h2, h3⟩ := C16_constructor_order
  have hg := C16_allow_flag_sources.2.2.2
  intro w hw
  simp only [ways, List.mem_cons, List.not_mem_nil, or_false] at hw
  rcases hw with rfl | rfl | rfl
  · simp only [stepsDsdlGenerator, h1, h2]; exact constructSM_canon_generator hg cfg i
  · simp only [stepsSupportGenerator, h1, h3, List.append_nil]; exact constructSM_canon_builder hg cfg i
  · simp only [stepsBuilder, h1]; exact constructSM_canon_builder hg cfg i

/-- `_allow_replacements` after a construction is a function of the constructor argument only: any loader
configuration, any additional globals / filters / tests, any of the three ways. -/
theorem C16_allow_flag_after_construction (cfg : SMCfg) (i : CtorInputs) (w) (hw : w ∈ ways cfg) (st : SMState)
    (h : constructSM cfg i w.1 = .ok st) : st.allow = some i.allowArg := by
  have := C16_state_machine_is_construct cfg i w hw
  rw [okOf_eq_some.mpr h] at this
  cases hc : okOf (construct (cfg.toEnvCfg w.2) i.allowArg i.ug i.uf i.ut) with
  | none => rw [hc] at this; cases this
  | some env => rw [hc] at this; cases this; rfl

/-- (b) For EVERY loader configuration (`i.loader`: any set of boolean attributes the loader object may have, e.g.
`masks_builtin_templates = true`), every additional_* map and each of the three ways: with the constructor argument off,
a construction that succeeds leaves every built-in name — of all three collections, whichever statement installs it, before
or after the user's — with its built-in value. -/
theorem C16_every_loader_configuration_keeps_builtins (cfg : SMCfg) (i : CtorInputs) (hoff : i.allowArg = false)
    (w) (hw : w ∈ ways cfg) (st st₀ : SMState) (h : constructSM cfg i w.1 = .ok st)
    (h₀ : constructSM cfg { i with ug := [], uf := [], ut := [] } w.1 = .ok st₀) :
    (∀ n v, cget st₀.env.filters n = some v → cget st.env.filters n = some v) ∧
    (∀ n v, cget st₀.env.tests n = some v → cget st.env.tests n = some v) ∧
    (∀ n v, cget st₀.env.globals n = some v → cget st.env.globals n = some v) := by
  have e := C16_state_machine_is_construct cfg i w hw
  have e₀ := C16_state_machine_is_construct cfg { i with ug := [], uf := [], ut := [] } w hw
  rw [okOf_eq_some.mpr h] at e
  rw [okOf_eq_some.mpr h₀] at e₀
  simp only [hoff] at e e₀
  cases hc : okOf (construct (cfg.toEnvCfg w.2) false i.ug i.uf i.ut) with
  | none => rw [hc] at e; cases e
  | some env =>
    cases hc₀ : okOf (construct (cfg.toEnvCfg w.2) false [] [] []) with
    | none => rw [hc₀] at e₀; cases e₀
    | some env₀ =>
      rw [hc] at e; rw [hc₀] at e₀
      cases e; cases e₀
      exact C16_user_additions_never_replace_builtins (cfg.toEnvCfg w.2) i.ug i.uf i.ut env env₀
        (okOf_eq_some.mp hc) (okOf_eq_some.mp hc₀)

open Gen.EnvCtor in
/-- The generators cannot switch the flag on: `CodeGenerator.__init__` never calls the builder's setter, the builder
starts with the flag off, only its setter assigns it, and `create()` hands exactly that flag to the constructor.  So
through `DSDLCodeGenerator` / `SupportGenerator` — with or without template directories — a colliding addition raises. -/
theorem C16_generators_never_allow_replacements (i : CtorInputs) :
    evalAllow i generatorAllow = false ∧ builderHandsOn = .ctorArg ∧
    builderFlagAssignments.map (fun a => (a.1.func, a.2)) =
      [("CodeGenEnvironmentBuilder.__init__", .const false),
       ("CodeGenEnvironmentBuilder.set_allow_filter_test_or_use_query_overwrite", .ctorArg)] := by
  refine ⟨rfl, by decide, by decide⟩

/-- Which Jinja loaders exist: FIND_FIRST with user directories drops the package (the user's set REPLACES the built-in
one — `DSDLCodeGenerator`), FIND_ALL keeps both (`SupportGenerator`), without user directories the package is used
under either policy. -/
theorem C16_loader_sources (dirs : List Store) (pkg : Option Store) :
    loaderSources .findFirst (some dirs) pkg = (some dirs, none) ∧
    loaderSources .findAll (some dirs) pkg = (some dirs, pkg) ∧
    loaderSources .findFirst none pkg = (none, pkg) ∧ loaderSources .findAll none pkg = (none, pkg) ∧
    Gen.EnvCtor.dsdlGeneratorFindFirst = true ∧ Gen.EnvCtor.supportGeneratorFindFirst = false := by
  cases pkg <;> simp [loaderSources] <;> decide

/-- Non-vacuity and the counterfactual: over a loader that has `masks_builtin_templates = true`, with the constructor
argument off, (1) a non-colliding additional filter is installed, (2) a filter named like a Jinja built-in raises;
(3) had the flag been assigned from `arg or getattr(loader, "masks_builtin_templates", False)` the same construction
would have replaced the built-in silently. -/
def exSM : SMCfg :=
  { jinjaFilters := [("upper".toList, .jinja)], jinjaTests := [("defined".toList, .jinja)], jinjaGlobals := [("range".toList, .jinja)],
    reservedNs := ["ln".toList], reservedNames := [nowUtc], langGlobals := [("typename_x".toList, .lang)],
    langFilters := [("id".toList, .pre 0)], langTests := [("zero_cost".toList, .pre 0)],
    ownFilters := [("own".toList, .pre 1)], ownTests := [],
    instanceTests := [(.test, "boolean".toList, .post 0)], generatorMethods := [(.filter, "yamlfy".toList, .post 1)] }

def exIn (uf : List (Name × Owner)) : CtorInputs :=
  { allowArg := false, loader := ⟨[("masks_builtin_templates".toList, true)]⟩, unknown := fun _ => true, ug := [], uf := uf, ut := [] }

example : (okOf (constructSM exSM (exIn [("mine".toList, .user 0)]) stepsDsdlGenerator)).map
    (fun st => (cget st.env.filters "mine".toList, cget st.env.filters "upper".toList, st.allow)) =
    some (some (.user 0), some .jinja, some false) := by decide

example : (match constructSM exSM (exIn [("upper".toList, .user 0)]) stepsDsdlGenerator with
    | .error e => some e
    | .ok _ => none) = some (.env (.alreadyDefined "upper".toList)) := by decide

example : (okOf (constructSM exSM (exIn [("upper".toList, .user 0)])
      ([.jinjaDefaults, .setAllow (.or .ctorArg (.loaderAttr "masks_builtin_templates".toList false))] ++
        Gen.EnvCtor.ctorSteps.drop 2 ++ Gen.EnvCtor.dsdlGeneratorSteps))).map
    (fun st => cget st.env.filters "upper".toList) = some (some (.user 0)) := by decide

/-! ## 8. Instance tests in the finished environment of every target language -/

/-- For each target language (c, cpp, py, html) the instance tests found in `env.tests` of a real `DSDLCodeGenerator`
(name and the class the closure is bound to, regenerated on every run) are exactly the model's enumeration over the
class table: none missing, none replaced by a language's own test, none bound to another class.  Together with
`C16_test_names_unambiguous` (no name or alias is claimed by two classes — over ALL roots the code enumerates from,
observed by the translator, so a newly registered class such as `pydsdl.Boolean` whose alias `boolean` is also
`BooleanType`'s breaks it). -/
theorem C16_env_instance_tests_per_language :
    Gen.EnvCtor.envInstanceTests.map (·.1) = ["c".toList, "cpp".toList, "py".toList, "html".toList] ∧
    ∀ L ∈ Gen.EnvCtor.envInstanceTests, (∀ e ∈ genTestList, e ∈ L.2) ∧ (∀ e ∈ L.2, e ∈ genTestList) := by
  decide +kernel

end NunavutVerif.Resolve
