import NunavutVerif.Lemmas.OverwriteFs
/-!
# C12 — regeneration over existing output, extended file-system model

Property theorems only (definitions: `Model/OverwriteFs.lean`, helper lemmas: `Lemmas/OverwriteFs.lean`; the regular-files model
and the command-line layer are in `Properties/C12.lean`).
-/

/-! ## The two statements of C12 over a tree with directories and symbolic links

`Model/OverwriteFs.lean`: entries are regular files, directories and symbolic links; `exists()`, `chmod`, `open` follow links,
`mkdir(parents=True, exist_ok=True)` is transcribed from pathlib, a directory can sit at an output path, a file or a dangling
link in directory position.  Quantifiers: every environment (root or not, any umask), every well-formed tree (`WF`: each
entry sits in a directory), every run / history with non-empty output paths. -/

namespace NunavutVerif.OverwriteFs
open NunavutVerif.Overwrite (Content Mode File FilePP permBits ppContent requestedMode hasSetMode applyPPs)

/-- Statement 2, extended: under `--no-overwrite` *nothing* that existed before the run is changed — no file (content,
mode), no directory (mode; `exist_ok` means untouched), no symbolic link, wherever it lies (also outside the output directory,
behind a link) — whether the run fails or not. -/
theorem C12_fs_no_overwrite_preserves_everything (env : EnvFs) (r : Run) (fs : FS) (hw : WF fs)
    (h : r.allowOverwrite = false) : Pres fs (runRun env r fs).fs := by
  unfold runRun; rw [h]; exact runWrites_noow env _ _ fs hw

/-- … and an output that exists in any form — a regular file, a directory, a link to either — makes the run fail (a
dangling link does not "exist": the run creates its target, which did not exist either). -/
theorem C12_fs_no_overwrite_conflict_fails (env : EnvFs) (r : Run) (fs : FS) (hw : WF fs) (h : r.allowOverwrite = false)
    (hc : ∃ w ∈ r.writes, pathExists fs w.path = true) : (runRun env r fs).err ≠ none := by
  unfold runRun; rw [h]; exact runWrites_noow_conflict_fails env _ _ fs hw hc

/-- Statement 2 over every history: at every `--no-overwrite` step everything that existed before the step is
unchanged. -/
theorem C12_fs_history_no_overwrite (env : EnvFs) (hist : List Run) (fs₀ : FS) (hw : WF fs₀)
    (hps : ∀ r ∈ hist, ∀ w ∈ r.writes, w.path ≠ []) :
    ∀ s ∈ runHistory env hist fs₀, s.2.1.allowOverwrite = false → Pres s.1 s.2.2.fs := by
  intro s hs hno
  obtain ⟨hws, _, heq⟩ := runHistory_wf env hist fs₀ hw hps s hs
  rw [heq]
  exact C12_fs_no_overwrite_preserves_everything env _ _ hws hno

/-- Statement 1 for one file, extended: a successful overwriting write *follows* symbolic links and never replaces them —
afterwards the output path reads (through whatever links) as what this write produced: the rendered content passed through
the external programs, with the requested mode when `SetFileMode` is last; every other entry of the tree is unchanged;
the one entry that changed was a regular file (the link's target, wherever it lies) or did not exist (a dangling link's
target is created).  In particular a directory at the output path cannot end in success. -/
theorem C12_fs_write_follows_links (env : EnvFs) (pps : List FilePP) (w : Write) (fs : FS) (hw : WF fs) (hp : w.path ≠ [])
    (hok : (writeFile env true pps w fs).err = none) :
    ∃ q F, readFile (writeFile env true pps w fs).fs w.path = some F ∧
      realOf (writeFile env true pps w fs).fs w.path = some q ∧
      ppContent pps w.content = some F.content ∧
      (∀ fm, requestedMode pps = some fm → F.mode = permBits fm) ∧
      (∀ x n, fs x = some n → x ≠ q → (writeFile env true pps w fs).fs x = some n) ∧
      ((∃ f, fs q = some (.file f)) ∨ fs q = none) := by
  obtain ⟨q, m, _, he, hres, hframe, hq⟩ := writeFile_allow_ok env pps w fs hw hp hok
  refine ⟨q, (applyPPs (pathStr w.path) pps 0 ⟨w.content, startMode w m⟩).file, by simp [readFile, hres],
    by simp [realOf, hres], ?_, ?_, hframe, hq⟩
  · exact Overwrite.applyPPs_content _ _ _ _ he
  · intro fm hfm
    obtain ⟨pre, rfl⟩ := Overwrite.requestedMode_eq_some hfm
    exact Overwrite.applyPPs_ends_setMode _ _ _ _ _ he

/-- Statement 1 for a run, extended: after a successful overwriting run whose outputs end up in pairwise different real files
(two output paths that are links to one file overwrite each other), every output path reads as the content of its own
write and carries the requested mode — the same for every initial tree, hence the same as in an empty directory —, every
symbolic link is still the same link and every directory that existed has the mode it had (`exist_ok`). -/
theorem C12_fs_overwrite_reads_own_content (env : EnvFs) (r : Run) (fs : FS) (hw : WF fs)
    (hps : ∀ w ∈ r.writes, w.path ≠ []) (h : r.allowOverwrite = true) (hok : (runRun env r fs).err = none)
    (hdist : r.writes.Pairwise fun a b => realOf (runRun env r fs).fs a.path ≠ realOf (runRun env r fs).fs b.path) :
    (∀ w ∈ r.writes, ∃ F, readFile (runRun env r fs).fs w.path = some F ∧ ppContent r.filePPs w.content = some F.content ∧
      ∀ fm, requestedMode r.filePPs = some fm → F.mode = permBits fm) ∧
    (∀ x t, fs x = some (.link t) → (runRun env r fs).fs x = some (.link t)) ∧
    (∀ x m, fs x = some (.dir m) → (runRun env r fs).fs x = some (.dir m)) := by
  unfold runRun at hok hdist ⊢
  rw [h] at hok hdist ⊢
  obtain ⟨k1, k2⟩ := runWrites_allow_keeps env r.filePPs r.writes fs hw hps hok
  refine ⟨?_, k1, k2⟩
  intro w hwm
  obtain ⟨q, m, _, he, hres⟩ := runWrites_allow_reads env r.filePPs r.writes fs hw hps hok hdist w hwm
  refine ⟨(applyPPs (pathStr w.path) r.filePPs 0 ⟨w.content, startMode w m⟩).file, by simp [readFile, hres],
    Overwrite.applyPPs_content _ _ _ _ he, ?_⟩
  intro fm hfm
  obtain ⟨pre, hpre⟩ := Overwrite.requestedMode_eq_some hfm
  rw [hpre] at he ⊢
  exact Overwrite.applyPPs_ends_setMode _ _ _ _ _ he

/-! ### Non-vacuity and the phenomena, kernel-evaluated -/

section ExamplesFs

def xEnv : EnvFs := ⟨false, 0o644, 0o755⟩

/-- `real/` with a read-only `target.h`, a link `lnk.h` to it, a dangling link `dang.h` into `real/`, a dangling link `dl`
in directory position, a read-only directory `od` at an output path, a regular file `fp` in directory position. -/
def xFS : FS :=
  ((((((FS.empty.set ["real"] (.dir 0o755)).set ["real", "target.h"] (.file ⟨"old", 0o444⟩)).set ["lnk.h"] (.link ["real", "target.h"])).set
    ["dang.h"] (.link ["real", "newt.h"])).set ["dl"] (.link ["gone"])).set ["od"] (.dir 0o555)).set ["fp"] (.file ⟨"x", 0o644⟩)

def xW (p : P) (c : Content) : Write := ⟨p, c, true, none⟩

/-- A symbolically linked output: `chmod` and `open` go through the link, the target gets content and mode, the link stays. -/
example :
    let o := writeFile xEnv true [.setMode 0o444] (xW ["lnk.h"] "new") xFS
    o.err = none ∧ o.fs ["lnk.h"] = some (.link ["real", "target.h"]) ∧
    o.fs ["real", "target.h"] = some (.file ⟨"new", 0o444⟩) ∧ readFile o.fs ["lnk.h"] = some ⟨"new", 0o444⟩ ∧
    o.ops = [.chmod ["lnk.h"] 0o664, .openW ["lnk.h"], .chmod ["lnk.h"] 0o444] := by decide

/-- … and with `--no-overwrite` the same path is a conflict; a dangling link is not: its target is created (it did not
exist), the link itself stays. -/
example :
    (writeFile xEnv false [] (xW ["lnk.h"] "new") xFS).err = some (.conflict ["lnk.h"]) ∧
    (writeFile xEnv false [] (xW ["dang.h"] "new") xFS).err = none ∧
    (writeFile xEnv false [] (xW ["dang.h"] "new") xFS).fs ["real", "newt.h"] = some (.file ⟨"new", 0o644⟩) ∧
    (writeFile xEnv false [] (xW ["dang.h"] "new") xFS).fs ["dang.h"] = some (.link ["real", "newt.h"]) := by decide

/-- A directory at the output path: `--no-overwrite` reports the conflict; with overwriting allowed `_handle_overwrite` has
already `chmod`-ed the directory when `open` fails with `EISDIR`. -/
example :
    (writeFile xEnv false [] (xW ["od"] "c") xFS).err = some (.conflict ["od"]) ∧
    (writeFile xEnv true [] (xW ["od"] "c") xFS).err = some (.isdir ["od"]) ∧
    (writeFile xEnv true [] (xW ["od"] "c") xFS).fs ["od"] = some (.dir 0o775) := by decide

/-- Directory position: missing parents are created (`mkdir -p`), an existing directory is left alone, a regular file or a
dangling link in the way makes `mkdir` raise — `exists()` had said `False` for both, so `--no-overwrite` does not help and
does not hurt: nothing is changed. -/
example :
    (writeFile xEnv true [] (xW ["a", "b", "c.h"] "c") xFS).ops = [.mkdir ["a"], .mkdir ["a", "b"], .openW ["a", "b", "c.h"]] ∧
    (writeFile xEnv true [] (xW ["real", "n.h"] "c") xFS).ops = [.openW ["real", "n.h"]] ∧
    (writeFile xEnv false [] (xW ["fp", "x.h"] "c") xFS).err = some (.exists_ ["fp"]) ∧
    (writeFile xEnv false [] (xW ["dl", "x.h"] "c") xFS).err = some (.exists_ ["dl"]) ∧
    (writeFile xEnv true [] (xW ["od", "x.h"] "c") xFS).err = some (.eacces ["od", "x.h"]) ∧
    (writeFile ⟨true, 0o644, 0o755⟩ true [] (xW ["od", "x.h"] "c") xFS).err = none := by decide

/-- Why the run-level statement needs outputs in different real files: two output paths that are the same file through a
link overwrite each other. -/
example :
    let o := runRun xEnv ⟨true, [], [xW ["real", "target.h"] "first", xW ["lnk.h"] "second"]⟩ xFS
    o.err = none ∧ readFile o.fs ["real", "target.h"] = some ⟨"second", 0o664⟩ ∧
    realOf o.fs ["real", "target.h"] = realOf o.fs ["lnk.h"] := by decide

/-- DEFECT (unchanged code, repaired by `fix_copy_header_into_directory`): a copied support resource whose output path is an
existing directory — `shutil.copy` succeeds by writing *into* the directory; the output path still is a directory (negation of
statement 1 for this file) and `SetFileMode 0o444` lands on the directory.  The repaired code (`writeFile`) fails with
`EISDIR` like the template path. -/
example :
    let w : Write := ⟨["od"], "res", true, some 0o644⟩
    (copyIntoDirBeforeFix xEnv [.setMode 0o444] w "serialization.h" xFS).err = none ∧
    readFile (copyIntoDirBeforeFix xEnv [.setMode 0o444] w "serialization.h" xFS).fs ["od"] = none ∧
    (copyIntoDirBeforeFix xEnv [.setMode 0o444] w "serialization.h" xFS).fs ["od"] = some (.dir 0o444) ∧
    (copyIntoDirBeforeFix xEnv [.setMode 0o444] w "serialization.h" xFS).fs ["od", "serialization.h"] =
      some (.file ⟨"res", 0o644⟩) ∧
    (writeFile xEnv true [.setMode 0o444] w xFS).err = some (.isdir ["od"]) := by decide

end ExamplesFs

end NunavutVerif.OverwriteFs
