import NunavutVerif.Lemmas.GenCppSer
import NunavutVerif.Lemmas.GenCppDe
import NunavutVerif.Lemmas.GenCppFrame
import NunavutVerif.Lemmas.DsdlRepr
import NunavutVerif.Lemmas.DsdlDecode
import NunavutVerif.Properties.C01Refine
import NunavutVerif.Properties.C01RefinePy
/-!
# C01 / C02 / C03 / C04 — the generated C++ codecs refine the DSDL specification

`Model/GenCpp.lean` transcribes what the C++ templates emit into `serialize(const T&, bitspan)` and
`deserialize(T&, const_bitspan)` (up-front capacity check, `bitspan` cursor, `padAndMoveToAlignment`, `setZeros`,
`setBit`, `setUxx`/`setIxx`/`setF*` with the emitted saturation code, element loops, length prefixes, `subspan` +
nested call, delimiter header written after the nested call, union tag chain; `getBit`/`getUxx`/`getIxx`/`getF*` with
implicit zero extension, `align_offset_to<8>`, in-place `std::array` elements, `clear()`/`reserve()`/`push_back` for
variable-length arrays, `subspan()` / `subspan_bytes(header)`, `set_x()`/`get_x_if()`, the `Error::…` codes,
`min(offset, capacity_bits) / 8`) on top of the C14 models of the `bitspan` operations (`Model/BitsCpp.lean`).
The theorems below say that this implementation-shaped model **refines** the specification `Model/Dsdl.lean` — for
*every* type, object, buffer (its length is the capacity), prior content of the destination object,
`enable_serialization_asserts` on and off and every sound alignment oracle; by structural induction over the type,
from the C14 contracts of the `bitspan` operations.

Hypotheses, all of them facts PyDSDL / the C++ type system guarantee: `wf`/`wfC` (widths, capacities),
`isComposite (topInner t)` (generated functions exist for composites), `hasTy` (the object — also the destination
object of `deserialize` — has the shape of the type), `storageOK` (integers fit the member's `std::uintN_t` /
`std::intN_t`, `float` members hold binary32 values), `WF buf` (bytes are bytes), `Opts.Sound` (the generation-time
oracle claims alignment only where it holds; it only decides which assertions are emitted),
`clearFirst = true` (the template as it is, with `reference.clear()` before the `push_back` loop).
-/
namespace NunavutVerif.GenCpp
open NunavutVerif.Dsdl NunavutVerif.Bits
open NunavutVerif.GenC (eTooSmall eBadArrayLength eBadUnionTag eBadDelimiterHeader embedS embedD storageOK wfC
  exactOrc trivVal)

/-- The oracle of the driver (GenC's exact residue analysis; by the structural tie: PyDSDL's `is_aligned_at_byte`)
is sound. -/
theorem C01_genCpp_exact_oracle_sound (asserts clearFirst : Bool) :
    Opts.Sound { orc := exactOrc, asserts := asserts, clearFirst := clearFirst } :=
  fun _ h => h

/-! ## Serialization -/

/-- (b) `out_buffer.size() < bit_length_set.max` ⇒ `-Error::SerializationBufferTooSmall`, returned before the
object is looked at and before any `bitspan` operation (the model's first branch). -/
theorem C01_genCpp_buffer_too_small (o : Opts) (hs : o.Sound) (t : Ty) (hc : isComposite (topInner t) = true)
    (v : Val) (ht : hasTy t v = true) (buf : Buf) (h : 8 * buf.length < maxBits (topInner t)) :
    serializeCpp o t v buf = .error eTooSmall :=
  serializeCpp_tooSmall o hs t hc v ht buf h

/-- (c) Otherwise the generated serializer returns `serBytes`'s length and leaves exactly `serBytes t obj` in the
first bytes of the buffer (whatever the buffer held before), or returns the code of the specification's error
(`SerializationBadArrayLength`, `RepresentationBadUnionTag`). -/
theorem C01_genCpp_serialize_refines (o : Opts) (hs : o.Sound) (t : Ty) (hw : wf t = true) (hwC : wfC t = true)
    (hc : isComposite (topInner t) = true) (v : Val) (ht : hasTy t v = true) (hst : storageOK t v = true)
    (buf : Buf) (hwf : WF buf) (hroom : maxBits (topInner t) ≤ 8 * buf.length) :
    match serBytes t v with
    | .ok bytes => ∃ buf', serializeCpp o t v buf = .ok (buf', bytes.length) ∧ buf'.take bytes.length = bytes ∧
        buf'.length = buf.length ∧ WF buf'
    | .error e => serializeCpp o t v buf = .error (embedS e) :=
  serializeCpp_refines o hs t hw hwC hc v ht hst buf hwf hroom

/-- The same against `serBuf` (the spec's "serialize into a buffer of `cap` bytes"), all capacities at once. -/
theorem C01_genCpp_serialize_eq_serBuf (o : Opts) (hs : o.Sound) (t : Ty) (hw : wf t = true) (hwC : wfC t = true)
    (hc : isComposite (topInner t) = true) (v : Val) (ht : hasTy t v = true) (hst : storageOK t v = true)
    (buf : Buf) (hwf : WF buf) :
    (serializeCpp o t v buf).map (fun r => r.1.take r.2) = (serBuf t v buf.length).mapError embedS := by
  unfold serBuf
  by_cases h : buf.length * 8 < maxBits (topInner t)
  · rw [if_pos h, serializeCpp_tooSmall o hs t hc v ht buf (by omega)]
    rfl
  · rw [if_neg h]
    have := serializeCpp_refines o hs t hw hwC hc v ht hst buf hwf (by omega)
    cases hsb : serBytes t v with
    | error e => rw [hsb] at this; rw [this]; rfl
    | ok bytes =>
      rw [hsb] at this
      obtain ⟨buf', h1, h2, _⟩ := this
      rw [h1]
      simp [Except.map, Except.mapError, h2]

/-- The returned size never exceeds the capacity of the span the caller supplied. -/
theorem C01_genCpp_reported_size_le_capacity (o : Opts) (hs : o.Sound) (t : Ty) (hw : wf t = true)
    (hwC : wfC t = true) (hc : isComposite (topInner t) = true) (v : Val) (ht : hasTy t v = true)
    (hst : storageOK t v = true) (buf : Buf) (hwf : WF buf) (buf' : Buf)
    (n : Nat) (h : serializeCpp o t v buf = .ok (buf', n)) : n ≤ buf.length := by
  have hroom : maxBits (topInner t) ≤ 8 * buf.length := by
    apply Nat.le_of_not_lt
    intro hlt
    rw [serializeCpp_tooSmall o hs t hc v ht buf hlt] at h
    cases h
  have := serializeCpp_refines o hs t hw hwC hc v ht hst buf hwf hroom
  cases hsb : serBytes t v with
  | error e => rw [hsb] at this; rw [this] at h; cases h
  | ok bytes =>
    rw [hsb] at this
    obtain ⟨b2, h1, _⟩ := this
    rw [h1] at h
    cases h
    simp only [serBytes, serTop] at hsb
    rw [map_eq_ok] at hsb
    obtain ⟨bits, hb, rfl⟩ := hsb
    have := (lenOK (topInner t) (wf_topInner hw) v bits hb).2.1
    rw [packBytes_length]
    omega

/-- (a) Memory safety of serialization (serves C04): no `bitspan` operation of the generated serializer — `setZeros`,
`setBit`, `setUxx`, `setIxx`, `padAndMoveToAlignment`, the `copyTo` inside them — ever indexes outside the span it was
given, and no `subspan` window leaves the buffer (`Err.prim` — `oob`, and the `fuel`/`wrap`/`usage` conditions of the
primitive models — is unreachable), for all objects incl. counts and tags out of range, all buffers incl. empty. -/
theorem C04_genCpp_serialize_memory_safe (o : Opts) (hs : o.Sound) (t : Ty) (hw : wf t = true) (hwC : wfC t = true)
    (hc : isComposite (topInner t) = true) (v : Val) (ht : hasTy t v = true) (hst : storageOK t v = true)
    (buf : Buf) (hwf : WF buf) (e : Bits.Err) :
    serializeCpp o t v buf ≠ .error (.prim e) := by
  by_cases h : 8 * buf.length < maxBits (topInner t)
  · rw [serializeCpp_tooSmall o hs t hc v ht buf h]
    intro hh; cases hh
  · have := serializeCpp_refines o hs t hw hwC hc v ht hst buf hwf (by omega)
    cases hsb : serBytes t v with
    | error e' =>
      rw [hsb] at this; rw [this]
      cases e' <;> intro hh <;> cases hh
    | ok bytes =>
      rw [hsb] at this
      obtain ⟨buf', h1, _⟩ := this
      rw [h1]; intro hh; cases hh

/-- Every exit of the generated serializer is success or one of the documented `Error` codes; in particular no
`bitspan` operation in the body ever answers `SerializationBufferTooSmall` once the up-front check has passed
(C04, totality). -/
theorem C04_genCpp_serialize_exits (o : Opts) (hs : o.Sound) (t : Ty) (hw : wf t = true) (hwC : wfC t = true)
    (hc : isComposite (topInner t) = true) (v : Val) (ht : hasTy t v = true) (hst : storageOK t v = true)
    (buf : Buf) (hwf : WF buf) :
    (∃ r, serializeCpp o t v buf = .ok r ∧ maxBits (topInner t) ≤ 8 * buf.length) ∨
      (serializeCpp o t v buf = .error eTooSmall ∧ 8 * buf.length < maxBits (topInner t)) ∨
      serializeCpp o t v buf = .error eBadArrayLength ∨ serializeCpp o t v buf = .error eBadUnionTag := by
  by_cases h : 8 * buf.length < maxBits (topInner t)
  · exact Or.inr (Or.inl ⟨serializeCpp_tooSmall o hs t hc v ht buf h, h⟩)
  · have := serializeCpp_refines o hs t hw hwC hc v ht hst buf hwf (by omega)
    have hrej := serOK (topInner t) v (hasTy_topInner ht)
    cases hsb : serBytes t v with
    | error e' =>
      rw [hsb] at this
      simp only [serBytes, serTop] at hsb
      rw [map_eq_error] at hsb
      cases hr : representable (topInner t) v with
      | true => obtain ⟨bs, hb⟩ := hrej.1 hr; rw [hb] at hsb; cases hsb
      | false =>
        obtain ⟨e2, he2, hk⟩ := hrej.2 hr
        rw [he2] at hsb; cases hsb
        rcases hk with rfl | rfl
        · exact Or.inr (Or.inr (Or.inl this))
        · exact Or.inr (Or.inr (Or.inr this))
    | ok bytes =>
      rw [hsb] at this
      obtain ⟨buf', h1, _⟩ := this
      exact Or.inl ⟨_, h1, by omega⟩

/-- Frame of the generated serializer (C04): a call that succeeds keeps the size of the buffer and leaves every byte
from the returned size on exactly as it was — it writes nothing beyond what it reports (every `bitspan` setter
changes exactly the addressed bits; unlike the C code there is no overrun to the next byte boundary).  No hypothesis
on the type, the object or the options: every successful run of the model.  (The compiled code is checked for the
same by the harness shim, `tail_untouched`.) -/
theorem C04_genCpp_serialize_writes_within_reported_size (o : Opts) (t : Ty) (v : Val) (buf buf' : Buf) (n : Nat)
    (hwf : WF buf) (h : serializeCpp o t v buf = .ok (buf', n)) :
    buf'.length = buf.length ∧ WF buf' ∧ buf'.drop n = buf.drop n :=
  ⟨(serializeCpp_frame o t v buf buf' n h).1, (serializeCpp_frame o t v buf buf' n h).2.1 hwf,
    serializeCpp_tail_untouched o t v buf buf' n hwf h⟩

/-! ## Deserialization -/

/-- (d) The generated deserializer returns exactly what the specification returns on the supplied bytes: the object
(implicit zero extension where the data ends early, implicit truncation where it is longer, delimited members
confined to their header by `subspan_bytes`), the consumed size `min(offset, capacity_bits) / 8`, and the code of the
specification's error (`SerializationBadArrayLength`, `RepresentationBadUnionTag`,
`RepresentationBadDelimiterHeader`) — whatever the destination object held before the call. -/
theorem C02_genCpp_deserialize_refines (o : Opts) (hs : o.Sound) (hcl : o.clearFirst = true) (t : Ty)
    (hw : wf t = true) (hwC : wfC t = true) (hc : isComposite (topInner t) = true)
    (prior : Val) (hp : hasTy t prior = true) (buf : Buf) (hwf : WF buf) :
    deserializeCpp o t prior buf = (deBytes t buf).mapError embedD :=
  deserializeCpp_refines o hs hcl t hw hwC hc prior hp buf hwf

/-- `consumed ≤ supplied`, on the implementation model. -/
theorem C02_genCpp_consumed_le_supplied (o : Opts) (hs : o.Sound) (hcl : o.clearFirst = true) (t : Ty)
    (hw : wf t = true) (hwC : wfC t = true) (hc : isComposite (topInner t) = true)
    (prior : Val) (hp : hasTy t prior = true) (buf : Buf) (hwf : WF buf)
    (v : Val) (n : Nat) (h : deserializeCpp o t prior buf = .ok (v, n)) : n ≤ buf.length := by
  rw [deserializeCpp_refines o hs hcl t hw hwC hc prior hp buf hwf] at h
  have hlen : (unpackBytes buf).length = 8 * buf.length := unpackBytes_length buf
  simp only [deBytes, deTop, hlen] at h
  cases hsp : deBits (topInner t) (unpackBytes buf) with
  | error e => rw [hsp] at h; cases h
  | ok r =>
    obtain ⟨v', used⟩ := r
    rw [hsp] at h
    simp only [Except.mapError] at h
    cases h
    omega

/-- Implicit zero extension on the implementation model: the generated deserializer returns the same object for a
byte string and for the same string followed by any number of zero bytes (the getters of a `const_bitspan` read data
that ends early as zeros, also inside nested objects). -/
theorem C02_genCpp_zero_extension (o : Opts) (hs : o.Sound) (hcl : o.clearFirst = true) (t : Ty)
    (hw : wf t = true) (hwC : wfC t = true) (hc : isComposite (topInner t) = true)
    (prior : Val) (hp : hasTy t prior = true) (bytes : Buf) (hwf : WF bytes) (k : Nat) (v : Val) (n : Nat)
    (h : deserializeCpp o t prior bytes = .ok (v, n)) :
    ∃ n', deserializeCpp o t prior (bytes ++ List.replicate k 0) = .ok (v, n') := by
  have hwf' : WF (bytes ++ List.replicate k 0) := GenC.WF_append hwf (GenC.WF_replicate' k 0 (by decide))
  rw [deserializeCpp_refines o hs hcl t hw hwC hc prior hp _ hwf']
  rw [deserializeCpp_refines o hs hcl t hw hwC hc prior hp _ hwf] at h
  unfold deBytes deTop at h ⊢
  rw [unpackBytes_append, unpackBytes_zeros]
  cases hsp : deBits (topInner t) (unpackBytes bytes) with
  | error e => rw [hsp] at h; cases h
  | ok r =>
    obtain ⟨v', m⟩ := r
    rw [hsp] at h
    simp only [Except.mapError] at h
    cases h
    rw [zxOK (topInner t) _ v m (8 * k) hsp]
    exact ⟨_, rfl⟩

/-- Implicit truncation on the implementation model: bytes that follow a complete object change neither the object
nor the consumed size. -/
theorem C02_genCpp_surplus_ignored (o : Opts) (hs : o.Sound) (hcl : o.clearFirst = true) (t : Ty)
    (hw : wf t = true) (hwC : wfC t = true) (hc : isComposite (topInner t) = true)
    (prior : Val) (hp : hasTy t prior = true) (bytes extra : Buf) (hwf : WF bytes) (hwe : WF extra) (v : Val)
    (h : deserializeCpp o t prior bytes = .ok (v, bytes.length))
    (hfull : ∀ u, deBits (topInner t) (unpackBytes bytes) = .ok (v, u) → u = 8 * bytes.length) :
    deserializeCpp o t prior (bytes ++ extra) = .ok (v, bytes.length) := by
  rw [deserializeCpp_refines o hs hcl t hw hwC hc prior hp _ (GenC.WF_append hwf hwe)]
  rw [deserializeCpp_refines o hs hcl t hw hwC hc prior hp _ hwf] at h
  unfold deBytes deTop at h ⊢
  rw [unpackBytes_append]
  cases hsp : deBits (topInner t) (unpackBytes bytes) with
  | error e => rw [hsp] at h; cases h
  | ok r =>
    obtain ⟨v', m⟩ := r
    rw [hsp] at h
    simp only [Except.mapError] at h
    have hv : v' = v := by injection h with h; injection h
    subst hv
    have hm := hfull m hsp
    subst hm
    have hl : (unpackBytes bytes).length = 8 * bytes.length := unpackBytes_length bytes
    have := pfOK (topInner t) (unpackBytes bytes) (unpackBytes bytes ++ unpackBytes extra) v' (8 * bytes.length) hsp
      (by omega) (by simp [hl]) (by rw [← hl, List.take_length, List.take_left])
    rw [this]
    simp only [List.length_append, hl, Except.mapError]
    congr 2
    omega

/-- Every exit of the generated deserializer is success or one of the three representation errors; the error is
the specification's. -/
theorem C02_genCpp_deserialize_exits (o : Opts) (hs : o.Sound) (hcl : o.clearFirst = true) (t : Ty)
    (hw : wf t = true) (hwC : wfC t = true) (hc : isComposite (topInner t) = true)
    (prior : Val) (hp : hasTy t prior = true) (buf : Buf) (hwf : WF buf) :
    (∃ r, deserializeCpp o t prior buf = .ok r) ∨ deserializeCpp o t prior buf = .error eBadArrayLength ∨
      deserializeCpp o t prior buf = .error eBadUnionTag ∨
      deserializeCpp o t prior buf = .error eBadDelimiterHeader := by
  rw [deserializeCpp_refines o hs hcl t hw hwC hc prior hp buf hwf]
  cases deBytes t buf with
  | ok r => exact Or.inl ⟨r, rfl⟩
  | error e =>
    cases e
    · exact Or.inr (Or.inl rfl)
    · exact Or.inr (Or.inr (Or.inl rfl))
    · exact Or.inr (Or.inr (Or.inr rfl))

/-- (a) Memory safety of deserialization (serves C04): no getter of a `const_bitspan` and no `copyTo` inside it ever
indexes outside the supplied bytes or its temporary (`Err.prim` unreachable; this includes the signed-overflow
condition of the `getIxx` sign extension), for all byte strings incl. empty, lengths and tags out of range,
delimiter headers pointing anywhere, cursors beyond the end of the data. -/
theorem C04_genCpp_deserialize_memory_safe (o : Opts) (hs : o.Sound) (hcl : o.clearFirst = true) (t : Ty)
    (hw : wf t = true) (hwC : wfC t = true) (hc : isComposite (topInner t) = true)
    (prior : Val) (hp : hasTy t prior = true) (buf : Buf) (hwf : WF buf)
    (e : Bits.Err) : deserializeCpp o t prior buf ≠ .error (.prim e) := by
  rw [deserializeCpp_refines o hs hcl t hw hwC hc prior hp buf hwf]
  cases deBytes t buf with
  | ok r => intro h; cases h
  | error e' => cases e' <;> intro h <;> cases h

/-- With `enable_serialization_asserts` no `NUNAVUT_ASSERT` the two templates emit can fail (C04, totality under that
option): the alignment claims of the generator (`offset.is_aligned_at_byte()` turned into
`NUNAVUT_ASSERT(…offset_alings_to_byte())`), the room assertions `max <= out_buffer.size()` at every site, the size
bounds after arrays and nested calls, the alignment of every `subspan`, the final size assertions — on any object,
buffer and destination object. -/
theorem C04_genCpp_no_assertion_fails (o : Opts) (hs : o.Sound) (hcl : o.clearFirst = true) (t : Ty)
    (hw : wf t = true) (hwC : wfC t = true)
    (hc : isComposite (topInner t) = true) (v : Val) (ht : hasTy t v = true) (hst : storageOK t v = true)
    (prior : Val) (hp : hasTy t prior = true) (buf : Buf) (hwf : WF buf) :
    serializeCpp o t v buf ≠ .error .assert ∧ deserializeCpp o t prior buf ≠ .error .assert := by
  constructor
  · by_cases h : 8 * buf.length < maxBits (topInner t)
    · rw [serializeCpp_tooSmall o hs t hc v ht buf h]
      intro hh; cases hh
    · have := serializeCpp_refines o hs t hw hwC hc v ht hst buf hwf (by omega)
      cases hsb : serBytes t v with
      | error e' =>
        rw [hsb] at this; rw [this]
        cases e' <;> intro hh <;> cases hh
      | ok bytes =>
        rw [hsb] at this
        obtain ⟨buf', h1, _⟩ := this
        rw [h1]; intro hh; cases hh
  · rw [deserializeCpp_refines o hs hcl t hw hwC hc prior hp buf hwf]
    cases deBytes t buf with
    | ok r => intro h; cases h
    | error e' => cases e' <;> intro h <;> cases h

/-- Prior-state independence (C04): what the destination object held before the call — members, `std::array`
elements, container contents, the active union alternative — and which assertions / oracle the code was generated
with have no influence on the decoded object, the consumed size or the error. -/
theorem C04_genCpp_deserialize_prior_state_independent (o₁ o₂ : Opts) (h₁ : o₁.Sound) (h₂ : o₂.Sound)
    (hc₁ : o₁.clearFirst = true) (hc₂ : o₂.clearFirst = true) (t : Ty)
    (hw : wf t = true) (hwC : wfC t = true) (hc : isComposite (topInner t) = true)
    (prior₁ prior₂ : Val) (hp₁ : hasTy t prior₁ = true) (hp₂ : hasTy t prior₂ = true) (buf : Buf) (hwf : WF buf) :
    deserializeCpp o₁ t prior₁ buf = deserializeCpp o₂ t prior₂ buf := by
  rw [deserializeCpp_refines o₁ h₁ hc₁ t hw hwC hc prior₁ hp₁ buf hwf,
    deserializeCpp_refines o₂ h₂ hc₂ t hw hwC hc prior₂ hp₂ buf hwf]

/-! ## C03 — round trip and agreement across options and targets -/

/-- Round trip through the two generated functions (C03 on the implementation model): what the serializer leaves
in the buffer, the deserializer maps back as the specification says, into any destination object. -/
theorem C03_genCpp_round_trip (o : Opts) (hs : o.Sound) (hcl : o.clearFirst = true) (t : Ty) (hw : wf t = true)
    (hwC : wfC t = true) (hc : isComposite (topInner t) = true) (v : Val) (ht : hasTy t v = true)
    (hst : storageOK t v = true) (prior : Val) (hp : hasTy t prior = true)
    (buf : Buf) (hwf : WF buf) (buf' : Buf) (n : Nat)
    (h : serializeCpp o t v buf = .ok (buf', n)) :
    deserializeCpp o t prior (buf'.take n) = (deBytes t (buf'.take n)).mapError embedD ∧
      serBytes t v = .ok (buf'.take n) := by
  have hroom : maxBits (topInner t) ≤ 8 * buf.length := by
    apply Nat.le_of_not_lt
    intro hlt
    rw [serializeCpp_tooSmall o hs t hc v ht buf hlt] at h
    cases h
  have := serializeCpp_refines o hs t hw hwC hc v ht hst buf hwf hroom
  cases hsb : serBytes t v with
  | error e => rw [hsb] at this; rw [this] at h; cases h
  | ok bytes =>
    rw [hsb] at this
    obtain ⟨b2, h1, h2, h3, h4⟩ := this
    rw [h1] at h
    cases h
    exact ⟨deserializeCpp_refines o hs hcl t hw hwC hc prior hp _ (GenC.WF_take h4 _), by rw [h2]⟩

/-- Options do not matter (C03): with or without `enable_serialization_asserts`, under any two sound oracles, the
generated serializer returns the same size and bytes (or the same error). -/
theorem C03_genCpp_serialize_options_agree (o₁ o₂ : Opts) (h₁ : o₁.Sound) (h₂ : o₂.Sound) (t : Ty) (hw : wf t = true)
    (hwC : wfC t = true) (hc : isComposite (topInner t) = true) (v : Val) (ht : hasTy t v = true)
    (hst : storageOK t v = true) (buf : Buf) (hwf : WF buf) :
    (serializeCpp o₁ t v buf).map (fun r => r.1.take r.2) = (serializeCpp o₂ t v buf).map (fun r => r.1.take r.2) := by
  rw [C01_genCpp_serialize_eq_serBuf o₁ h₁ t hw hwC hc v ht hst buf hwf,
    C01_genCpp_serialize_eq_serBuf o₂ h₂ t hw hwC hc v ht hst buf hwf]

/-- Cross-target agreement, serialization (C03): the implementation-shaped models of the generated **C++** and **C**
code leave the same bytes in the same buffer and return the same size or the same error code, for either
`target_endianness` rendering of the C code. -/
theorem C03_cpp_c_serialize_agree (oX : Opts) (oC : GenC.Opts) (hX : oX.Sound) (hC : oC.Sound) (t : Ty)
    (hw : wf t = true) (hwC : wfC t = true) (hc : isComposite (topInner t) = true) (v : Val)
    (ht : hasTy t v = true) (hst : storageOK t v = true) (buf : Buf) (hwf : WF buf) :
    (serializeCpp oX t v buf).map (fun r => r.1.take r.2)
      = (GenC.serializeC oC t v buf buf.length).map (fun r => r.1.take r.2) := by
  rw [C01_genCpp_serialize_eq_serBuf oX hX t hw hwC hc v ht hst buf hwf,
    GenC.C01_genC_serialize_eq_serBuf oC hC t hw hwC hc v ht hst buf buf.length hwf (Nat.le_refl _)]

/-- Cross-target agreement, deserialization (C03): the C++ and the C model decode every byte string to the same
object with the same consumed size, or reject it with the same error code. -/
theorem C03_cpp_c_deserialize_agree (oX : Opts) (oC : GenC.Opts) (hX : oX.Sound) (hcl : oX.clearFirst = true)
    (hC : oC.Sound) (t : Ty) (hw : wf t = true) (hwC : wfC t = true) (hc : isComposite (topInner t) = true)
    (prior : Val) (hp : hasTy t prior = true) (buf : Buf) (hwf : WF buf) :
    deserializeCpp oX t prior buf = GenC.deserializeC oC t buf buf.length := by
  rw [deserializeCpp_refines oX hX hcl t hw hwC hc prior hp buf hwf,
    GenC.C02_genC_deserialize_bytes oC hC t hw hwC hc buf hwf]

/-- Cross-target agreement with the **Python** model, serialization (C03): on the objects all three targets accept,
whenever one of the C++ / C / Python implementation-shaped models produces bytes, all three produce exactly these
bytes (= `serBytes`); whenever the specification rejects the object, each reports its rendering of that error. -/
theorem C03_cpp_c_py_serialize_agree (oX : Opts) (oC : GenC.Opts) (env : GenPy.Env) (hX : oX.Sound) (hC : oC.Sound)
    (hE : GenPy.EnvSound env) (t : Ty) (hw : wf t = true) (hwC : wfC t = true) (hpw : GenPy.pyWf t = true)
    (hc : isComposite (topInner t) = true) (v : Val) (ht : hasTy t v = true) (hst : storageOK t v = true)
    (hdom : GenPy.inDom false t v = true) (buf : Buf) (hwf : WF buf)
    (hroom : maxBits (topInner t) ≤ 8 * buf.length) :
    (serializeCpp oX t v buf).map (fun r => r.1.take r.2) = (serBytes t v).mapError embedS ∧
    (GenC.serializeC oC t v buf buf.length).map (fun r => r.1.take r.2) = (serBytes t v).mapError embedS ∧
    GenPy.serializePy env t v = (serBytes t v).mapError GenPy.excOf := by
  have hb : serBuf t v buf.length = serBytes t v := by
    unfold serBuf; rw [if_neg (by omega)]
  refine ⟨?_, ?_, ?_⟩
  · rw [C01_genCpp_serialize_eq_serBuf oX hX t hw hwC hc v ht hst buf hwf, hb]
  · rw [GenC.C01_genC_serialize_eq_serBuf oC hC t hw hwC hc v ht hst buf buf.length hwf (Nat.le_refl _), hb]
  · rw [GenPy.C01_py_serialize_refines_spec env hE t v hw hpw hc hdom]
    cases serBytes t v <;> rfl

/-- Cross-target agreement with the Python model, deserialization (C03): every byte string is decoded to the same
object with the same consumed size by the three models; the C++ / C error codes correspond to Python's `None`. -/
theorem C03_cpp_c_py_deserialize_agree (oX : Opts) (oC : GenC.Opts) (env : GenPy.Env) (hX : oX.Sound)
    (hcl : oX.clearFirst = true) (hC : oC.Sound) (hE : GenPy.EnvSound env) (t : Ty) (hw : wf t = true)
    (hwC : wfC t = true) (hpw : GenPy.pyWf t = true) (hc : isComposite (topInner t) = true)
    (prior : Val) (hp : hasTy t prior = true) (bytes : Buf) (hwf : WF bytes) :
    deserializeCpp oX t prior bytes = GenC.deserializeC oC t bytes bytes.length ∧
    GenPy.deserializePy env t bytes = match deserializeCpp oX t prior bytes with
      | .ok r => .ok (some r)
      | .error _ => .ok none := by
  refine ⟨C03_cpp_c_deserialize_agree oX oC hX hcl hC t hw hwC hc prior hp bytes hwf, ?_⟩
  rw [deserializeCpp_refines oX hX hcl t hw hwC hc prior hp bytes hwf,
    GenPy.C02_py_deserialize_refines_spec env hE t bytes hw hpw hc hwf]
  cases deBytes t bytes <;> rfl

/-! ### non-vacuity -/

/-- `struct { truncated uint5 x; void3; int16 y; bool[3] f; Inner z }`-like type with a delimited member -/
def exTy : Ty :=
  .struct [.uint 5 .trunc, .void 3, .sint 16 .sat, .arr .bool 3,
    .delim 64 (.struct [.uint 3 .sat, .varr (.sint 12 .sat) 2])]

def exVal : Val :=
  .struct [.int 255, .void, .int (-2), .arr [.bool true, .bool false, .bool true],
    .struct [.int 9, .arr [.int (-5), .int 3000]]]

/-- what the destination object holds before `deserialize` -/
def exPrior : Val :=
  .struct [.int 17, .void, .int 99, .arr [.bool true, .bool true, .bool true],
    .struct [.int 5, .arr [.int 1, .int 2]]]

def optPlain : Opts := { orc := exactOrc }
def optAsserts : Opts := { orc := exactOrc, asserts := true }

example : wf exTy = true ∧ wfC exTy = true ∧ hasTy exTy exVal = true ∧ storageOK exTy exVal = true ∧
    hasTy exTy exPrior = true := by decide +kernel

example : maxBits exTy = 128 := by decide +kernel

example : (serializeCpp optPlain exTy exVal (List.replicate 16 255)).map (fun r => r.1.take r.2)
    = .ok [31, 254, 255, 5, 5, 0, 0, 0, 23, 216, 255, 255, 3] := by decide +kernel

example : (serializeCpp optAsserts exTy exVal (List.replicate 16 255)).map (fun r => r.1.take r.2)
    = (serBytes exTy exVal).mapError embedS := by decide +kernel

example : serializeCpp optAsserts exTy exVal (List.replicate 15 255) = .error eTooSmall := by decide +kernel

example : (serializeCpp optPlain exTy exVal (List.replicate 20 85)).map (fun r => r.1.drop r.2)
    = .ok (List.replicate 7 85) := by decide +kernel

example : serializeCpp optPlain (.struct [.varr .bool 2]) (.struct [.arr [.bool true, .bool true, .bool false]])
    (List.replicate 4 0) = .error eBadArrayLength := by decide +kernel

example : deserializeCpp optAsserts exTy exPrior [31, 254, 255, 5, 5, 0, 0, 0, 23, 216, 255, 255, 3]
    = .ok (.struct [.int 31, .void, .int (-2), .arr [.bool true, .bool false, .bool true],
        .struct [.int 7, .arr [.int (-5), .int 2047]]], 13) := by decide +kernel

/-- implicit zero extension: two bytes only; nothing of `exPrior` survives -/
example : deserializeCpp optPlain exTy exPrior [31, 254]
    = .ok (.struct [.int 31, .void, .int 254, .arr [.bool false, .bool false, .bool false],
        .struct [.int 0, .arr []]], 2) := by decide +kernel

example : deserializeCpp optPlain exTy exPrior [31, 254, 255, 5, 9, 0, 0, 0, 23] = .error eBadDelimiterHeader := by
  decide +kernel

example : deserializeCpp optPlain exTy exPrior [31, 254, 255, 5, 2, 0, 0, 0, 23, 3] = .error eBadArrayLength := by
  decide +kernel

/-! The hypothesis `clearFirst = true` is necessary: the template before fix 46d1abc (no `reference.clear()`) appends
the decoded elements to what the container held — the result depends on the destination's prior state. -/

def optNoClear : Opts := { orc := exactOrc, clearFirst := false }
def exTy3 : Ty := .struct [.varr (.uint 8 .sat) 4]

example : deserializeCpp optPlain exTy3 (.struct [.arr [.int 9, .int 9]]) [1, 7] = .ok (.struct [.arr [.int 7]], 2) := by
  decide +kernel
example : deserializeCpp optNoClear exTy3 (.struct [.arr [.int 9, .int 9]]) [1, 7]
    = .ok (.struct [.arr [.int 9, .int 9, .int 7]], 2) := by decide +kernel
example : deserializeCpp optNoClear exTy3 (.struct [.arr [.int 9, .int 9]]) [1, 7]
    ≠ (deBytes exTy3 [1, 7]).mapError embedD := by decide +kernel

/-! The soundness hypothesis on the oracle is what keeps the emitted alignment assertions from firing: an oracle that
claims alignment everywhere makes the generator emit `NUNAVUT_ASSERT(out_buffer.offset_alings_to_byte())` before the
`uint8` member of `struct { uint3 a; uint8 b }`, which aborts.  (Unlike in C, the bytes do not depend on the oracle:
the C++ templates have no alignment-dependent fast path.) -/

def liar (a : Bool) : Opts := { orc := fun _ => true, asserts := a }
def exTy2 : Ty := .struct [.uint 3 .sat, .uint 8 .sat]
def exVal2 : Val := .struct [.int 5, .int 255]

example : serBytes exTy2 exVal2 = .ok [253, 7] := by decide +kernel
example : serializeCpp (liar false) exTy2 exVal2 [0, 0] = .ok ([253, 7], 2) := by decide +kernel
example : serializeCpp (liar true) exTy2 exVal2 [0, 0] = .error .assert := by decide +kernel
example : deserializeCpp (liar true) exTy2 (trivVal exTy2) [253, 7] = .error .assert := by decide +kernel

end NunavutVerif.GenCpp
