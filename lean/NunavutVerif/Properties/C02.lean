import NunavutVerif.Lemmas.DsdlDecode
import NunavutVerif.Lemmas.DsdlBytes
/-!
# C02 — the decoder's oracle: totality, its three errors, zero extension, truncation, consumed size

Property theorems only.  `deBits`/`deTop`/`deBytes` are total functions (Lean definitions by structural
recursion), so "every byte string is either decoded or rejected" holds by construction; the theorems say
what the outcome is.  Quantifiers: all types, all bit / byte strings (no well-formedness needed here).
That every representation the serializer produces is accepted (and gives back the value) is
`C03_round_trip_*`.
-/
namespace NunavutVerif.Dsdl

/-- The only errors are the three representation errors (by the type of `deBits`), and each can only
come out of a type that contains the constructor it belongs to: no variable-length array ⇒ never
`badArrayLength`, no union ⇒ never `badUnionTag`, no (nested) delimited member ⇒ never
`badDelimiterHeader`.  In particular types made of primitives, fixed arrays and structures decode
every input. -/
theorem C02_error_needs_constructor (t : Ty) (bs : List Bool) (e : DeErr)
    (h : deBits t bs = .error e) :
    (e = .badArrayLength ∧ hasVarr t = true) ∨ (e = .badUnionTag ∧ hasUnion t = true) ∨
    (e = .badDelimiterHeader ∧ hasDelim t = true) := by
  have := originOK t bs e h
  cases e <;> simp_all [needs]

/-- Array length above capacity: exactly then the array itself is rejected (elements may still fail). -/
theorem C02_bad_array_length_iff (t : Ty) (cap : Nat) (bs : List Bool) (e : DeErr) :
    deBits (.varr t cap) bs = .error e ↔
      (readNat (prefixBits cap) bs > cap ∧ e = .badArrayLength) ∨
      (readNat (prefixBits cap) bs ≤ cap ∧
        deAllWith (deBits t) (readNat (prefixBits cap) bs) (bs.drop (prefixBits cap)) = .error e) := by
  simp only [deBits]
  split
  · rename_i h
    constructor
    · intro he; cases he; exact Or.inl ⟨h, rfl⟩
    · rintro (⟨_, rfl⟩ | ⟨h', _⟩)
      · rfl
      · omega
  · rename_i h
    split
    · rename_i e' h1
      constructor
      · intro he; cases he; exact Or.inr ⟨by omega, h1⟩
      · rintro (⟨h', _⟩ | ⟨_, h2⟩)
        · omega
        · rw [h1] at h2; cases h2; rfl
    · rename_i vs used h1
      constructor
      · intro he; cases he
      · rintro (⟨h', _⟩ | ⟨_, h2⟩)
        · omega
        · rw [h1] at h2; cases h2

/-- Union tag out of range: exactly then the union itself is rejected. -/
theorem C02_bad_union_tag_iff (fs : List Ty) (bs : List Bool) (e : DeErr) :
    deBits (.union fs) bs = .error e ↔
      (readNat (tagBits fs.length) bs ≥ fs.length ∧ e = .badUnionTag) ∨
      (readNat (tagBits fs.length) bs < fs.length ∧
        deNth fs (readNat (tagBits fs.length) bs) (bs.drop (tagBits fs.length)) = .error e) := by
  simp only [deBits]
  split
  · rename_i h
    constructor
    · intro he; cases he; exact Or.inl ⟨h, rfl⟩
    · rintro (⟨_, rfl⟩ | ⟨h', _⟩)
      · rfl
      · omega
  · rename_i h
    split
    · rename_i e' h1
      constructor
      · intro he; cases he; exact Or.inr ⟨by omega, h1⟩
      · rintro (⟨h', _⟩ | ⟨_, h2⟩)
        · omega
        · rw [h1] at h2; cases h2; rfl
    · rename_i v used h1
      constructor
      · intro he; cases he
      · rintro (⟨h', _⟩ | ⟨_, h2⟩)
        · omega
        · rw [h1] at h2; cases h2

/-- Delimiter header: rejected exactly when it announces more bytes than remain after the header
(`remaining` saturates at zero: a header read past the end of the data is zero and is accepted); otherwise
the nested object is decoded from exactly the announced bytes. -/
theorem C02_bad_delimiter_header_iff (ext : Nat) (t : Ty) (bs : List Bool) (e : DeErr) :
    deBits (.delim ext t) bs = .error e ↔
      (8 * readNat 32 bs > bs.length - 32 ∧ e = .badDelimiterHeader) ∨
      (8 * readNat 32 bs ≤ bs.length - 32 ∧
        deBits t ((bs.drop 32).take (8 * readNat 32 bs)) = .error e) := by
  simp only [deBits, headerBits, List.length_drop]
  split
  · rename_i h
    constructor
    · intro he; cases he; exact Or.inl ⟨h, rfl⟩
    · rintro (⟨_, rfl⟩ | ⟨h', _⟩)
      · rfl
      · omega
  · rename_i h
    split
    · rename_i e' h1
      constructor
      · intro he; cases he; exact Or.inr ⟨by omega, h1⟩
      · rintro (⟨h', _⟩ | ⟨_, h2⟩)
        · omega
        · rw [h1] at h2; cases h2; rfl
    · rename_i v used h1
      constructor
      · intro he; cases he
      · rintro (⟨h', _⟩ | ⟨_, h2⟩)
        · omega
        · rw [h1] at h2; cases h2

/-- A nested delimited object occupies its header plus exactly the announced bytes, whatever the reader's
version of the type consumes: a longer object is skipped, a shorter one is zero extended inside. -/
theorem C02_delimited_consumes_header (ext : Nat) (t : Ty) (bs : List Bool) (v : Val) (n : Nat)
    (h : deBits (.delim ext t) bs = .ok (v, n)) :
    n = 32 + 8 * readNat 32 bs ∧
      ∃ k, deBits t ((bs.drop 32).take (8 * readNat 32 bs)) = .ok (v, k) := by
  simp only [deBits] at h
  split at h
  · cases h
  · split at h
    · cases h
    · rename_i v' used h1
      cases h
      exact ⟨rfl, used, h1⟩

/-- The reported consumed size never exceeds the supplied size (bits). -/
theorem C02_consumed_le_supplied (t : Ty) (bs : List Bool) (v : Val) (n : Nat)
    (h : deTop t bs = .ok (v, n)) : n ≤ bs.length := by
  unfold deTop at h
  split at h
  · cases h
  · cases h; exact Nat.min_le_right _ _

/-- … and in bytes. -/
theorem C02_consumed_le_supplied_bytes (t : Ty) (bytes : List Nat) (v : Val) (n : Nat)
    (h : deBytes t bytes = .ok (v, n)) : n ≤ bytes.length := by
  unfold deBytes at h
  split at h
  · cases h
  · rename_i v' k hk
    cases h
    have := C02_consumed_le_supplied t _ v k hk
    rw [unpackBytes_length] at this
    omega

/-- Implicit zero extension: appending zero bits never changes a successful decoding (same value, same
end offset) — data that ends early is read as if continued by zeros, also inside nested objects. -/
theorem C02_zero_extension (t : Ty) (bs : List Bool) (v : Val) (n k : Nat)
    (h : deBits t bs = .ok (v, n)) : deBits t (bs ++ zeros k) = .ok (v, n) :=
  zxOK t bs v n k h

/-- On bytes: appending zero bytes gives the same value. -/
theorem C02_zero_extension_bytes (t : Ty) (bytes : List Nat) (v : Val) (n k : Nat)
    (h : deBytes t bytes = .ok (v, n)) :
    ∃ n', deBytes t (bytes ++ List.replicate k 0) = .ok (v, n') := by
  unfold deBytes deTop at h ⊢
  rw [unpackBytes_append, unpackBytes_zeros]
  split at h
  · cases h
  · rename_i v' m hm
    split at hm
    · cases hm
    · rename_i v'' m' hm'
      cases hm; cases h
      rw [zxOK (topInner t) _ v m' (8 * k) hm']
      exact ⟨_, rfl⟩

/-- Implicit truncation: a decoding that stayed inside the data depends only on the bits it consumed;
whatever follows a complete object is ignored. -/
theorem C02_truncation (t : Ty) (bs extra : List Bool) (v : Val) (n : Nat)
    (h : deBits t bs = .ok (v, n)) (hn : n ≤ bs.length) :
    deBits t (bs.take n ++ extra) = .ok (v, n) := by
  apply pfOK t bs _ v n h hn
  · simp [List.length_take]; omega
  · rw [List.take_append_of_le_length (by simp [List.length_take]; omega), List.take_take]
    simp

/-- Top-level form: surplus data after a complete object changes neither the value nor the consumed size. -/
theorem C02_surplus_ignored (t : Ty) (bs extra : List Bool) (v : Val) (n : Nat)
    (h : deBits (topInner t) bs = .ok (v, n)) (hn : n = bs.length) :
    deTop t (bs ++ extra) = .ok (v, n) := by
  have := C02_truncation (topInner t) bs extra v n h (by omega)
  rw [hn, List.take_length] at this
  unfold deTop
  rw [this]
  simp [hn]

/-! ### Non-vacuity -/

/-- `{uint3 a; Inner b; uint8 c}` with delimited `Inner = {uint8 x; uint8[<=3] y}`. -/
def exTy2 : Ty :=
  .struct [.uint 3 .sat, .delim 64 (.struct [.uint 8 .sat, .varr (.uint 8 .sat) 3]), .uint 8 .sat]

-- complete object
example : deBytes exTy2 [0x07, 4, 0, 0, 0, 0xFF, 2, 1, 2, 0x77] =
    .ok (.struct [.int 7, .struct [.int 255, .arr [.int 1, .int 2]], .int 0x77], 10) := by decide +kernel
-- the nested object is longer than this reader knows (6 bytes announced): the tail is skipped via the header
example : deBytes exTy2 [0x07, 6, 0, 0, 0, 0xFF, 1, 9, 0xEE, 0xEE, 0xEE, 0x77] =
    .ok (.struct [.int 7, .struct [.int 255, .arr [.int 9]], .int 0x77], 12) := by decide +kernel
-- the nested object is shorter (2 bytes): zero extension *inside*, bounded by the header; `c` is still read
example : deBytes exTy2 [0x07, 2, 0, 0, 0, 0xFF, 2, 0x77] =
    .ok (.struct [.int 7, .struct [.int 255, .arr [.int 0, .int 0]], .int 0x77], 8) := by decide +kernel
-- data ends before the header: header reads as zero, everything is zero, consumed = supplied
example : deBytes exTy2 [0x07] =
    .ok (.struct [.int 7, .struct [.int 0, .arr []], .int 0], 1) := by decide +kernel
example : deBytes exTy2 [] = .ok (.struct [.int 0, .struct [.int 0, .arr []], .int 0], 0) := by
  decide +kernel
-- the three errors
example : deBytes exTy2 [0x07, 5, 0, 0, 0, 0xFF, 2, 1, 2] = .error .badDelimiterHeader := by decide +kernel
example : deBytes exTy2 [0x07, 2, 0, 0, 0, 0xFF, 4, 0x77] = .error .badArrayLength := by decide +kernel
example : deBytes (.union [.bool, .uint 8 .sat]) [2, 1] = .error .badUnionTag := by decide +kernel
-- sign extension
example : deBytes (.struct [.sint 4 .sat, .sint 12 .sat]) [0xF8, 0xFF] =
    .ok (.struct [.int (-8), .int (-1)], 2) := by decide +kernel

end NunavutVerif.Dsdl
