import NunavutVerif.Lemmas.Namespace
/-!
# C11 — types map one-to-one onto files in the output tree; the namespace model is a tree

Property theorems only (definitions: `Model/Namespace.lean`, helper lemmas: `Lemmas/Namespace.lean`).

Quantifiers: every configuration `cfg` (any stropping function `strop`, stropping on or off, any
extension, namespace-file stem and spelling of the output directory), every finite list `ts` of types
whose namespaces start with one root component `r` (any depth, gaps, several versions, duplicates), and
every order `ks` in which the second pass of `build_namespace_tree` may walk its `set` of namespace
names (`hks`: the same members as the index; `buildTree` itself is the instance `ks = index`).

Hypotheses that are *not* about the tree:
* `NamesOk cfg t` — the stropped namespace components and the stropped `Short_M_m` of `t` are
  identifier-shaped (non-empty, no `/`, no `.`) and the extension is a valid `with_suffix` argument.
  This is what `filter_id` guarantees (C09) and what the DSDL grammar guarantees when stropping is off.
  Without it pathlib splits, drops or re-roots segments; the model has those branches (`pjoin`,
  `withSuffix`), the formula theorems do not cover them.
* injectivity of the stropping function on the names involved — the documented exclusion of the
  property ("names folded onto one identifier by the one-way stropping"); only `C11_distinct_types_distinct_files`
  needs it.  Since the `fix:` commit for `Namespace.__eq__` the *tree* theorems need no such hypothesis.
-/
namespace NunavutVerif.Namespace

/-! ## 1. the path formula -/

/-- T1 (types): `outputPath t = outDir / strop(c₁)/…/strop(cₙ) / (strop(Short_M_m) ++ ext)`.
What is stropped: each namespace component separately and the *whole* string `Short_M_m`
(`estrop` = `filter_id(·, "path")` if `enable_stropping` else the identity); the extension is appended
after stropping; `outDir` is `PurePath(output_dir)`. -/
theorem C11_type_path_formula (cfg : Cfg) (t : Ty) (h : NamesOk cfg t) :
    outputPath cfg t =
      .ok (basePath cfg ++ (t.ns.map (estrop cfg) ++ [estrop cfg (shortVer t) ++ cfg.ext])) :=
  outputPath_formula cfg t h

/-- T1 (namespace files): `outDir / strop(c₁)/…/strop(cₙ) / (stem ++ ext)`; here the components are
stropped always, whatever `enable_stropping` says (`Namespace.__init__`). -/
theorem C11_namespace_path_formula (cfg : Cfg) (k : Key) (hk : ∀ c ∈ k, IdSeg (cfg.strop c))
    (hstem : IdSeg cfg.stem) (hext : ValidExt cfg.ext) :
    nsOutputPath cfg k = .ok (basePath cfg ++ k.map cfg.strop ++ [cfg.stem ++ cfg.ext]) :=
  nsOutputPath_formula cfg k hk hstem hext

/-- Type files and namespace files live in the same folder when `make_path` and `Namespace.__init__`
strop alike (stropping enabled, or a language whose `filter_id` is the identity). -/
theorem C11_type_in_its_namespace_folder (cfg : Cfg) (t : Ty) (h : NamesOk cfg t)
    (hsame : ∀ c ∈ t.ns, estrop cfg c = cfg.strop c) (hstem : IdSeg cfg.stem) :
    ∃ folder, outputPath cfg t = .ok (folder ++ [estrop cfg (shortVer t) ++ cfg.ext]) ∧
      nsOutputPath cfg t.ns = .ok (folder ++ [cfg.stem ++ cfg.ext]) := by
  refine ⟨basePath cfg ++ t.ns.map cfg.strop, ?_, ?_⟩
  · rw [outputPath_formula cfg t h, List.map_congr_left hsame, List.append_assoc]
  · exact nsOutputPath_formula cfg t.ns (fun c hc => hsame c hc ▸ h.comps c hc) hstem h.ext

/-! ## 2. injectivity -/

/-- `Short ++ "_" ++ str(M) ++ "_" ++ str(m)` decomposes uniquely (the short name may itself contain
underscores and digits). -/
theorem C11_short_version_decomposes (t u : Ty) (h : shortVer t = shortVer u) :
    t.short = u.short ∧ t.major = u.major ∧ t.minor = u.minor :=
  shortVer_inj h

/-- T2: two types that differ in namespace, short name or version get different files, provided the
stropping function does not fold the names involved (each namespace component, and `Short_M_m`). -/
theorem C11_distinct_types_distinct_files (cfg : Cfg) (t u : Ty) (ht : NamesOk cfg t) (hu : NamesOk cfg u)
    (hcomps : ∀ a ∈ t.ns, ∀ b ∈ u.ns, estrop cfg a = estrop cfg b → a = b)
    (hname : estrop cfg (shortVer t) = estrop cfg (shortVer u) → shortVer t = shortVer u)
    (h : outputPath cfg t = outputPath cfg u) : t = u := by
  rw [outputPath_formula cfg t ht, outputPath_formula cfg u hu] at h
  have h1 := List.append_cancel_left (Except.ok.inj h)
  obtain ⟨h2, h3⟩ := List.append_inj' h1 rfl
  have h4 : estrop cfg (shortVer t) = estrop cfg (shortVer u) :=
    List.append_cancel_right (List.cons.inj h3).1
  obtain ⟨h5, h6, h7⟩ := shortVer_inj (hname h4)
  have h8 := map_injOn (estrop cfg) t.ns u.ns hcomps h2
  cases t; cases u; simp_all

/-- The dotted `full_namespace` string identifies the component list (the model keys namespaces by the
list): joining dot-free components with `.` is injective. -/
theorem C11_dotted_name_identifies_components (xs ys : List Str) (hx : xs ≠ []) (hy : ys ≠ [])
    (hxs : ∀ x ∈ xs, '.' ∉ x) (hys : ∀ y ∈ ys, '.' ∉ y)
    (h : joinWith ['.'] xs = joinWith ['.'] ys) : xs = ys :=
  joinDot_inj xs ys hx hy hxs hys h

/-! ## 3. containment -/

/-- T3: no type file leaves the output directory: the path is `outDir` followed by at least one part,
and no part is empty, contains `/` or is `..`. -/
theorem C11_type_path_inside_outdir (cfg : Cfg) (t : Ty) (h : NamesOk cfg t) :
    ∃ p, outputPath cfg t = .ok p ∧ Inside (basePath cfg) p := by
  refine ⟨_, outputPath_formula cfg t h, _, rfl, by simp, ?_⟩
  intro s hs
  rcases List.mem_append.1 hs with hs | hs
  · obtain ⟨c, hc, rfl⟩ := List.mem_map.1 hs
    exact idseg_safe (h.comps c hc)
  · rw [List.mem_singleton.1 hs]; exact file_safe h.name h.ext

/-- T3 for namespace files. -/
theorem C11_namespace_path_inside_outdir (cfg : Cfg) (k : Key) (hk : ∀ c ∈ k, IdSeg (cfg.strop c))
    (hstem : IdSeg cfg.stem) (hext : ValidExt cfg.ext) :
    ∃ p, nsOutputPath cfg k = .ok p ∧ Inside (basePath cfg) p := by
  refine ⟨_, nsOutputPath_formula cfg k hk hstem hext, k.map cfg.strop ++ [cfg.stem ++ cfg.ext],
    by simp, by simp, ?_⟩
  intro s hs
  rcases List.mem_append.1 hs with hs | hs
  · obtain ⟨c, hc, rfl⟩ := List.mem_map.1 hs
    exact idseg_safe (hk c hc)
  · rw [List.mem_singleton.1 hs]; exact file_safe hstem hext

/-- With identifier-shaped names no `ValueError` leaves `build_namespace_tree`. -/
theorem C11_build_raises_nothing (cfg : Cfg) (ts : List Ty) (r : Str) (ks : List Key)
    (hne : ts ≠ []) (hroot : OneRoot r ts) (hks : ∀ k, k ∈ ks ↔ k ∈ (loop1 cfg ts).idx)
    (hnames : ∀ t ∈ ts, NamesOk cfg t) (hcomps : ∀ t ∈ ts, ∀ c ∈ t.ns, IdSeg (cfg.strop c))
    (hstem : IdSeg cfg.stem) : buildOk cfg (buildWith cfg ts ks) = true := by
  have b := built_buildWith cfg ts r ks hne hroot hks
  obtain ⟨t0, ht0⟩ := List.exists_mem_of_ne_nil ts hne
  have hst := buildWith_store cfg ts r ks hne hroot hks
  unfold buildOk
  rw [List.all_eq_true]
  intro k hk
  have hkns := (b.keys k).1 (hasKey_of_mem_keysOf _ _ hk)
  simp only [Bool.and_eq_true, List.all_eq_true]
  refine ⟨?_, ?_⟩
  · rw [hst, pathOf_built]
    have hkc : ∀ c ∈ k, IdSeg (cfg.strop c) := by
      intro c hc
      obtain ⟨_, n, hn, hp⟩ := hkns
      obtain ⟨t, ht, rfl⟩ := List.mem_map.1 hn
      exact hcomps t ht c (hp.subset hc)
    rw [nsOutputPath_formula cfg k hkc hstem (hnames t0 ht0).ext]; rfl
  · intro e he
    obtain ⟨h1, _, h3⟩ := (b.types k e).1 he
    rw [h3, outputPath_formula cfg e.1 (hnames e.1 h1)]; rfl

/-! ## 4. the namespace model is the prefix tree of the types' namespaces -/

section Tree
variable (cfg : Cfg) (ts : List Ty) (r : Str) (ks : List Key)
variable (hne : ts ≠ []) (hroot : OneRoot r ts) (hks : ∀ k, k ∈ ks ↔ k ∈ (loop1 cfg ts).idx)
include hne hroot hks

/-- T4a: `get_all_namespaces` yields exactly the non-empty prefixes of the types' namespaces — every
namespace between the root and a type, empty intermediate ones included — each exactly once. -/
theorem C11_namespaces_exactly_once :
    (allNamespaces (buildWith cfg ts ks)).Nodup ∧
    ∀ k, k ∈ allNamespaces (buildWith cfg ts ks) ↔ IsNs (nsOf ts) k := by
  have b := built_buildWith cfg ts r ks hne hroot hks
  have hspec := nsGen_spec (nsOf ts) _ b.shape (depthFuel (buildWith cfg ts ks).store [r]) [r] b.rootNs
    (by unfold depthFuel; have := b.shape.bound [r] b.rootNs; simp at this ⊢)
  unfold allNamespaces
  rw [b.root]
  refine ⟨hspec.1, fun k => ?_⟩
  rw [hspec.2]
  exact ⟨fun h => h.1, fun h => ⟨h, root_prefix_of_isNs hroot h⟩⟩

/-- T4b: `get_all_datatypes` yields every type of the input exactly once (and nothing else), each with
the path of §1. -/
theorem C11_types_exactly_once :
    ((allDatatypes (buildWith cfg ts ks)).map (·.1)).Nodup ∧
    ∀ e, e ∈ allDatatypes (buildWith cfg ts ks) ↔ (e.1 ∈ ts ∧ e.2 = outputPath cfg e.1) := by
  have b := built_buildWith cfg ts r ks hne hroot hks
  obtain ⟨hnd, hmem⟩ := C11_namespaces_exactly_once cfg ts r ks hne hroot hks
  unfold allDatatypes
  unfold allNamespaces at hnd hmem
  rw [typeGen_eq]
  refine ⟨?_, fun e => ?_⟩
  · rw [List.map_flatMap]
    unfold List.Nodup
    rw [List.pairwise_flatMap]
    refine ⟨fun k _ => b.typesNodup k, ?_⟩
    refine List.Pairwise.imp_of_mem ?_ hnd
    intro a c _ _ hac x hx y hy hxy
    subst hxy
    obtain ⟨e1, he1, rfl⟩ := List.mem_map.1 hx
    obtain ⟨e2, he2, h2⟩ := List.mem_map.1 hy
    apply hac
    rw [← ((b.types a e1).1 he1).2.1, ← ((b.types c e2).1 he2).2.1, h2]
  · rw [List.mem_flatMap]
    constructor
    · rintro ⟨k, _, he⟩
      have := (b.types k e).1 he
      exact ⟨this.1, this.2.2⟩
    · rintro ⟨h1, h2⟩
      exact ⟨e.1.ns, (hmem _).2 (isNs_ns hroot h1), (b.types _ e).2 ⟨h1, rfl, h2⟩⟩

/-- T4b for a duplicate-free input: the yielded types are a permutation of the input. -/
theorem C11_types_are_a_permutation (hnd : ts.Nodup) :
    ((allDatatypes (buildWith cfg ts ks)).map (·.1)).Perm ts := by
  obtain ⟨h1, h2⟩ := C11_types_exactly_once cfg ts r ks hne hroot hks
  rw [List.perm_ext_iff_of_nodup h1 hnd]
  intro t
  constructor
  · intro h
    obtain ⟨e, he, rfl⟩ := List.mem_map.1 h
    exact ((h2 e).1 he).1
  · intro h
    exact List.mem_map.2 ⟨(t, outputPath cfg t), (h2 _).2 ⟨h, rfl⟩, rfl⟩

omit hne hroot hks in
/-- T4c: `get_all_types` is the namespace traversal with every namespace followed by its own types. -/
theorem C11_all_types_is_namespaces_with_their_types :
    allTypes (buildWith cfg ts ks) =
      (allNamespaces (buildWith cfg ts ks)).flatMap (itemsOf (buildWith cfg ts ks).store) := by
  unfold allTypes allNamespaces; exact allGen_eq _ _ _

/-- T4d: parent/child links.  The root is `[r]` and has no parent; every other namespace `k` has the
parent `k` minus its last component, which is itself a namespace of the tree and lists `k` among its
nested namespaces; nested namespaces are exactly the one-component extensions, without repetition;
walking up the parent links from any namespace ends at the root. -/
theorem C11_parent_child_links :
    (buildWith cfg ts ks).root = [r] ∧
    parentOf (buildWith cfg ts ks).store [r] = none ∧
    (∀ k, IsNs (nsOf ts) k → k ≠ [r] →
      parentOf (buildWith cfg ts ks).store k = some k.dropLast ∧ IsNs (nsOf ts) k.dropLast ∧
      k ∈ nestedOf (buildWith cfg ts ks).store k.dropLast) ∧
    (∀ k c, c ∈ nestedOf (buildWith cfg ts ks).store k ↔ IsNs (nsOf ts) c ∧ c.dropLast = k ∧ k ≠ []) ∧
    (∀ k, (nestedOf (buildWith cfg ts ks).store k).Nodup) ∧
    (∀ k, IsNs (nsOf ts) k → climb (buildWith cfg ts ks).store k.length k = [r]) := by
  have b := built_buildWith cfg ts r ks hne hroot hks
  refine ⟨b.root, b.parentNone [r] rfl, ?_, b.shape.nested, b.shape.nestedNodup, ?_⟩
  · intro k hk hkr
    have hd : k.dropLast ≠ [] := by
      intro e
      apply hkr
      have h1 := take_one_of_isNs hroot hk
      have : k.length ≤ 1 := by have := congrArg List.length e; simp at this; omega
      rw [← h1, List.take_of_length_le this]
    exact ⟨b.parentSome k hk hd, isNs_dropLast hk hd, (b.shape.nested _ _).2 ⟨hk, rfl, hd⟩⟩
  · intro k hk
    rw [climb_spec (nsOf ts) _ b.parentSome b.parentNone _ _ hk (by omega), take_one_of_isNs hroot hk]

/-- T4e: `find_output_path_for_type` started at *any* namespace of the tree finds every type of the
tree and returns its output path; for a type that is not in the tree it raises `KeyError` (the model's
fuel is never exhausted). -/
theorem C11_lookup_total (start : Key) (hstart : IsNs (nsOf ts) start) (t : Ty) :
    (t ∈ ts → findPath (buildWith cfg ts ks).store start t = .hit (outputPath cfg t)) ∧
    (t ∉ ts → findPath (buildWith cfg ts ks).store start t = .keyError) := by
  have b := built_buildWith cfg ts r ks hne hroot hks
  have hty : TypesOk cfg ts (buildWith cfg ts ks).store := ⟨b.types⟩
  have hclimb : climb (buildWith cfg ts ks).store start.length start = [r] := by
    rw [climb_spec (nsOf ts) _ b.parentSome b.parentNone _ _ hstart (by omega), take_one_of_isNs hroot hstart]
  have hq : ∀ k ∈ [[r]], IsNs (nsOf ts) k := by intro k hk; simp at hk; subst hk; exact b.rootNs
  have hsz : qsize (buildWith cfg ts ks).store [[r]] =
      (nsGen (buildWith cfg ts ks).store (depthFuel (buildWith cfg ts ks).store [r]) [r]).length := by
    simp [qsize, sz]
  constructor
  · intro ht
    unfold findPath findPathBy
    cases hl : lookupTy (typesOf (buildWith cfg ts ks).store start) t with
    | some p => simp only; rw [((lookup_own cfg ts _ hty t start).2 p hl).1]
    | none =>
      simp only [hclimb]
      apply bfs_hit cfg ts (nsOf ts) _ b.shape hty t ht (isNs_ns hroot ht) start
      · intro e
        rw [(lookup_own cfg ts _ hty t start).1 ⟨ht, e⟩] at hl
        exact absurd hl (by simp)
      · exact hq
      · rw [hsz]; omega
      · exact ⟨[r], by simp, root_prefix_of_isNs hroot (isNs_ns hroot ht)⟩
  · intro ht
    unfold findPath findPathBy
    have hl : lookupTy (typesOf (buildWith cfg ts ks).store start) t = none := by
      apply lookupTy_none
      intro e he h
      exact ht (h ▸ ((b.types start e).1 he).1)
    simp only [hl, hclimb]
    apply bfs_miss cfg ts (nsOf ts) _ b.shape hty t ht start _ _ hq
    rw [hsz]; omega

/-! ## 5. include paths -/

/-- T5b: `filter_type_to_include_path` of a type of the tree (lookup, then `relative_to` the parent of
the root namespace's folder) is the include path `make_path` gives. -/
theorem C11_type_to_include_path (t : Ty) (ht : t ∈ ts) (h : NamesOk cfg t) (hr : IdSeg (cfg.strop r)) :
    typeToIncludePath cfg (buildWith cfg ts ks) t = includePath cfg t := by
  have b := built_buildWith cfg ts r ks hne hroot hks
  unfold typeToIncludePath
  rw [b.root, (C11_lookup_total cfg ts r ks hne hroot hks [r] b.rootNs t).1 ht,
    outputPath_formula cfg t h]
  simp only
  have hf : nsFolder cfg [r] = basePath cfg ++ [cfg.strop r] := by
    unfold nsFolder
    rw [List.map_cons, List.map_nil, ofSegs_idsegs [cfg.strop r] (by simpa using hr), pathJoin_rel]
    simp only [List.head?_cons]
    exact fun e => idseg_ne_root hr (Option.some.inj e)
  have hp : parentPath (basePath cfg ++ [cfg.strop r]) = basePath cfg := by
    unfold parentPath
    have : basePath cfg ++ [cfg.strop r] ≠ [rootPart] := by
      intro e
      cases hb : basePath cfg with
      | nil => rw [hb] at e; simp at e; exact idseg_ne_root hr e
      | cons x y => rw [hb] at e; simp at e
    simp [this]
  rw [hf, hp, relativeTo_append _ _ (rel_head_ne_root cfg t h)]
  unfold includePath
  rw [makePath_formula cfg t h]

end Tree

/-- T5a: the include path emitted for a referenced type is its output path relative to the output
directory — both are `make_path`.  Nothing about the tree or the root namespace enters: the statement
holds whether `dt` is generated in this run or merely referenced from another root namespace. -/
theorem C11_include_path_is_relative_output_path (cfg : Cfg) (dt : Ty) (h : NamesOk cfg dt) :
    ∃ rel, includePath cfg dt = .ok rel ∧ outputPath cfg dt = .ok (basePath cfg ++ rel) ∧
      relativeTo (basePath cfg ++ rel) (basePath cfg) = .ok rel :=
  ⟨_, makePath_formula cfg dt h, outputPath_formula cfg dt h,
    relativeTo_append _ _ (rel_head_ne_root cfg dt h)⟩

/-- The same type gets the same path in the tree of its own root namespace as the include path a
type of another root emits for it (any two type lists, any two walk orders, one configuration). -/
theorem C11_generated_and_referenced_agree (cfg : Cfg) (ts : List Ty) (r : Str) (ks : List Key)
    (hne : ts ≠ []) (hroot : OneRoot r ts) (hks : ∀ k, k ∈ ks ↔ k ∈ (loop1 cfg ts).idx)
    (dt : Ty) (hdt : dt ∈ ts) (h : NamesOk cfg dt) (start : Key) (hstart : IsNs (nsOf ts) start) :
    ∃ rel, includePath cfg dt = .ok rel ∧
      findPath (buildWith cfg ts ks).store start dt = .hit (.ok (basePath cfg ++ rel)) := by
  obtain ⟨rel, h1, h2, _⟩ := C11_include_path_is_relative_output_path cfg dt h
  exact ⟨rel, h1, by rw [(C11_lookup_total cfg ts r ks hne hroot hks start hstart dt).1 hdt, h2]⟩

/-- `build_namespace_tree` itself (second pass in index order) is an instance of `buildWith`. -/
theorem C11_buildTree_is_instance (cfg : Cfg) (ts : List Ty) :
    buildTree cfg ts = buildWith cfg ts (loop1 cfg ts).idx ∧
    ∀ k, k ∈ (loop1 cfg ts).idx ↔ IsNs (nsOf ts) k :=
  ⟨rfl, (inv1_loop1 cfg ts).idx⟩

/-- The degenerate input: with no types `build_namespace_tree` returns `Namespace("")` — one namespace
with the single empty component, no parent, no types, the namespace file directly in `outDir`. -/
theorem C11_empty_type_list (cfg : Cfg) :
    (buildTree cfg []).root = [[]] ∧ allNamespaces (buildTree cfg []) = [[[]]] ∧
    allDatatypes (buildTree cfg []) = [] ∧ parentOf (buildTree cfg []).store [[]] = none ∧
    pathOf cfg (buildTree cfg []).store [[]] = nsOutputPath cfg [[]] := by
  simp [buildTree, buildWith, loop1, loop2, loop2By, finish, allNamespaces, allDatatypes, nsGen, typeGen,
    depthFuel, maxLen, mkNode, nestedOf, typesOf, parentOf, pathOf, findNode]

/-! ## 6. support files -/

/-- `get_support_output_folder()` of **every** namespace of **every** tree — any type list (the empty
one included, where the tree is `Namespace("")`), any walk order — is the base output path
`PurePath(output_dir)`.  (It is stored, not derived: for the empty root namespace the namespace's own
folder *is* the output directory, so "parent of the root's folder" would be the directory above.) -/
theorem C11_support_folder_is_outdir (cfg : Cfg) (ts : List Ty) (ks : List Key) (k : Key) :
    baseOf cfg (buildWith cfg ts ks).store k = basePath cfg := by
  unfold buildWith
  exact baseOf_finish cfg _ (fun k => by unfold loop2; exact baseOf_loops sameNs cfg ts ks k) k

/-- Every support file goes to `outDir / support-namespace parts / (resource stem ++ ext)` — inside the
output directory, for every tree including the empty one (`--generate-support only`).  Hypotheses:
the parts of `support_namespace` and the resource's stem are identifier-shaped, the resource name is
`stem.suffix` with one proper suffix (`serialization.j2`, `nunavut_support.j2`, …). -/
theorem C11_support_file_inside_outdir (cfg : Cfg) (ts : List Ty) (ks : List Key) (subs : List Str)
    (stem suf : Str) (hsubs : ∀ s ∈ subs, IdSeg s) (hstem : IdSeg stem) (hsuf : suf ≠ [])
    (hsufd : '.' ∉ suf) (hsufs : '/' ∉ suf) (hext : ValidExt cfg.ext) :
    supportTarget cfg (buildWith cfg ts ks) subs (stem ++ '.' :: suf) =
      .ok (basePath cfg ++ (subs ++ [stem ++ cfg.ext])) ∧
    Inside (basePath cfg) (basePath cfg ++ (subs ++ [stem ++ cfg.ext])) := by
  have hname1 : stem ++ '.' :: suf ≠ [] := by simp
  have hname2 : '/' ∉ stem ++ '.' :: suf := by
    simp only [List.mem_append, List.mem_cons, not_or]
    exact ⟨hstem.2.1, by decide, hsufs⟩
  have hname3 : stem ++ '.' :: suf ≠ ['.'] := by
    obtain ⟨h1, _, _⟩ := hstem
    cases stem with
    | nil => exact absurd rfl h1
    | cons c r => intro e; simp at e
  have hname4 : stem ++ '.' :: suf ≠ rootPart := by
    intro e; apply hname2; rw [e]; simp [rootPart]
  refine ⟨?_, subs ++ [stem ++ cfg.ext], rfl, by simp, ?_⟩
  · unfold supportTarget
    rw [C11_support_folder_is_outdir, subFolders_idsegs subs hsubs, pathJoin_rel, pjoin_oneseg _ _ hname1 hname2 hname3,
      withSuffix_last _ _ _ hname4 hext, stemOf_dotted stem suf hstem.1 hsuf hsufd, List.append_assoc]
    cases subs with
    | nil => simp
    | cons a r =>
      simp only [List.head?_cons]
      exact fun e => idseg_ne_root (hsubs a (by simp)) (Option.some.inj e)
  · intro s hs
    rcases List.mem_append.1 hs with hs | hs
    · exact idseg_safe (hsubs s hs)
    · rw [List.mem_singleton.1 hs]; exact file_safe hstem hext

/-! ## Non-vacuity and regression witnesses -/

section Examples
private def s (x : String) : Str := x.toList
/-- C-like stropping: `register` ↦ `_register`, everything else unchanged. -/
private def stropC (x : Str) : Str := if x = s "register" then s "_register" else x
private def cfgC : Cfg := ⟨stropC, true, s ".h", s "_", s "out/"⟩
private def tA : Ty := ⟨[s "vendor", s "register"], s "A", 1, 0⟩
private def tB : Ty := ⟨[s "vendor", s "_register"], s "B", 1, 0⟩
private def tD : Ty := ⟨[s "vendor", s "a", s "b", s "c"], s "Foo_1", 2, 10⟩

/-- The hypotheses of the formula theorems are satisfiable, and the formula gives the familiar path. -/
example : NamesOk cfgC tD := ⟨by decide, by decide, by decide⟩
example : outputPath cfgC tD = .ok [s "out", s "vendor", s "a", s "b", s "c", s "Foo_1_2_10.h"] := by decide
example : OneRoot (s "vendor") [tA, tD] := by unfold OneRoot; decide
/-- A tree with a gap (`vendor.a`, `vendor.a.b` hold no types) yields all five namespaces. -/
example : allNamespaces (buildTree cfgC [tA, tD]) =
    [[s "vendor"], [s "vendor", s "register"], [s "vendor", s "a"], [s "vendor", s "a", s "b"],
     [s "vendor", s "a", s "b", s "c"]] := by decide
example : findPath (buildTree cfgC [tA, tD]).store [s "vendor", s "register"] tD
    = .hit (outputPath cfgC tD) := by decide

/-- Regression witness of the repaired defect: with `Namespace.__eq__` on the *stropped* name the
sibling namespaces `register` and `_register` were one set element, `_register` was never linked
and its type `B` was not yielded (not generated) … -/
example : ((allDatatypes (buildWithBeforeFix cfgC [tA, tB] (loop1 cfgC [tA, tB]).idx)).map (·.1)) = [tA] := by
  decide
/-- … so "every type exactly once" was false for the old code … -/
example : ¬ (∀ e, e ∈ allDatatypes (buildWithBeforeFix cfgC [tA, tB] (loop1 cfgC [tA, tB]).idx) ↔
    (e.1 ∈ [tA, tB] ∧ e.2 = outputPath cfgC e.1)) := by
  intro h
  have := (h (tB, outputPath cfgC tB)).2 ⟨by decide, rfl⟩
  revert this; decide
/-- … while the repaired code yields both (they share the folder `_register`, the documented folding). -/
example : ((allDatatypes (buildTree cfgC [tA, tB])).map (·.1)) = [tA, tB] := by decide
example : outputPath cfgC tA = .ok [s "out", s "vendor", s "_register", s "A_1_0.h"] ∧
    outputPath cfgC tB = .ok [s "out", s "vendor", s "_register", s "B_1_0.h"] := by decide

/-- `make_path` strops only if `enable_stropping`, `Namespace.__init__` always: with stropping switched
off for a language whose `filter_id` is not the identity the namespace file leaves its types' folder
(outside C11's quantifier — the shipped configurations never combine the two; recorded as observed). -/
example : outputPath { cfgC with enable := false } tA = .ok [s "out", s "vendor", s "register", s "A_1_0.h"] ∧
    nsOutputPath { cfgC with enable := false } tA.ns = .ok [s "out", s "vendor", s "_register", s "_.h"] := by
  decide
/-- Support files of an empty tree (`--generate-support only`): inside `out/`; deriving the folder from
the root namespace's own folder instead (its parent) would leave the output directory. -/
example : supportTarget cfgC (buildTree cfgC []) [s "nunavut", s "support"] (s "serialization.j2")
    = .ok [s "out", s "nunavut", s "support", s "serialization.h"] := by decide
example : parentPath (nsFolder cfgC (buildTree cfgC []).root) = [] ∧ basePath cfgC = [s "out"] := by decide
end Examples

end NunavutVerif.Namespace
