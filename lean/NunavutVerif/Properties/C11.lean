import NunavutVerif.Model.Namespace
namespace NunavutVerif.Namespace
end NunavutVerif.Namespace
