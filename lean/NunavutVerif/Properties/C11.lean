import NunavutVerif.Lemmas.Namespace
import NunavutVerif.Lemmas.NamespaceGlue
/-!
# C11 — types map one-to-one onto files in the output tree; the namespace model is a tree

Property theorems only (definitions: `Model/Namespace.lean`, helper lemmas: `Lemmas/Namespace.lean`).

Quantifiers: every configuration `cfg` (any stropping function `strop`, stropping on or off, any
extension, namespace-file stem and spelling of the output directory), every finite list `ts` of types
whose namespaces start with one root component `r` (any depth, gaps, several versions, duplicates), and
every order `ks` in which the second pass of `build_namespace_tree` may walk its `set` of namespace
names (`hks`: the same members as the index; `buildTree` itself is the instance `ks = index`).

Hypotheses that are *not* about the tree:
* `NamesOk cfg t` — the stropped namespace components and the stropped `Short_M_m` of `t` are
  identifier-shaped (non-empty, no `/`, no `.`) and the extension is a valid `with_suffix` argument.
  This is what `filter_id` guarantees (C09) and what the DSDL grammar guarantees when stropping is off.
  Without it pathlib splits, drops or re-roots segments; the model has those branches (`pjoin`,
  `withSuffix`), the formula theorems do not cover them.
* injectivity of the stropping function on the names involved — the documented exclusion of the
  property ("names folded onto one identifier by the one-way stropping"); only `C11_distinct_types_distinct_files`
  needs it.  Since the `fix:` commit for `Namespace.__eq__` the *tree* theorems need no such hypothesis.
-/
namespace NunavutVerif.Namespace

/-! ## 1. the path formula -/

/-- T1 (types): `outputPath t = outDir / strop(c₁)/…/strop(cₙ) / (strop(Short_M_m) ++ ext)`.
What is stropped: each namespace component separately and the *whole* string `Short_M_m`
(`estrop` = `filter_id(·, "path")` if `enable_stropping` else the identity); the extension is appended
after stropping; `outDir` is `PurePath(output_dir)`. -/
theorem C11_type_path_formula (cfg : Cfg) (t : Ty) (h : NamesOk cfg t) :
    outputPath cfg t =
      .ok (basePath cfg ++ (t.ns.map (estrop cfg) ++ [estrop cfg (shortVer t) ++ cfg.ext])) :=
  outputPath_formula cfg t h

/-- T1 (namespace files): `outDir / strop(c₁)/…/strop(cₙ) / (stem ++ ext)`; here the components are
stropped always, whatever `enable_stropping` says (`Namespace.__init__`). -/
theorem C11_namespace_path_formula (cfg : Cfg) (k : Key) (hk : ∀ c ∈ k, IdSeg (cfg.strop c))
    (hstem : IdSeg cfg.stem) (hext : ValidExt cfg.ext) :
    nsOutputPath cfg k = .ok (basePath cfg ++ k.map cfg.strop ++ [cfg.stem ++ cfg.ext]) :=
  nsOutputPath_formula cfg k hk hstem hext

/-- Type files and namespace files live in the same folder when `make_path` and `Namespace.__init__`
strop alike (stropping enabled, or a language whose `filter_id` is the identity). -/
theorem C11_type_in_its_namespace_folder (cfg : Cfg) (t : Ty) (h : NamesOk cfg t)
    (hsame : ∀ c ∈ t.ns, estrop cfg c = cfg.strop c) (hstem : IdSeg cfg.stem) :
    ∃ folder, outputPath cfg t = .ok (folder ++ [estrop cfg (shortVer t) ++ cfg.ext]) ∧
      nsOutputPath cfg t.ns = .ok (folder ++ [cfg.stem ++ cfg.ext]) := by
  refine ⟨basePath cfg ++ t.ns.map cfg.strop, ?_, ?_⟩
  · rw [outputPath_formula cfg t h, List.map_congr_left hsame, List.append_assoc]
  · exact nsOutputPath_formula cfg t.ns (fun c hc => hsame c hc ▸ h.comps c hc) hstem h.ext

/-! ## 2. injectivity -/

/-- `Short ++ "_" ++ str(M) ++ "_" ++ str(m)` decomposes uniquely (the short name may itself contain
underscores and digits). -/
theorem C11_short_version_decomposes (t u : Ty) (h : shortVer t = shortVer u) :
    t.short = u.short ∧ t.major = u.major ∧ t.minor = u.minor :=
  shortVer_inj h

/-- T2: two types that differ in namespace, short name or version get different files, provided the
stropping function does not fold the names involved (each namespace component, and `Short_M_m`). -/
theorem C11_distinct_types_distinct_files (cfg : Cfg) (t u : Ty) (ht : NamesOk cfg t) (hu : NamesOk cfg u)
    (hcomps : ∀ a ∈ t.ns, ∀ b ∈ u.ns, estrop cfg a = estrop cfg b → a = b)
    (hname : estrop cfg (shortVer t) = estrop cfg (shortVer u) → shortVer t = shortVer u)
    (h : outputPath cfg t = outputPath cfg u) : t = u := by
  rw [outputPath_formula cfg t ht, outputPath_formula cfg u hu] at h
  have h1 := List.append_cancel_left (Except.ok.inj h)
  obtain ⟨h2, h3⟩ := List.append_inj' h1 rfl
  have h4 : estrop cfg (shortVer t) = estrop cfg (shortVer u) :=
    List.append_cancel_right (List.cons.inj h3).1
  obtain ⟨h5, h6, h7⟩ := shortVer_inj (hname h4)
  have h8 := map_injOn (estrop cfg) t.ns u.ns hcomps h2
  cases t; cases u; simp_all

/-- The dotted `full_namespace` string identifies the component list (the model keys namespaces by the
list): joining dot-free components with `.` is injective. -/
theorem C11_dotted_name_identifies_components (xs ys : List Str) (hx : xs ≠ []) (hy : ys ≠ [])
    (hxs : ∀ x ∈ xs, '.' ∉ x) (hys : ∀ y ∈ ys, '.' ∉ y)
    (h : joinWith ['.'] xs = joinWith ['.'] ys) : xs = ys :=
  joinDot_inj xs ys hx hy hxs hys h

/-! ## 3. containment -/

/-- T3: no type file leaves the output directory: the path is `outDir` followed by at least one part,
and no part is empty, contains `/` or is `..`. -/
theorem C11_type_path_inside_outdir (cfg : Cfg) (t : Ty) (h : NamesOk cfg t) :
    ∃ p, outputPath cfg t = .ok p ∧ Inside (basePath cfg) p := by
  refine ⟨_, outputPath_formula cfg t h, _, rfl, by simp, ?_⟩
  intro s hs
  rcases List.mem_append.1 hs with hs | hs
  · obtain ⟨c, hc, rfl⟩ := List.mem_map.1 hs
    exact idseg_safe (h.comps c hc)
  · rw [List.mem_singleton.1 hs]; exact file_safe h.name h.ext

/-- T3 for namespace files. -/
theorem C11_namespace_path_inside_outdir (cfg : Cfg) (k : Key) (hk : ∀ c ∈ k, IdSeg (cfg.strop c))
    (hstem : IdSeg cfg.stem) (hext : ValidExt cfg.ext) :
    ∃ p, nsOutputPath cfg k = .ok p ∧ Inside (basePath cfg) p := by
  refine ⟨_, nsOutputPath_formula cfg k hk hstem hext, k.map cfg.strop ++ [cfg.stem ++ cfg.ext],
    by simp, by simp, ?_⟩
  intro s hs
  rcases List.mem_append.1 hs with hs | hs
  · obtain ⟨c, hc, rfl⟩ := List.mem_map.1 hs
    exact idseg_safe (hk c hc)
  · rw [List.mem_singleton.1 hs]; exact file_safe hstem hext

/-- With identifier-shaped names no `ValueError` leaves `build_namespace_tree`. -/
theorem C11_build_raises_nothing (cfg : Cfg) (ts : List Ty) (r : Str) (ks : List Key)
    (hne : ts ≠ []) (hroot : OneRoot r ts) (hks : ∀ k, k ∈ ks ↔ k ∈ (loop1 cfg ts).idx)
    (hnames : ∀ t ∈ ts, NamesOk cfg t) (hcomps : ∀ t ∈ ts, ∀ c ∈ t.ns, IdSeg (cfg.strop c))
    (hstem : IdSeg cfg.stem) : buildOk cfg (buildWith cfg ts ks) = true := by
  have b := built_buildWith cfg ts r ks hne hroot hks
  obtain ⟨t0, ht0⟩ := List.exists_mem_of_ne_nil ts hne
  have hst := buildWith_store cfg ts r ks hne hroot hks
  unfold buildOk
  rw [List.all_eq_true]
  intro k hk
  have hkns := (b.keys k).1 (hasKey_of_mem_keysOf _ _ hk)
  simp only [Bool.and_eq_true, List.all_eq_true]
  refine ⟨?_, ?_⟩
  · rw [hst, pathOf_built]
    have hkc : ∀ c ∈ k, IdSeg (cfg.strop c) := by
      intro c hc
      obtain ⟨_, n, hn, hp⟩ := hkns
      obtain ⟨t, ht, rfl⟩ := List.mem_map.1 hn
      exact hcomps t ht c (hp.subset hc)
    rw [nsOutputPath_formula cfg k hkc hstem (hnames t0 ht0).ext]; rfl
  · intro e he
    obtain ⟨h1, _, h3⟩ := (b.types k e).1 he
    rw [h3, outputPath_formula cfg e.1 (hnames e.1 h1)]; rfl

/-! ## 4. the namespace model is the prefix tree of the types' namespaces -/

section Tree
variable (cfg : Cfg) (ts : List Ty) (r : Str) (ks : List Key)
variable (hne : ts ≠ []) (hroot : OneRoot r ts) (hks : ∀ k, k ∈ ks ↔ k ∈ (loop1 cfg ts).idx)
include hne hroot hks

/-- T4a: `get_all_namespaces` yields exactly the non-empty prefixes of the types' namespaces — every
namespace between the root and a type, empty intermediate ones included — each exactly once. -/
theorem C11_namespaces_exactly_once :
    (allNamespaces (buildWith cfg ts ks)).Nodup ∧
    ∀ k, k ∈ allNamespaces (buildWith cfg ts ks) ↔ IsNs (nsOf ts) k := by
  have b := built_buildWith cfg ts r ks hne hroot hks
  have hspec := nsGen_spec (nsOf ts) _ b.shape (depthFuel (buildWith cfg ts ks).store [r]) [r] b.rootNs
    (by unfold depthFuel; have := b.shape.bound [r] b.rootNs; simp at this ⊢)
  unfold allNamespaces
  rw [b.root]
  refine ⟨hspec.1, fun k => ?_⟩
  rw [hspec.2]
  exact ⟨fun h => h.1, fun h => ⟨h, root_prefix_of_isNs hroot h⟩⟩

/-- T4b: `get_all_datatypes` yields every type of the input exactly once (and nothing else), each with
the path of §1. -/
theorem C11_types_exactly_once :
    ((allDatatypes (buildWith cfg ts ks)).map (·.1)).Nodup ∧
    ∀ e, e ∈ allDatatypes (buildWith cfg ts ks) ↔ (e.1 ∈ ts ∧ e.2 = outputPath cfg e.1) := by
  have b := built_buildWith cfg ts r ks hne hroot hks
  obtain ⟨hnd, hmem⟩ := C11_namespaces_exactly_once cfg ts r ks hne hroot hks
  unfold allDatatypes
  unfold allNamespaces at hnd hmem
  rw [typeGen_eq]
  refine ⟨?_, fun e => ?_⟩
  · rw [List.map_flatMap]
    unfold List.Nodup
    rw [List.pairwise_flatMap]
    refine ⟨fun k _ => b.typesNodup k, ?_⟩
    refine List.Pairwise.imp_of_mem ?_ hnd
    intro a c _ _ hac x hx y hy hxy
    subst hxy
    obtain ⟨e1, he1, rfl⟩ := List.mem_map.1 hx
    obtain ⟨e2, he2, h2⟩ := List.mem_map.1 hy
    apply hac
    rw [← ((b.types a e1).1 he1).2.1, ← ((b.types c e2).1 he2).2.1, h2]
  · rw [List.mem_flatMap]
    constructor
    · rintro ⟨k, _, he⟩
      have := (b.types k e).1 he
      exact ⟨this.1, this.2.2⟩
    · rintro ⟨h1, h2⟩
      exact ⟨e.1.ns, (hmem _).2 (isNs_ns hroot h1), (b.types _ e).2 ⟨h1, rfl, h2⟩⟩

/-- T4b for a duplicate-free input: the yielded types are a permutation of the input. -/
theorem C11_types_are_a_permutation (hnd : ts.Nodup) :
    ((allDatatypes (buildWith cfg ts ks)).map (·.1)).Perm ts := by
  obtain ⟨h1, h2⟩ := C11_types_exactly_once cfg ts r ks hne hroot hks
  rw [List.perm_ext_iff_of_nodup h1 hnd]
  intro t
  constructor
  · intro h
    obtain ⟨e, he, rfl⟩ := List.mem_map.1 h
    exact ((h2 e).1 he).1
  · intro h
    exact List.mem_map.2 ⟨(t, outputPath cfg t), (h2 _).2 ⟨h, rfl⟩, rfl⟩

omit hne hroot hks in
/-- T4c: `get_all_types` is the namespace traversal with every namespace followed by its own types. -/
theorem C11_all_types_is_namespaces_with_their_types :
    allTypes (buildWith cfg ts ks) =
      (allNamespaces (buildWith cfg ts ks)).flatMap (itemsOf (buildWith cfg ts ks).store) := by
  unfold allTypes allNamespaces; exact allGen_eq _ _ _

/-- T4d: parent/child links.  The root is `[r]` and has no parent; every other namespace `k` has the
parent `k` minus its last component, which is itself a namespace of the tree and lists `k` among its
nested namespaces; nested namespaces are exactly the one-component extensions, without repetition;
walking up the parent links from any namespace ends at the root. -/
theorem C11_parent_child_links :
    (buildWith cfg ts ks).root = [r] ∧
    parentOf (buildWith cfg ts ks).store [r] = none ∧
    (∀ k, IsNs (nsOf ts) k → k ≠ [r] →
      parentOf (buildWith cfg ts ks).store k = some k.dropLast ∧ IsNs (nsOf ts) k.dropLast ∧
      k ∈ nestedOf (buildWith cfg ts ks).store k.dropLast) ∧
    (∀ k c, c ∈ nestedOf (buildWith cfg ts ks).store k ↔ IsNs (nsOf ts) c ∧ c.dropLast = k ∧ k ≠ []) ∧
    (∀ k, (nestedOf (buildWith cfg ts ks).store k).Nodup) ∧
    (∀ k, IsNs (nsOf ts) k → climb (buildWith cfg ts ks).store k.length k = [r]) := by
  have b := built_buildWith cfg ts r ks hne hroot hks
  refine ⟨b.root, b.parentNone [r] rfl, ?_, b.shape.nested, b.shape.nestedNodup, ?_⟩
  · intro k hk hkr
    have hd : k.dropLast ≠ [] := by
      intro e
      apply hkr
      have h1 := take_one_of_isNs hroot hk
      have : k.length ≤ 1 := by have := congrArg List.length e; simp at this; omega
      rw [← h1, List.take_of_length_le this]
    exact ⟨b.parentSome k hk hd, isNs_dropLast hk hd, (b.shape.nested _ _).2 ⟨hk, rfl, hd⟩⟩
  · intro k hk
    rw [climb_spec (nsOf ts) _ b.parentSome b.parentNone _ _ hk (by omega), take_one_of_isNs hroot hk]

/-- T4e: `find_output_path_for_type` started at *any* namespace of the tree finds every type of the
tree and returns its output path; for a type that is not in the tree it raises `KeyError` (the model's
fuel is never exhausted). -/
theorem C11_lookup_total (start : Key) (hstart : IsNs (nsOf ts) start) (t : Ty) :
    (t ∈ ts → findPath (buildWith cfg ts ks).store start t = .hit (outputPath cfg t)) ∧
    (t ∉ ts → findPath (buildWith cfg ts ks).store start t = .keyError) := by
  have b := built_buildWith cfg ts r ks hne hroot hks
  have hty : TypesOk cfg ts (buildWith cfg ts ks).store := ⟨b.types⟩
  have hclimb : climb (buildWith cfg ts ks).store start.length start = [r] := by
    rw [climb_spec (nsOf ts) _ b.parentSome b.parentNone _ _ hstart (by omega), take_one_of_isNs hroot hstart]
  have hq : ∀ k ∈ [[r]], IsNs (nsOf ts) k := by intro k hk; simp at hk; subst hk; exact b.rootNs
  have hsz : qsize (buildWith cfg ts ks).store [[r]] =
      (nsGen (buildWith cfg ts ks).store (depthFuel (buildWith cfg ts ks).store [r]) [r]).length := by
    simp [qsize, sz]
  constructor
  · intro ht
    unfold findPath findPathBy
    cases hl : lookupTy (typesOf (buildWith cfg ts ks).store start) t with
    | some p => simp only; rw [((lookup_own cfg ts _ hty t start).2 p hl).1]
    | none =>
      simp only [hclimb]
      apply bfs_hit cfg ts (nsOf ts) _ b.shape hty t ht (isNs_ns hroot ht) start
      · intro e
        rw [(lookup_own cfg ts _ hty t start).1 ⟨ht, e⟩] at hl
        exact absurd hl (by simp)
      · exact hq
      · rw [hsz]; omega
      · exact ⟨[r], by simp, root_prefix_of_isNs hroot (isNs_ns hroot ht)⟩
  · intro ht
    unfold findPath findPathBy
    have hl : lookupTy (typesOf (buildWith cfg ts ks).store start) t = none := by
      apply lookupTy_none
      intro e he h
      exact ht (h ▸ ((b.types start e).1 he).1)
    simp only [hl, hclimb]
    apply bfs_miss cfg ts (nsOf ts) _ b.shape hty t ht start _ _ hq
    rw [hsz]; omega

/-! ## 5. include paths -/

/-- T5b: `filter_type_to_include_path` of a type of the tree (lookup, then `relative_to` the parent of
the root namespace's folder) is the include path `make_path` gives. -/
theorem C11_type_to_include_path (t : Ty) (ht : t ∈ ts) (h : NamesOk cfg t) (hr : IdSeg (cfg.strop r)) :
    typeToIncludePath cfg (buildWith cfg ts ks) t = includePath cfg t := by
  have b := built_buildWith cfg ts r ks hne hroot hks
  unfold typeToIncludePath
  rw [b.root, (C11_lookup_total cfg ts r ks hne hroot hks [r] b.rootNs t).1 ht,
    outputPath_formula cfg t h]
  simp only
  have hf : nsFolder cfg [r] = basePath cfg ++ [cfg.strop r] := by
    unfold nsFolder
    rw [List.map_cons, List.map_nil, ofSegs_idsegs [cfg.strop r] (by simpa using hr), pathJoin_rel]
    simp only [List.head?_cons]
    exact fun e => idseg_ne_root hr (Option.some.inj e)
  have hp : parentPath (basePath cfg ++ [cfg.strop r]) = basePath cfg := by
    unfold parentPath
    have : basePath cfg ++ [cfg.strop r] ≠ [rootPart] := by
      intro e
      cases hb : basePath cfg with
      | nil => rw [hb] at e; simp at e; exact idseg_ne_root hr e
      | cons x y => rw [hb] at e; simp at e
    simp [this]
  rw [hf, hp, relativeTo_append _ _ (rel_head_ne_root cfg t h)]
  unfold includePath
  rw [makePath_formula cfg t h]

end Tree

/-- T5a: the include path emitted for a referenced type is its output path relative to the output
directory — both are `make_path`.  Nothing about the tree or the root namespace enters: the statement
holds whether `dt` is generated in this run or merely referenced from another root namespace. -/
theorem C11_include_path_is_relative_output_path (cfg : Cfg) (dt : Ty) (h : NamesOk cfg dt) :
    ∃ rel, includePath cfg dt = .ok rel ∧ outputPath cfg dt = .ok (basePath cfg ++ rel) ∧
      relativeTo (basePath cfg ++ rel) (basePath cfg) = .ok rel :=
  ⟨_, makePath_formula cfg dt h, outputPath_formula cfg dt h,
    relativeTo_append _ _ (rel_head_ne_root cfg dt h)⟩

/-- The same type gets the same path in the tree of its own root namespace as the include path a
type of another root emits for it (any two type lists, any two walk orders, one configuration). -/
theorem C11_generated_and_referenced_agree (cfg : Cfg) (ts : List Ty) (r : Str) (ks : List Key)
    (hne : ts ≠ []) (hroot : OneRoot r ts) (hks : ∀ k, k ∈ ks ↔ k ∈ (loop1 cfg ts).idx)
    (dt : Ty) (hdt : dt ∈ ts) (h : NamesOk cfg dt) (start : Key) (hstart : IsNs (nsOf ts) start) :
    ∃ rel, includePath cfg dt = .ok rel ∧
      findPath (buildWith cfg ts ks).store start dt = .hit (.ok (basePath cfg ++ rel)) := by
  obtain ⟨rel, h1, h2, _⟩ := C11_include_path_is_relative_output_path cfg dt h
  exact ⟨rel, h1, by rw [(C11_lookup_total cfg ts r ks hne hroot hks start hstart dt).1 hdt, h2]⟩

/-- `build_namespace_tree` itself (second pass in index order) is an instance of `buildWith`. -/
theorem C11_buildTree_is_instance (cfg : Cfg) (ts : List Ty) :
    buildTree cfg ts = buildWith cfg ts (loop1 cfg ts).idx ∧
    ∀ k, k ∈ (loop1 cfg ts).idx ↔ IsNs (nsOf ts) k :=
  ⟨rfl, (inv1_loop1 cfg ts).idx⟩

/-- The degenerate input: with no types `build_namespace_tree` returns `Namespace("")` — one namespace
with the single empty component, no parent, no types, the namespace file directly in `outDir`. -/
theorem C11_empty_type_list (cfg : Cfg) :
    (buildTree cfg []).root = [[]] ∧ allNamespaces (buildTree cfg []) = [[[]]] ∧
    allDatatypes (buildTree cfg []) = [] ∧ parentOf (buildTree cfg []).store [[]] = none ∧
    pathOf cfg (buildTree cfg []).store [[]] = nsOutputPath cfg [[]] := by
  simp [buildTree, buildWith, loop1, loop2, loop2By, finish, allNamespaces, allDatatypes, nsGen, typeGen,
    depthFuel, maxLen, mkNode, nestedOf, typesOf, parentOf, pathOf, findNode]

/-! ## 6. support files -/

/-- `get_support_output_folder()` of **every** namespace of **every** tree — any type list (the empty
one included, where the tree is `Namespace("")`), any walk order — is the base output path
`PurePath(output_dir)`.  (It is stored, not derived: for the empty root namespace the namespace's own
folder *is* the output directory, so "parent of the root's folder" would be the directory above.) -/
theorem C11_support_folder_is_outdir (cfg : Cfg) (ts : List Ty) (ks : List Key) (k : Key) :
    baseOf cfg (buildWith cfg ts ks).store k = basePath cfg := by
  unfold buildWith
  exact baseOf_finish cfg _ (fun k => by unfold loop2; exact baseOf_loops sameNs cfg ts ks k) k

/-- Every support file goes to `outDir / support-namespace parts / (resource stem ++ ext)` — inside the
output directory, for every tree including the empty one (`--generate-support only`).  Hypotheses:
the parts of `support_namespace` and the resource's stem are identifier-shaped, the resource name is
`stem.suffix` with one proper suffix (`serialization.j2`, `nunavut_support.j2`, …). -/
theorem C11_support_file_inside_outdir (cfg : Cfg) (ts : List Ty) (ks : List Key) (subs : List Str)
    (stem suf : Str) (hsubs : ∀ s ∈ subs, IdSeg s) (hstem : IdSeg stem) (hsuf : suf ≠ [])
    (hsufd : '.' ∉ suf) (hsufs : '/' ∉ suf) (hext : ValidExt cfg.ext) :
    supportTarget cfg (buildWith cfg ts ks) subs (stem ++ '.' :: suf) =
      .ok (basePath cfg ++ (subs ++ [stem ++ cfg.ext])) ∧
    Inside (basePath cfg) (basePath cfg ++ (subs ++ [stem ++ cfg.ext])) := by
  have hname1 : stem ++ '.' :: suf ≠ [] := by simp
  have hname2 : '/' ∉ stem ++ '.' :: suf := by
    simp only [List.mem_append, List.mem_cons, not_or]
    exact ⟨hstem.2.1, by decide, hsufs⟩
  have hname3 : stem ++ '.' :: suf ≠ ['.'] := by
    obtain ⟨h1, _, _⟩ := hstem
    cases stem with
    | nil => exact absurd rfl h1
    | cons c r => intro e; simp at e
  have hname4 : stem ++ '.' :: suf ≠ rootPart := by
    intro e; apply hname2; rw [e]; simp [rootPart]
  refine ⟨?_, subs ++ [stem ++ cfg.ext], rfl, by simp, ?_⟩
  · unfold supportTarget
    rw [C11_support_folder_is_outdir, subFolders_idsegs subs hsubs, pathJoin_rel, pjoin_oneseg _ _ hname1 hname2 hname3,
      withSuffix_last _ _ _ hname4 hext, stemOf_dotted stem suf hstem.1 hsuf hsufd, List.append_assoc]
    cases subs with
    | nil => simp
    | cons a r =>
      simp only [List.head?_cons]
      exact fun e => idseg_ne_root (hsubs a (by simp)) (Option.some.inj e)
  · intro s hs
    rcases List.mem_append.1 hs with hs | hs
    · exact idseg_safe (hsubs s hs)
    · rw [List.mem_singleton.1 hs]; exact file_safe hstem hext

/-! ## 7. the path glue: from the command line / the builder API to base path, extension and stem

`Model/NamespaceGlue.lean` transcribes `_make_parser` (`--outdir`, `--output-extension` with `extension_type`,
`--namespace-output-stem`), `ArgparseRunner._create_language_context`, the builder's overrides
(`if value is not None`), `create()` (`deep_update` of the language section) and the two `get_config_value` calls.
`None` (option absent) and the empty string are different inputs everywhere below. -/

/-- T6a: what the three options arrive as.  A given `-e` wins over properties.yaml and every `--configuration`
file and arrives as `extension_type(raw)` — the *empty* extension included; an absent one leaves the section's
value (`KeyError` if there is none).  The same for the stem (default `_` if the section has none); the output
directory is the spelling itself, `nunavut_out` if absent.  `strop`/`enable` are the language's. -/
theorem C11_cli_arguments_reach_the_namespace (strop : Str → Str) (enable : Bool) (lang : Section)
    (files : List Section) (a : CliArgs) :
    cfgOfCli strop enable lang files a =
      (match a.outputExtension with
        | some raw => (.ok (extensionType raw) : Except Err Str)
        | none => getConfigValue (files.foldl deepUpdate lang) keyExtension none).map
      (fun ext => (⟨strop, enable, ext,
          (match a.namespaceOutputStem with
            | some s => s
            | none => sectionStem (files.foldl deepUpdate lang)),
          a.outdir.getD defaultOutdir⟩ : Cfg)) := by
  unfold cfgOfCli cfgOfSection runnerOverrides parsedExtension parsedOutdir
  rw [getConfigValue_effective_ext, getConfigValue_effective_stem]
  cases a.outputExtension with
  | some raw => rfl
  | none =>
    simp only [Option.map_none]
    cases getConfigValue (files.foldl deepUpdate lang) keyExtension none <;> rfl

/-- T6a for the API route (`set_target_language_extension(ext)`,
`set_target_language_configuration_override(WKCV_NAMESPACE_FILE_STEM, stem)`): the same without `extension_type`. -/
theorem C11_api_overrides_reach_the_namespace (strop : Str → Str) (enable : Bool) (lang : Section)
    (files : List Section) (ext stem : Option Str) (outDir : Str) :
    cfgOfApi strop enable lang files ext stem outDir =
      (match ext with
        | some e => (.ok e : Except Err Str)
        | none => getConfigValue (files.foldl deepUpdate lang) keyExtension none).map
      (fun e => (⟨strop, enable, e,
          (match stem with
            | some s => s
            | none => sectionStem (files.foldl deepUpdate lang)),
          outDir⟩ : Cfg)) := by
  unfold cfgOfApi cfgOfSection
  rw [getConfigValue_effective_ext, getConfigValue_effective_stem]
  cases ext with
  | some e => rfl
  | none => cases getConfigValue (files.foldl deepUpdate lang) keyExtension none <;> rfl

/-- Which `-e` arguments `with_suffix` accepts after `extension_type`: all but `.` and those with a `/`
(the empty one, `h`, `.h`, `.tar.gz`, `..x` …). -/
theorem C11_cli_extension_accepted_iff (raw : Str) :
    validSuffix (extensionType raw) = true ↔ raw ≠ ['.'] ∧ '/' ∉ raw :=
  validSuffix_extensionType raw

/-- T1 for **every** extension string (no hypothesis on `cfg.ext`): the type's file is
`outDir / strop(c₁)/…/strop(cₙ) / (strop(Short_M_m) ++ ext)` — `ext` appended as it is, empty or multi-dot — or
`build_namespace_tree` raises `ValueError` (exactly when `with_suffix` rejects the suffix). -/
theorem C11_type_path_for_every_extension (cfg : Cfg) (t : Ty) (hc : ∀ c ∈ t.ns, IdSeg (estrop cfg c))
    (hn : IdSeg (estrop cfg (shortVer t))) :
    outputPath cfg t =
      if validSuffix cfg.ext then
        .ok (basePath cfg ++ (t.ns.map (estrop cfg) ++ [estrop cfg (shortVer t) ++ cfg.ext]))
      else .error .badSuffix :=
  outputPath_every_ext cfg t hc hn

/-- T1 for namespace files, every extension string and every one-part stem: `… / (stem ++ ext)` for a stem
without a dot; pathlib replaces the last suffix of a dotted stem (`stemOf`: `x.y` + `.h` = `x.h`). -/
theorem C11_namespace_path_for_every_extension (cfg : Cfg) (k : Key) (hk : ∀ c ∈ k, IdSeg (cfg.strop c))
    (h1 : cfg.stem ≠ []) (h2 : '/' ∉ cfg.stem) (h3 : cfg.stem ≠ ['.']) :
    nsOutputPath cfg k =
      (if validSuffix cfg.ext then .ok (basePath cfg ++ k.map cfg.strop ++ [stemOf cfg.stem ++ cfg.ext])
       else .error .badSuffix) ∧
    ('.' ∉ cfg.stem → stemOf cfg.stem = cfg.stem) :=
  ⟨nsOutputPath_every_ext cfg k hk h1 h2 h3, stemOf_nodot cfg.stem⟩

/-- End to end: `nnvg -O outdir -e raw …` puts the type `t` at
`PurePath(outdir) / strop(ns)… / (strop(Short_M_m) ++ extension_type(raw))` for every accepted `raw`, the empty
string included, whatever properties.yaml and the configuration files say; and raises for the others. -/
theorem C11_cli_type_path_formula (strop : Str → Str) (enable : Bool) (lang : Section) (files : List Section)
    (a : CliArgs) (raw : Str) (ha : a.outputExtension = some raw) (t : Ty)
    (hc : ∀ c ∈ t.ns, IdSeg (if enable then strop c else c))
    (hn : IdSeg (if enable then strop (shortVer t) else shortVer t)) :
    ∃ cfg, cfgOfCli strop enable lang files a = .ok cfg ∧
      outputPath cfg t =
        if raw ≠ ['.'] ∧ '/' ∉ raw then
          .ok (pjoin [] (a.outdir.getD defaultOutdir) ++
            (t.ns.map (fun c => if enable then strop c else c) ++
              [(if enable then strop (shortVer t) else shortVer t) ++ extensionType raw]))
        else .error .badSuffix := by
  let cfg0 : Cfg := ⟨strop, enable, extensionType raw,
    (match a.namespaceOutputStem with
      | some s => s
      | none => sectionStem (files.foldl deepUpdate lang)), a.outdir.getD defaultOutdir⟩
  refine ⟨cfg0, by rw [C11_cli_arguments_reach_the_namespace, ha]; rfl, ?_⟩
  rw [outputPath_every_ext cfg0 t hc hn]
  by_cases hv : raw ≠ ['.'] ∧ '/' ∉ raw
  · rw [if_pos hv, if_pos ((validSuffix_extensionType raw).2 hv)]; rfl
  · rw [if_neg hv, if_neg (fun h => hv ((validSuffix_extensionType raw).1 h))]

/-- T2 under every override: whatever the extension is (the hypothesis `ValidExt` of
`C11_distinct_types_distinct_files` is not needed: two types that *have* files have different files), in
particular for every configuration `cfgOfCli` / `cfgOfApi` arrive at. -/
theorem C11_distinct_types_distinct_files_for_every_extension (cfg : Cfg) (t u : Ty)
    (htc : ∀ c ∈ t.ns, IdSeg (estrop cfg c)) (htn : IdSeg (estrop cfg (shortVer t)))
    (huc : ∀ c ∈ u.ns, IdSeg (estrop cfg c)) (hun : IdSeg (estrop cfg (shortVer u)))
    (hcomps : ∀ a ∈ t.ns, ∀ b ∈ u.ns, estrop cfg a = estrop cfg b → a = b)
    (hname : estrop cfg (shortVer t) = estrop cfg (shortVer u) → shortVer t = shortVer u)
    (p : Path) (ht : outputPath cfg t = .ok p) (hu : outputPath cfg u = .ok p) : t = u := by
  have hv : ValidExt cfg.ext := by
    by_cases hv : validSuffix cfg.ext = true
    · exact hv
    · rw [outputPath_every_ext cfg t htc htn, if_neg hv] at ht; cases ht
  exact C11_distinct_types_distinct_files cfg t u ⟨htc, htn, hv⟩ ⟨huc, hun, hv⟩ hcomps hname (ht.trans hu.symm)

/-! ## 8. where the files are: operations, `..` and symbolic links

Containment so far is lexical (`Inside`).  `Fs` adds the two things that decide where the operating system
puts a path: the working directory and the symbolic links; `resolve` is the kernel's walk (`os.path.realpath`). -/

/-- Handing the spelling of the output directory to pathlib (which drops `.`, empty pieces and trailing
slashes but keeps every `..`) does not change the directory it names. -/
theorem C11_outdir_spelling_names_the_same_directory (fs : Fs) (cfg : Cfg) :
    resolveStr fs cfg.outDir = resolve fs (basePath cfg) :=
  resolveStr_eq_resolve_pjoin fs cfg.outDir

/-- T3 over the resolved output directory: the file of a type is, physically, `realpath(outDir)` followed by
the namespace folders and the file name — for every spelling of `outDir` (through links, with `..`), provided
no symbolic link lies *below* the resolved output directory. -/
theorem C11_type_file_below_resolved_outdir (fs : Fs) (cfg : Cfg) (t : Ty) (h : NamesOk cfg t)
    (hl : NoLinkBelow fs (resolve fs (basePath cfg))) :
    ∃ rel, outputPath cfg t = .ok (basePath cfg ++ rel) ∧ rel ≠ [] ∧ (∀ s ∈ rel, SafeSeg s) ∧
      resolve fs (basePath cfg ++ rel) = resolveStr fs cfg.outDir ++ rel := by
  refine ⟨_, outputPath_formula cfg t h, by simp, inside_to_safe_type cfg t h, ?_⟩
  rw [C11_outdir_spelling_names_the_same_directory]
  exact resolve_insideSafe fs _ _ (by simp) (inside_to_safe_type cfg t h) hl

/-- Anything that lies below `outDir` by safe segments is put below the resolved `outDir`. -/
theorem C11_inside_is_below_resolved_outdir (fs : Fs) (cfg : Cfg) (p : Path)
    (h : InsideSafe (basePath cfg) p) (hl : NoLinkBelow fs (resolve fs (basePath cfg))) :
    ∃ rel, rel ≠ [] ∧ p = basePath cfg ++ rel ∧ resolve fs p = resolveStr fs cfg.outDir ++ rel := by
  obtain ⟨rel, rfl, hne, hs⟩ := h
  exact ⟨rel, hne, rfl, by
    rw [C11_outdir_spelling_names_the_same_directory]; exact resolve_insideSafe fs _ _ hne hs hl⟩

section Ops
variable (cfg : Cfg) (ts : List Ty) (r : Str) (ks : List Key)
variable (hne : ts ≠ []) (hroot : OneRoot r ts) (hks : ∀ k, k ∈ ks ↔ k ∈ (loop1 cfg ts).idx)
include hne hroot hks

/-- "Nothing is created outside the output directory", on the operations: every file a (non-dry) run of the
type generator and the support generator opens for writing, and every directory its `mkdir(parents=True)`
calls may create, lies below `outDir` by safe segments — or is `outDir` itself or an ancestor of it (a prefix:
`mkdir -p` of a missing output directory).  A run aborted by a template error performs a prefix of these
operations.  In particular no scratch location (a temporary directory) is ever written. -/
theorem C11_every_created_path_inside_outdir
    (hnames : ∀ t ∈ ts, NamesOk cfg t) (hcomps : ∀ t ∈ ts, ∀ c ∈ t.ns, IdSeg (cfg.strop c))
    (hstem : IdSeg cfg.stem) (nsTypes : Bool) (subs names : List Str) (hsubs : ∀ s ∈ subs, IdSeg s)
    (hres : ∀ n ∈ names, ∃ stem suf, n = stem ++ '.' :: suf ∧ IdSeg stem ∧ suf ≠ [] ∧ '.' ∉ suf ∧ '/' ∉ suf) :
    ∀ p ∈ createdPaths cfg (buildWith cfg ts ks) nsTypes subs names,
      InsideSafe (basePath cfg) p ∨ p <+: basePath cfg := by
  have b := built_buildWith cfg ts r ks hne hroot hks
  obtain ⟨t0, ht0⟩ := List.exists_mem_of_ne_nil ts hne
  have hext : ValidExt cfg.ext := (hnames t0 ht0).ext
  have hst := buildWith_store cfg ts r ks hne hroot hks
  -- type files
  have hty : ∀ e : Ty × PathR, e.1 ∈ ts → e.2 = outputPath cfg e.1 → ∀ p, e.2 = .ok p → InsideSafe (basePath cfg) p := by
    intro e h1 h2 p hp
    rw [h2, outputPath_formula cfg e.1 (hnames e.1 h1)] at hp
    cases hp
    exact ⟨_, rfl, by simp, inside_to_safe_type cfg e.1 (hnames e.1 h1)⟩
  -- namespace files
  have hnsf : ∀ k ∈ allNamespaces (buildWith cfg ts ks), ∀ p, pathOf cfg (buildWith cfg ts ks).store k = .ok p →
      InsideSafe (basePath cfg) p := by
    intro k hk p hp
    have hkns := ((C11_namespaces_exactly_once cfg ts r ks hne hroot hks).2 k).1 hk
    have hkc : ∀ c ∈ k, IdSeg (cfg.strop c) := by
      intro c hc
      obtain ⟨_, n, hn, hpre⟩ := hkns
      obtain ⟨t, ht, rfl⟩ := List.mem_map.1 hn
      exact hcomps t ht c (hpre.subset hc)
    rw [hst, pathOf_built, nsOutputPath_formula cfg k hkc hstem hext] at hp
    cases hp
    refine ⟨k.map cfg.strop ++ [cfg.stem ++ cfg.ext], by simp, by simp, ?_⟩
    intro s hs
    rcases List.mem_append.1 hs with hs | hs
    · obtain ⟨c, hc, rfl⟩ := List.mem_map.1 hs
      exact idseg_safeSeg (hkc c hc)
    · rw [List.mem_singleton.1 hs]; exact file_safeSeg hstem hext
  -- every written file
  have hfiles : ∀ p, (.ok p : PathR) ∈ writtenFiles cfg (buildWith cfg ts ks) nsTypes subs names →
      InsideSafe (basePath cfg) p := by
    intro p hp
    unfold writtenFiles at hp
    rcases List.mem_append.1 hp with hp | hp
    · cases nsTypes with
      | true =>
        simp only [if_true] at hp
        obtain ⟨k, hk, hp⟩ := List.mem_flatMap.1 hp
        rcases List.mem_cons.1 hp with hp | hp
        · exact hnsf k hk p hp.symm
        · obtain ⟨e, he, hep⟩ := List.mem_map.1 hp
          obtain ⟨h1, _, h3⟩ := (b.types k e).1 he
          exact hty e h1 h3 p hep
      | false =>
        simp only [Bool.false_eq_true, if_false] at hp
        obtain ⟨e, he, hep⟩ := List.mem_map.1 hp
        obtain ⟨h1, h3⟩ := ((C11_types_exactly_once cfg ts r ks hne hroot hks).2 e).1 he
        exact hty e h1 h3 p hep
    · obtain ⟨n, hn, hnp⟩ := List.mem_map.1 hp
      obtain ⟨stem, suf, rfl, h1, h2, h3, h4⟩ := hres n hn
      rw [(C11_support_file_inside_outdir cfg ts ks subs stem suf hsubs h1 h2 h3 h4 hext).1] at hnp
      cases hnp
      refine ⟨subs ++ [stem ++ cfg.ext], rfl, by simp, ?_⟩
      intro s hs
      rcases List.mem_append.1 hs with hs | hs
      · exact idseg_safeSeg (hsubs s hs)
      · rw [List.mem_singleton.1 hs]; exact file_safeSeg h1 hext
  intro p hp
  unfold createdPaths at hp
  rcases List.mem_append.1 hp with hp | hp
  · exact Or.inl (hfiles p ((mem_okPaths _ _).1 hp))
  · obtain ⟨f, hf, hpf⟩ := List.mem_flatMap.1 hp
    rcases mkdirChain_insideSafe _ f (hfiles f ((mem_okPaths _ _).1 hf)) p hpf with h | h
    · exact Or.inr h
    · exact Or.inl h

end Ops

/-- The same for a run without types (`--generate-support only`, an empty root namespace): only the support
files and their directories are created, all below `outDir`. -/
theorem C11_support_only_run_inside_outdir (cfg : Cfg) (subs names : List Str) (hsubs : ∀ s ∈ subs, IdSeg s)
    (hres : ∀ n ∈ names, ∃ stem suf, n = stem ++ '.' :: suf ∧ IdSeg stem ∧ suf ≠ [] ∧ '.' ∉ suf ∧ '/' ∉ suf)
    (hext : ValidExt cfg.ext) :
    ∀ p ∈ createdPaths cfg (buildTree cfg []) false subs names,
      InsideSafe (basePath cfg) p ∨ p <+: basePath cfg := by
  have hfiles : ∀ p, (.ok p : PathR) ∈ writtenFiles cfg (buildTree cfg []) false subs names →
      InsideSafe (basePath cfg) p := by
    intro p hp
    unfold writtenFiles at hp
    rw [(C11_empty_type_list cfg).2.2.1] at hp
    simp only [Bool.false_eq_true, if_false, List.map_nil, List.nil_append] at hp
    obtain ⟨n, hn, hnp⟩ := List.mem_map.1 hp
    obtain ⟨stem, suf, rfl, h1, h2, h3, h4⟩ := hres n hn
    have hb : buildTree cfg [] = buildWith cfg [] (loop1 cfg []).idx := rfl
    rw [hb, (C11_support_file_inside_outdir cfg [] _ subs stem suf hsubs h1 h2 h3 h4 hext).1] at hnp
    cases hnp
    refine ⟨subs ++ [stem ++ cfg.ext], rfl, by simp, ?_⟩
    intro s hs
    rcases List.mem_append.1 hs with hs | hs
    · exact idseg_safeSeg (hsubs s hs)
    · rw [List.mem_singleton.1 hs]; exact file_safeSeg h1 hext
  intro p hp
  unfold createdPaths at hp
  rcases List.mem_append.1 hp with hp | hp
  · exact Or.inl (hfiles p ((mem_okPaths _ _).1 hp))
  · obtain ⟨f, hf, hpf⟩ := List.mem_flatMap.1 hp
    rcases mkdirChain_insideSafe _ f (hfiles f ((mem_okPaths _ _).1 hf)) p hpf with h | h
    · exact Or.inr h
    · exact Or.inl h

/-! ## Non-vacuity and regression witnesses -/

section Examples
private def s (x : String) : Str := x.toList
/-- C-like stropping: `register` ↦ `_register`, everything else unchanged. -/
private def stropC (x : Str) : Str := if x = s "register" then s "_register" else x
private def cfgC : Cfg := ⟨stropC, true, s ".h", s "_", s "out/"⟩
private def tA : Ty := ⟨[s "vendor", s "register"], s "A", 1, 0⟩
private def tB : Ty := ⟨[s "vendor", s "_register"], s "B", 1, 0⟩
private def tD : Ty := ⟨[s "vendor", s "a", s "b", s "c"], s "Foo_1", 2, 10⟩

/-- The hypotheses of the formula theorems are satisfiable, and the formula gives the familiar path. -/
example : NamesOk cfgC tD := ⟨by decide, by decide, by decide⟩
example : outputPath cfgC tD = .ok [s "out", s "vendor", s "a", s "b", s "c", s "Foo_1_2_10.h"] := by decide
example : OneRoot (s "vendor") [tA, tD] := by unfold OneRoot; decide
/-- A tree with a gap (`vendor.a`, `vendor.a.b` hold no types) yields all five namespaces. -/
example : allNamespaces (buildTree cfgC [tA, tD]) =
    [[s "vendor"], [s "vendor", s "register"], [s "vendor", s "a"], [s "vendor", s "a", s "b"],
     [s "vendor", s "a", s "b", s "c"]] := by decide
example : findPath (buildTree cfgC [tA, tD]).store [s "vendor", s "register"] tD
    = .hit (outputPath cfgC tD) := by decide

/-- Regression witness of the repaired defect: with `Namespace.__eq__` on the *stropped* name the
sibling namespaces `register` and `_register` were one set element, `_register` was never linked
and its type `B` was not yielded (not generated) … -/
example : ((allDatatypes (buildWithBeforeFix cfgC [tA, tB] (loop1 cfgC [tA, tB]).idx)).map (·.1)) = [tA] := by
  decide
/-- … so "every type exactly once" was false for the old code … -/
example : ¬ (∀ e, e ∈ allDatatypes (buildWithBeforeFix cfgC [tA, tB] (loop1 cfgC [tA, tB]).idx) ↔
    (e.1 ∈ [tA, tB] ∧ e.2 = outputPath cfgC e.1)) := by
  intro h
  have := (h (tB, outputPath cfgC tB)).2 ⟨by decide, rfl⟩
  revert this; decide
/-- … while the repaired code yields both (they share the folder `_register`, the documented folding). -/
example : ((allDatatypes (buildTree cfgC [tA, tB])).map (·.1)) = [tA, tB] := by decide
example : outputPath cfgC tA = .ok [s "out", s "vendor", s "_register", s "A_1_0.h"] ∧
    outputPath cfgC tB = .ok [s "out", s "vendor", s "_register", s "B_1_0.h"] := by decide

/-- `make_path` strops only if `enable_stropping`, `Namespace.__init__` always: with stropping switched
off for a language whose `filter_id` is not the identity the namespace file leaves its types' folder
(outside C11's quantifier — the shipped configurations never combine the two; recorded as observed). -/
example : outputPath { cfgC with enable := false } tA = .ok [s "out", s "vendor", s "register", s "A_1_0.h"] ∧
    nsOutputPath { cfgC with enable := false } tA.ns = .ok [s "out", s "vendor", s "_register", s "_.h"] := by
  decide
/-- Support files of an empty tree (`--generate-support only`): inside `out/`; deriving the folder from
the root namespace's own folder instead (its parent) would leave the output directory. -/
example : supportTarget cfgC (buildTree cfgC []) [s "nunavut", s "support"] (s "serialization.j2")
    = .ok [s "out", s "nunavut", s "support", s "serialization.h"] := by decide
example : parentPath (nsFolder cfgC (buildTree cfgC []).root) = [] ∧ basePath cfgC = [s "out"] := by decide

/-- The path glue.  An explicitly *empty* `-e` is an override like any other (extension-less headers) — not the
absence of one: -/
private def secC : Section := [(keyExtension, some (s ".h")), (keyStem, some (s "_namespace_"))]
example : (cfgOfCli stropC true secC [] ⟨some (s "o"), some [], none⟩).toOption.map (fun c => (c.ext, c.stem, c.outDir))
    = some ([], s "_namespace_", s "o") := by decide
example : (cfgOfCli stropC true secC [] ⟨none, none, some []⟩).toOption.map (fun c => (c.ext, c.stem, c.outDir))
    = some (s ".h", [], s "nunavut_out") := by decide
example : (cfgOfCli stropC true secC [[(keyExtension, none)]] ⟨none, some (s "tar.gz"), some (s "x.y")⟩).toOption.map
    (fun c => (c.ext, c.stem)) = some (s ".tar.gz", s "x.y") := by decide
/-- a configuration file may null the extension; without an override the (empty) value of the file is used -/
example : (cfgOfCli stropC true secC [[(keyExtension, none)]] ⟨none, none, none⟩).toOption.map (·.ext) = some [] := by
  decide
example : outputPath { cfgC with ext := [] } tD = .ok [s "out", s "vendor", s "a", s "b", s "c", s "Foo_1_2_10"] ∧
    outputPath { cfgC with ext := s ".tar.gz" } tD
      = .ok [s "out", s "vendor", s "a", s "b", s "c", s "Foo_1_2_10.tar.gz"] ∧
    outputPath { cfgC with ext := s "." } tD = .error .badSuffix := by decide
example : nsOutputPath { cfgC with ext := [], stem := s "x.y" } [s "vendor"] = .ok [s "out", s "vendor", s "x"] := by
  decide
/-- `cwd = /w`, `/w/link -> /real/deep`: the output directory spelled `link/../out` is `/real/out`; cancelling
`link/..` lexically (`os.path.normpath`) would name `/w/out`, another directory — the spelling has to reach the
operating system as it is. -/
private def fsL : Fs := ⟨[s "/", s "w"], fun p => if p = [s "/", s "w", s "link"] then some [s "/", s "real", s "deep"] else none⟩
example : resolveStr fsL (s "link/../out/") = [s "/", s "real", s "out"] ∧
    resolveStr fsL (s "out") = [s "/", s "w", s "out"] := by decide
example : resolve fsL (basePath { cfgC with outDir := s "link/..//out/." }) = [s "/", s "real", s "out"] := by decide
example : NoLinkBelow fsL [s "/", s "real", s "out"] := by
  intro rel _
  simp only [fsL]
  rw [if_neg]
  intro e
  have h2 : ([s "/", s "real", s "out"] ++ rel)[1]? = ([s "/", s "w", s "link"] : Path)[1]? := by rw [e]
  simp only [List.cons_append, List.getElem?_cons_succ, List.getElem?_cons_zero, Option.some.injEq] at h2
  exact absurd h2 (by decide)
/-- the creating operations of a run with namespace files and one support resource -/
example : createdPaths cfgC (buildTree cfgC [tA]) true [s "nunavut", s "support"] [s "serialization.j2"] =
    [[s "out", s "vendor", s "_.h"], [s "out", s "vendor", s "_register", s "_.h"],
     [s "out", s "vendor", s "_register", s "A_1_0.h"], [s "out", s "nunavut", s "support", s "serialization.h"],
     [s "out"], [s "out", s "vendor"], [s "out"], [s "out", s "vendor"], [s "out", s "vendor", s "_register"],
     [s "out"], [s "out", s "vendor"], [s "out", s "vendor", s "_register"],
     [s "out"], [s "out", s "nunavut"], [s "out", s "nunavut", s "support"]] := by decide
end Examples

end NunavutVerif.Namespace
