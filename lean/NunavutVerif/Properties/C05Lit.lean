import NunavutVerif.Lemmas.CLiteralEval
import NunavutVerif.Gen.CLiteralCfg
/-!
# C05 (constants) — every DSDL constant is rendered as a literal that denotes exactly its value

Property theorems only (definitions: `Model/CLiteral.lean`; configuration data generated from
`properties.yaml`: `Gen/CLiteralCfg.lean`; helper lemmas: `Lemmas/CLiteral{Lex,Round,Eval}.lean`).

Quantifiers: every integer DSDL type (signed / unsigned, 1..64 bit) and **every** value of its range; `bool`;
`uint8` character constants; every floating constant given as a fraction inside the range of its type; both C
dialects of the literal model (C11, C++14; LP64) and the Python expression the Python target emits.
`evalStr` returning `.ok` includes: the string lexes and parses as an expression of the fragment, every integer
literal has a type of its candidate list, no signed operation overflows, no floating literal is out of range.
-/
namespace NunavutVerif.CLiteral

/-! ## (i) integers -/

/-- **Integer constants, all types, all values.**  For every integer DSDL type of 1..64 bits and every value in
its range the literal `filter_literal` renders — alone (C++ initializer) and inside the parentheses of the C macro
body — lexes, parses and evaluates, in both dialects, without any intermediate overflow, to exactly the DSDL value,
in the type `expectedCType` (`int` / `long` / `long long`, unsigned for unsigned DSDL types).  This includes the
minimum of `int64`, which is not a literal but `(-9223372036854775807LL - 1)`. -/
theorem C05_int_literal_exact (d : Dialect) (cfg : LangCfg) (fmt : List FmtPiece) (hcfg : cfg.castFormat = some fmt)
    (unsigned : Bool) (w : Nat) (hw : 1 ≤ w ∧ w ≤ 64) (v : Int) (hv : intInRange unsigned w v) :
    ∃ s, filterLiteral cfg (.frac ⟨v, 1⟩) (if unsigned then .uint w else .sint w) = .ok s ∧
      evalStr d s = .ok (.int (expectedCType unsigned w) v) ∧
      evalStr d (cMacroBody s) = .ok (.int (expectedCType unsigned w) v) := by
  have hr : filterLiteral cfg (.frac ⟨v, 1⟩) (if unsigned then .uint w else .sint w) =
      .ok (mostNegativeIntegerLiteral (intStr v ++ sfxStr unsigned (lOf w))) := by
    cases unsigned <;> simp [filterLiteral, hcfg, integerLiteralRaw_eq]
  refine ⟨_, hr, ?_⟩
  have hl := lOf_le w
  have h63 : 2 ^ (w - 1) ≤ 2 ^ 63 := pow2_le (by omega)
  cases v with
  | ofNat n =>
    have hn : if unsigned then n < 2 ^ w else n ≤ 2 ^ (w - 1) ∧ n < 2 ^ 63 := by
      unfold intInRange at hv
      cases unsigned
      · simp only [Bool.false_eq_true, if_false, Int.ofNat_eq_natCast] at hv ⊢
        omega
      · simp only [if_true, Int.ofNat_eq_natCast] at hv ⊢
        omega
    have hf := firstFit_expected unsigned w hw n (decide (n ≠ 0)) hn
    have e : intStr (Int.ofNat n) = natStr n := rfl
    rw [e, mostNegative_nonneg]
    constructor
    · rw [evalStr_of (lexStr_nonneg n unsigned _ hl) (by simp [usesStaticCast]) rfl]
      exact eval_ilit hf
    · rw [evalStr_of (lexStr_nonneg_macro n unsigned _ hl) (by simp [usesStaticCast]) rfl]
      exact eval_ilit hf
  | negSucc k =>
    cases unsigned with
    | true => exfalso; unfold intInRange at hv; simp only [if_true] at hv; exact absurd hv.1 (by omega)
    | false =>
      have hk : k + 1 ≤ 2 ^ (w - 1) := by
        unfold intInRange at hv
        simp only [Bool.false_eq_true, if_false] at hv
        have := hv.1
        omega
      have e : intStr (Int.negSucc k) ++ sfxStr false (lOf w) = '-' :: (natStr (k + 1) ++ sfxStr false (lOf w)) := rfl
      rw [e]
      have hval : Int.negSucc k = -((k + 1 : Nat) : Int) := rfl
      by_cases hmin : k + 1 = 2 ^ 63 ∧ lOf w = 2
      · -- the minimum of int64
        have hw64 : ¬ w ≤ 32 := by
          intro h
          have : 2 ^ (w - 1) ≤ 2 ^ 31 := pow2_le (by omega)
          omega
        have hty : expectedCType false w = .llong := by
          unfold expectedCType; rw [if_neg (by omega), if_neg hw64]; rfl
        have hk' : k = 9223372036854775807 := by omega
        subst hk'
        rw [hmin.2, hty]
        have e : mostNegativeIntegerLiteral ('-' :: (natStr (9223372036854775807 + 1) ++ sfxStr false 2)) =
            "(-9223372036854775807LL - 1)".toList := by decide
        rw [e]
        have ev : eval d (.sub (.neg (.ilit 9223372036854775807 true false 2)) (.ilit 1 true false 0)) =
            .ok (.int .llong (Int.negSucc 9223372036854775807)) := by cases d <;> decide
        constructor
        · rw [evalStr_of (ts := [.lp, .minus, .int 9223372036854775807 true false 2, .minus, .int 1 true false 0, .rp])
            (e := .sub (.neg (.ilit 9223372036854775807 true false 2)) (.ilit 1 true false 0))
            (by decide) (by simp [usesStaticCast]) (by decide)]
          exact ev
        · rw [evalStr_of (ts := [.lp, .lp, .minus, .int 9223372036854775807 true false 2, .minus, .int 1 true false 0, .rp, .rp])
            (e := .sub (.neg (.ilit 9223372036854775807 true false 2)) (.ilit 1 true false 0))
            (by decide) (by simp [usesStaticCast]) (by decide)]
          exact ev
      · have hn : k + 1 ≤ 2 ^ (w - 1) ∧ k + 1 < 2 ^ 63 := by
          refine ⟨hk, ?_⟩
          by_cases h2 : lOf w = 2
          · have : k + 1 ≠ 2 ^ 63 := fun e => hmin ⟨e, h2⟩
            omega
          · have hw32 : w ≤ 32 := by
              unfold lOf at h2
              by_cases h : 32 < w
              · rw [if_pos (by omega), if_pos h] at h2; omega
              · omega
            have : 2 ^ (w - 1) ≤ 2 ^ 31 := pow2_le (by omega)
            omega
        rw [mostNegative_neg _ _ _ (by intro h; exact hmin ⟨h.1, h.2.2⟩), hval]
        have hdec : decide (k + 1 ≠ 0) = true := by simp
        constructor
        · rw [evalStr_of (lexStr_neg (k + 1) false _ hl) (by simp [usesStaticCast]) rfl]
          exact eval_neg_ilit hw hn
        · rw [evalStr_of (lexStr_neg_macro (k + 1) false _ hl) (by simp [usesStaticCast]) rfl]
          exact eval_neg_ilit hw hn

end NunavutVerif.CLiteral
