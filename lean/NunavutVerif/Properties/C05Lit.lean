import NunavutVerif.Lemmas.CLiteralFloat
/-!
# C05 (constants) — every DSDL constant is rendered as a literal that denotes exactly its value

Property theorems only (definitions: `Model/CLiteral.lean`; configuration data generated from
`properties.yaml`: `Gen/CLiteralCfg.lean`; helper lemmas: `Lemmas/CLiteral{Lex,Round,Eval}.lean`).

Quantifiers: every integer DSDL type (signed / unsigned, 1..64 bit) and **every** value of its range; `bool`;
`uint8` character constants; every floating constant given as a fraction inside the range of its type; both C
dialects of the literal model (C11, C++14; LP64) and the Python expression the Python target emits.
`evalStr` returning `.ok` includes: the string lexes and parses as an expression of the fragment, every integer
literal has a type of its candidate list, no signed operation overflows, no floating literal is out of range.
-/
namespace NunavutVerif.CLiteral

/-! ## (i) integers -/

/-- **Integer constants, all types, all values.**  For every integer DSDL type of 1..64 bits and every value in
its range the literal `filter_literal` renders — alone (C++ initializer) and inside the parentheses of the C macro
body — lexes, parses and evaluates, in both dialects, without any intermediate overflow, to exactly the DSDL value,
in the type `expectedCType` (`int` / `long` / `long long`, unsigned for unsigned DSDL types).  This includes the
minimum of `int64`, which is not a literal but `(-9223372036854775807LL - 1)`. -/
theorem C05_int_literal_exact (d : Dialect) (cfg : LangCfg) (fmt : List FmtPiece) (hcfg : cfg.castFormat = some fmt)
    (unsigned : Bool) (w : Nat) (hw : 1 ≤ w ∧ w ≤ 64) (v : Int) (hv : intInRange unsigned w v) :
    ∃ s, filterLiteral cfg (.frac ⟨v, 1⟩) (if unsigned then .uint w else .sint w) = .ok s ∧
      evalStr d s = .ok (.int (expectedCType unsigned w) v) ∧
      evalStr d (cMacroBody s) = .ok (.int (expectedCType unsigned w) v) := by
  have hr : filterLiteral cfg (.frac ⟨v, 1⟩) (if unsigned then .uint w else .sint w) =
      .ok (mostNegativeIntegerLiteral (intStr v ++ sfxStr unsigned (lOf w))) := by
    cases unsigned <;> simp [filterLiteral, hcfg, integerLiteralRaw_eq]
  refine ⟨_, hr, ?_⟩
  have hl := lOf_le w
  have h63 : 2 ^ (w - 1) ≤ 2 ^ 63 := pow2_le (by omega)
  cases v with
  | ofNat n =>
    have hn : if unsigned then n < 2 ^ w else n ≤ 2 ^ (w - 1) ∧ n < 2 ^ 63 := by
      unfold intInRange at hv
      cases unsigned
      · simp only [Bool.false_eq_true, if_false, Int.ofNat_eq_natCast] at hv ⊢
        omega
      · simp only [if_true, Int.ofNat_eq_natCast] at hv ⊢
        omega
    have hf := firstFit_expected unsigned w hw n (decide (n ≠ 0)) hn
    have e : intStr (Int.ofNat n) = natStr n := rfl
    rw [e, mostNegative_nonneg]
    constructor
    · rw [evalStr_of (lexStr_nonneg n unsigned _ hl) (by simp [usesStaticCast]) rfl]
      exact eval_ilit hf
    · rw [evalStr_of (lexStr_nonneg_macro n unsigned _ hl) (by simp [usesStaticCast]) rfl]
      exact eval_ilit hf
  | negSucc k =>
    cases unsigned with
    | true => exfalso; unfold intInRange at hv; simp only [if_true] at hv; exact absurd hv.1 (by omega)
    | false =>
      have hk : k + 1 ≤ 2 ^ (w - 1) := by
        unfold intInRange at hv
        simp only [Bool.false_eq_true, if_false] at hv
        have := hv.1
        omega
      have e : intStr (Int.negSucc k) ++ sfxStr false (lOf w) = '-' :: (natStr (k + 1) ++ sfxStr false (lOf w)) := rfl
      rw [e]
      have hval : Int.negSucc k = -((k + 1 : Nat) : Int) := rfl
      by_cases hmin : k + 1 = 2 ^ 63 ∧ lOf w = 2
      · -- the minimum of int64
        have hw64 : ¬ w ≤ 32 := by
          intro h
          have : 2 ^ (w - 1) ≤ 2 ^ 31 := pow2_le (by omega)
          omega
        have hty : expectedCType false w = .llong := by
          unfold expectedCType; rw [if_neg (by omega), if_neg hw64]; rfl
        have hk' : k = 9223372036854775807 := by omega
        subst hk'
        rw [hmin.2, hty]
        have e : mostNegativeIntegerLiteral ('-' :: (natStr (9223372036854775807 + 1) ++ sfxStr false 2)) =
            "(-9223372036854775807LL - 1)".toList := by decide
        rw [e]
        have ev : eval d (.sub (.neg (.ilit 9223372036854775807 true false 2)) (.ilit 1 true false 0)) =
            .ok (.int .llong (Int.negSucc 9223372036854775807)) := by cases d <;> decide
        constructor
        · rw [evalStr_of (ts := [.lp, .minus, .int 9223372036854775807 true false 2, .minus, .int 1 true false 0, .rp])
            (e := .sub (.neg (.ilit 9223372036854775807 true false 2)) (.ilit 1 true false 0))
            (by decide) (by simp [usesStaticCast]) (by decide)]
          exact ev
        · rw [evalStr_of (ts := [.lp, .lp, .minus, .int 9223372036854775807 true false 2, .minus, .int 1 true false 0, .rp, .rp])
            (e := .sub (.neg (.ilit 9223372036854775807 true false 2)) (.ilit 1 true false 0))
            (by decide) (by simp [usesStaticCast]) (by decide)]
          exact ev
      · have hn : k + 1 ≤ 2 ^ (w - 1) ∧ k + 1 < 2 ^ 63 := by
          refine ⟨hk, ?_⟩
          by_cases h2 : lOf w = 2
          · have : k + 1 ≠ 2 ^ 63 := fun e => hmin ⟨e, h2⟩
            omega
          · have hw32 : w ≤ 32 := by
              unfold lOf at h2
              by_cases h : 32 < w
              · rw [if_pos (by omega), if_pos h] at h2; omega
              · omega
            have : 2 ^ (w - 1) ≤ 2 ^ 31 := pow2_le (by omega)
            omega
        rw [mostNegative_neg _ _ _ (by intro h; exact hmin ⟨h.1, h.2.2⟩), hval]
        have hdec : decide (k + 1 ≠ 0) = true := by simp
        constructor
        · rw [evalStr_of (lexStr_neg (k + 1) false _ hl) (by simp [usesStaticCast]) rfl]
          exact eval_neg_ilit hw hn
        · rw [evalStr_of (lexStr_neg_macro (k + 1) false _ hl) (by simp [usesStaticCast]) rfl]
          exact eval_neg_ilit hw hn

/-- The type of (i) has the signedness of the DSDL type, at most 64 bits, and its range contains the value. -/
theorem C05_int_literal_type_fits (unsigned : Bool) (w : Nat) (hw : 1 ≤ w ∧ w ≤ 64) (v : Int)
    (hv : intInRange unsigned w v) :
    (expectedCType unsigned w).signed = !unsigned ∧ (expectedCType unsigned w).bits ≤ 64 ∧
      (expectedCType unsigned w).inRange v = true := by
  refine ⟨expected_signed unsigned w, ?_, ?_⟩
  · unfold expectedCType
    by_cases h1 : w ≤ 16 <;> by_cases h2 : w ≤ 32 <;> cases unsigned <;> simp [h1, h2, CType.bits]
  · unfold intInRange at hv
    unfold expectedCType
    have fin : ∀ t : CType, (t.minVal ≤ v ∧ v ≤ t.maxVal) → t.inRange v = true := by
      intro t h; simp [CType.inRange, h.1, h.2]
    by_cases h1 : w ≤ 16
    · have a : 2 ^ w ≤ 2 ^ 16 := pow2_le (by omega)
      have b : 2 ^ (w - 1) ≤ 2 ^ 15 := pow2_le (by omega)
      cases unsigned
      · simp only [Bool.false_eq_true, if_false, h1, if_true] at hv ⊢
        apply fin; simp only [CType.minVal, CType.maxVal, CType.signed, CType.bits, if_true]; omega
      · simp only [if_true, h1] at hv ⊢
        apply fin; simp only [CType.minVal, CType.maxVal, CType.signed, CType.bits, Bool.false_eq_true, if_false]; omega
    · by_cases h2 : w ≤ 32
      · have a : 2 ^ w ≤ 2 ^ 32 := pow2_le (by omega)
        have b : 2 ^ (w - 1) ≤ 2 ^ 31 := pow2_le (by omega)
        cases unsigned
        · simp only [Bool.false_eq_true, if_false, h1, h2, if_true] at hv ⊢
          apply fin; simp only [CType.minVal, CType.maxVal, CType.signed, CType.bits, if_true]; omega
        · simp only [if_true, h1, h2, if_false] at hv ⊢
          apply fin; simp only [CType.minVal, CType.maxVal, CType.signed, CType.bits, Bool.false_eq_true, if_false]; omega
      · have a : 2 ^ w ≤ 2 ^ 64 := pow2_le (by omega)
        have b : 2 ^ (w - 1) ≤ 2 ^ 63 := pow2_le (by omega)
        cases unsigned
        · simp only [Bool.false_eq_true, if_false, h1, h2] at hv ⊢
          apply fin; simp only [CType.minVal, CType.maxVal, CType.signed, CType.bits, if_true]; omega
        · simp only [if_true, h1, h2, if_false] at hv ⊢
          apply fin; simp only [CType.minVal, CType.maxVal, CType.signed, CType.bits, Bool.false_eq_true, if_false]; omega

/-- C++ initialises a member of the declared standard type (`std::intN_t` / `std::uintN_t`, `N = bestFit w`) with the
literal: the value is inside the range of that type, so the conversion keeps it. -/
theorem C05_cpp_declared_type_holds_value (unsigned : Bool) (w : Nat) (v : Int) (hv : intInRange unsigned w v)
    (fit : Nat) (hfit : bestFit w = .ok fit) : intInRange unsigned fit v := by
  have hle : w ≤ fit := by
    unfold bestFit at hfit
    split at hfit
    · injection hfit with e; omega
    · split at hfit
      · injection hfit with e; omega
      · split at hfit
        · injection hfit with e; omega
        · split at hfit
          · injection hfit with e; omega
          · cases hfit
  have a : 2 ^ w ≤ 2 ^ fit := pow2_le hle
  have b : 2 ^ (w - 1) ≤ 2 ^ (fit - 1) := pow2_le (by omega)
  unfold intInRange at hv ⊢
  cases unsigned
  · simp only [Bool.false_eq_true, if_false] at hv ⊢; omega
  · simp only [if_true] at hv ⊢; omega

/-- Before fix 8a97f8c the minimum of `int64` was rendered `-9223372036854775808LL`: the negation of a literal that
fits no type of its candidate list (gcc: "integer constant is so large that it is unsigned", `__int128`). -/
theorem C05_int64_min_literal_before_fix_has_no_type (d : Dialect) :
    filterLiteralBeforeFix Gen.cCfg (.frac ⟨-9223372036854775808, 1⟩) (.sint 64) = .ok "-9223372036854775808LL".toList ∧
      evalStr d "-9223372036854775808LL".toList = .error .intLiteralNoType := by
  refine ⟨by decide, ?_⟩
  have hl : lexStr "-9223372036854775808LL".toList = some [.minus, .int 9223372036854775808 true false 2] := by decide
  rw [evalStr_of hl (by simp [usesStaticCast]) (e := .neg (.ilit 9223372036854775808 true false 2)) (by decide)]
  cases d <;> decide

/-! ## (ii) `bool` and character constants -/

/-- `bool` constants: C renders `true` / `false`, in C11 the `<stdbool.h>` macros of type `int` with values 1 / 0;
in C++ the keywords of type `bool`. -/
theorem C05_bool_literal (b : Bool) :
    (filterLiteral Gen.cCfg (.bool b) .bool = .ok (if b then "true".toList else "false".toList) ∧
      evalStr .c11 (if b then "true".toList else "false".toList) = .ok (.int .int (if b then 1 else 0)) ∧
      evalStr .c11 (cMacroBody (if b then "true".toList else "false".toList)) = .ok (.int .int (if b then 1 else 0))) ∧
    (filterLiteral Gen.cppCfg (.bool b) .bool = .ok (if b then "true".toList else "false".toList) ∧
      evalStr .cpp14 (if b then "true".toList else "false".toList) = .ok (.int .bool (if b then 1 else 0))) := by
  cases b <;> decide

/-- `uint8 X = 'c'`: PyDSDL stores the code of the (one byte) character; the literal is that number in an unsigned
type. -/
theorem C05_char_constant (d : Dialect) (cfg : LangCfg) (fmt : List FmtPiece) (hcfg : cfg.castFormat = some fmt)
    (c : Char) (hc : c.toNat < 128) :
    ∃ s, filterLiteral cfg (charConstant c) (.uint 8) = .ok s ∧
      evalStr d s = .ok (.int .uint c.toNat) ∧ evalStr d (cMacroBody s) = .ok (.int .uint c.toNat) := by
  have h := C05_int_literal_exact d cfg fmt hcfg true 8 (by decide) (c.toNat : Int)
    (by unfold intInRange; simp; omega)
  simpa [charConstant, expectedCType] using h

/-! ## (iii) floating-point constants -/

/-- **Floating constants whose numerator and denominator are exactly representable in binary64** (the quotient
branch of `_float_literal_expression`), every width up to 64 bits, every such fraction inside the range of the type:
the C rendering `((T) (n.0 / d.0))` — alone and as the macro body — and the C++ rendering
`static_cast<T>((n.0 / d.0))` lex, parse and evaluate without a range error to `floatDenotation`: for `double`
exactly the fraction rounded to nearest-even (`roundFrac binary64`, characterised by `C05_round_*` below), for
`float` that value converted once more to binary32; the result is a finite canonical member of the format. -/
theorem C05_float_quotient_literal (w : Nat) (hw : w ≤ 64) (f : Frac) (hd : 0 < f.den)
    (h1 : isExact f.num = true) (h2 : isExact (f.den : Int) = true) (hr : FloatInRange w f) :
    (∃ s, filterLiteral Gen.cCfg (.frac f) (.float w) = .ok s ∧
      evalStr .c11 s = .ok (.flt (floatCType w) (floatDenotation w f)) ∧
      evalStr .c11 (cMacroBody s) = .ok (.flt (floatCType w) (floatDenotation w f))) ∧
    (∃ s, filterLiteral Gen.cppCfg (.frac f) (.float w) = .ok s ∧
      evalStr .cpp14 s = .ok (.flt (floatCType w) (floatDenotation w f))) ∧
    (∃ m E, floatDenotation w f = .fin (decide (f.num < 0)) m E ∧ Canon (floatCType w).fmt m E) := by
  have hn : IsExactNat f.num.natAbs := (isExact_iff _).1 h1
  have hden : IsExactNat f.den := by have := (isExact_iff _).1 h2; simpa using this
  have hty := floatTyStr_cases w
  have hlex := lexesAs_quotExpr f.num f.den
  have hk : quotSteps f.num f.den ≤ 8 := by
    have : numSteps f.num ≤ 2 := by cases f.num <;> simp [numSteps]
    unfold quotSteps; split <;> omega
  -- the value of the inner expression and of the cast
  have hq : ∀ d, eval d (quotAst f.num f.den) = .ok (.flt .double (roundFrac binary64 f)) :=
    fun d => eval_quotAst d f hd hn hden
  have hcast : ∀ d, eval d (.cast (tyOf (floatTyStr w)) (quotAst f.num f.den)) =
      .ok (.flt (floatCType w) (floatDenotation w f)) ∧
      ∃ m E, floatDenotation w f = .fin (decide (f.num < 0)) m E ∧ Canon (floatCType w).fmt m E := by
    intro d
    unfold FloatInRange at hr
    unfold floatCType floatDenotation floatTyStr tyOf
    by_cases h32 : w ≤ 32
    · rw [if_pos h32] at hr
      simp only [h32, if_true]
      obtain ⟨m, E, m', E', e64, _, ecv, c32⟩ := roundFrac32_fin f hd hr
      have hq' := hq d
      rewrite [e64] at hq'
      rewrite [e64, ecv]
      exact ⟨eval_cast_float d _ hq' ecv, m', E', Eq.refl _, by rewrite [fmt_float]; exact c32⟩
    · rw [if_neg h32] at hr
      simp only [h32, if_false]
      have hne : ("double".toList = "float".toList) = False := by decide
      simp only [hne, if_false]
      obtain ⟨m, E, e64, c64⟩ := roundFrac64_fin f hd hr
      have hq' := hq d
      rewrite [e64] at hq'
      rewrite [e64]
      exact ⟨eval_cast_double d _ hq' c64, m, E, Eq.refl _, by rewrite [fmt_double]; exact c64⟩
  have hnoCast : usesStaticCast (quotToks f.num f.den) = false := by
    have := usesStaticCast_quotToks f.num f.den [] [] rfl rfl
    simpa using this
  refine ⟨⟨_, filterLiteral_c_exact f hw h1 h2, ?_, ?_⟩, ⟨_, filterLiteral_cpp_exact f hw h1 h2, ?_⟩, (hcast .c11).2⟩
  · rewrite [evalStr_of (lexStr_cCast hty hlex hk) ?_ (parse_cCast hty f.num f.den)]
    · exact (hcast .c11).1
    · have := usesStaticCast_quotToks f.num f.den [.lp, .lp, .ident (floatTyStr w), .rp] [.rp]
        (by rcases hty with h | h <;> rw [h] <;> decide) (by decide)
      simp only [List.cons_append, List.nil_append] at this
      rw [this]; rfl
  · rewrite [evalStr_of (lexStr_cCast_macro hty hlex hk) ?_ (parse_cCast_macro hty f.num f.den)]
    · exact (hcast .c11).1
    · have := usesStaticCast_quotToks f.num f.den [.lp, .lp, .lp, .ident (floatTyStr w), .rp] [.rp, .rp]
        (by rcases hty with h | h <;> rw [h] <;> decide) (by decide)
      simp only [List.cons_append, List.nil_append] at this
      rw [this]; rfl
  · rewrite [evalStr_of (lexStr_cppCast hty hlex hk) (by rfl) (parse_cppCast hty f.num f.den)]
    exact (hcast .cpp14).1

/-- `float` constants of the quotient branch go through two roundings (binary64 division, then the cast).  The
result is not always the correctly rounded binary32 value — see the witness below — but it always lies **strictly
within one unit in the last place** of it, which is what the property demands:
`| m' * 2^E' / 2^149 - |num| / den | < 2^E' / 2^149`, stated on integers.  No exactness hypothesis: this is a fact
about `floatDenotation`, so it covers the decimal fallback as well. -/
theorem C05_float32_within_one_ulp (w : Nat) (hw : w ≤ 32) (f : Frac) (hd : 0 < f.den) (s : Bool) (m' E' : Nat)
    (h : floatDenotation w f = .fin s m' E') :
    m' * 2 ^ E' * f.den < f.num.natAbs * 2 ^ 149 + 2 ^ E' * f.den ∧
      f.num.natAbs * 2 ^ 149 < m' * 2 ^ E' * f.den + 2 ^ E' * f.den := by
  unfold floatDenotation at h
  rw [if_pos hw] at h
  exact float32_within_one_ulp f hd h

/-- Witness of the double rounding: `float32 X = 2251799947902975 / 2251799813685247` (both terms exact in
binary64; the fraction is `1 + 2^-24 + 2^-75`, just above the midpoint of two adjacent binary32 numbers).  The
generated `((float) (2251799947902975.0 / 2251799813685247.0))` is `1.0f`, the correctly rounded binary32 value is the
next number up.  Within one ulp, as the property allows; replayed on gcc / clang / g++ by the harness. -/
example : floatDenotation 32 ⟨2251799947902975, 2251799813685247⟩ = .fin false 8388608 126 ∧
    roundFrac binary32 ⟨2251799947902975, 2251799813685247⟩ = .fin false 8388609 126 := by decide +kernel

/-
Full statement for the decimal-fallback branch of `_float_literal_expression` (numerator or denominator not exactly
representable in binary64: the filter renders `repr(numerator / denominator)`):

  for every fraction `f` in the range of the type, the rendered C / C++ literal evaluates to `floatDenotation w f`.

What is proved: exactly this, under the hypothesis that the decimal text `repr` prints for the (already correctly
rounded) quotient reads back as the same double — `reprReadsBack m E = true`, an executable check (the text is one
preprocessing number starting with a digit, it is a floating literal, and that literal correctly rounded is `m * 2^E`
again).  What is missing is the round-trip theorem of shortest-digit printing (17 significant digits always suffice;
`shortestDigits?` searches 1..17 digits by reading candidates back, so only the existence of a 17-digit candidate is
open).  The harness evaluates `reprReadsBack` on every double it meets (`short` requests): no counterexample.
The zero results (`0.0`, `-0.0`: fractions below half the smallest subnormal) need no hypothesis.
-/
theorem C05_float_fallback_literal_partial (w : Nat) (hw : w ≤ 64) (f : Frac) (hd : 0 < f.den)
    (hne : (isExact f.num && isExact (f.den : Int)) = false) (hr : FloatInRange w f)
    (hrb : ∀ s m E, roundFrac binary64 f = .fin s m E → reprReadsBack m E = true) :
    (∃ s, filterLiteral Gen.cCfg (.frac f) (.float w) = .ok s ∧
      evalStr .c11 s = .ok (.flt (floatCType w) (floatDenotation w f)) ∧
      evalStr .c11 (cMacroBody s) = .ok (.flt (floatCType w) (floatDenotation w f))) ∧
    (∃ s, filterLiteral Gen.cppCfg (.frac f) (.float w) = .ok s ∧
      evalStr .cpp14 s = .ok (.flt (floatCType w) (floatDenotation w f))) := by
  have hr64 : InRange64 f := by
    unfold FloatInRange at hr
    by_cases h32 : w ≤ 32
    · rw [if_pos h32] at hr
      have hab : (2 ^ 24 - 1) * 2 ^ 104 ≤ (2 ^ 53 - 1) * 2 ^ 971 :=
        Nat.mul_le_mul (by decide) (pow2_le (by decide))
      exact Nat.le_trans hr (Nat.mul_le_mul_right _ hab)
    · rw [if_neg h32] at hr; exact hr
  obtain ⟨m, E, e64, c64⟩ := roundFrac64_fin f hd hr64
  obtain ⟨mant, e10, hdig, hpp, hfl, htok, hrd⟩ := reprReadsBack_inv (hrb _ m E e64)
  have hty := floatTyStr_cases w
  have hlex := lexesAs_repr (decide (f.num < 0)) hdig hpp hfl htok
  have hk : (if decide (f.num < 0) = true then 2 else 1) ≤ 8 := by split <;> omega
  have htoks : (if decide (f.num < 0) = true then [Tok.minus, Tok.flt mant e10 .none] else [Tok.flt mant e10 .none]) =
      fbToks (decide (f.num < 0)) mant e10 := rfl
  rw [htoks] at hlex
  have hq : ∀ d, eval d (fbAst (decide (f.num < 0)) mant e10) = .ok (.flt .double (.fin (decide (f.num < 0)) m E)) :=
    fun d => eval_fbAst d _ hrd
  have hcast : ∀ d, eval d (.cast (tyOf (floatTyStr w)) (fbAst (decide (f.num < 0)) mant e10)) =
      .ok (.flt (floatCType w) (floatDenotation w f)) := by
    intro d
    unfold floatCType floatDenotation floatTyStr tyOf
    by_cases h32 : w ≤ 32
    · have hr32 := hr
      unfold FloatInRange at hr32
      rw [if_pos h32] at hr32
      simp only [h32, if_true]
      obtain ⟨m2, E2, m', E', e64', _, ecv, _⟩ := roundFrac32_fin f hd hr32
      have em : FVal.fin (decide (f.num < 0)) m E = FVal.fin (decide (f.num < 0)) m2 E2 := by rw [← e64, ← e64']
      rewrite [e64', ecv]
      have hq' := hq d
      rewrite [em] at hq'
      exact eval_cast_float d _ hq' ecv
    · simp only [h32, if_false]
      have hne' : ("double".toList = "float".toList) = False := by decide
      simp only [hne', if_false]
      rewrite [e64]
      exact eval_cast_double d _ (hq d) c64
  refine ⟨⟨_, filterLiteral_c_fallback f hd hw hne e64, ?_, ?_⟩, ⟨_, filterLiteral_cpp_fallback f hd hw hne e64, ?_⟩⟩
  · rewrite [evalStr_of (lexStr_cCast hty hlex hk) ?_ (parse_cCast_fb hty _ mant e10)]
    · exact hcast .c11
    · have := usesStaticCast_fbToks (decide (f.num < 0)) mant e10 [.lp, .lp, .ident (floatTyStr w), .rp] [.rp]
        (by rcases hty with h | h <;> rw [h] <;> decide) (by decide)
      simp only [List.cons_append, List.nil_append] at this
      rw [this]; rfl
  · rewrite [evalStr_of (lexStr_cCast_macro hty hlex hk) ?_ (parse_cCast_macro_fb hty _ mant e10)]
    · exact hcast .c11
    · have := usesStaticCast_fbToks (decide (f.num < 0)) mant e10 [.lp, .lp, .lp, .ident (floatTyStr w), .rp] [.rp, .rp]
        (by rcases hty with h | h <;> rw [h] <;> decide) (by decide)
      simp only [List.cons_append, List.nil_append] at this
      rw [this]; rfl
  · rewrite [evalStr_of (lexStr_cppCast hty hlex hk) (by rfl) (parse_cppCast_fb hty _ mant e10)]
    exact hcast .cpp14

/-! ### what "rounded to nearest-even" means: `roundFrac` characterised

`roundFrac g f = .fin s m E` denotes `(-1)^s * m * 2^E / 2^g.bias`.  Distances are stated on integers: both values
multiplied by `f.den * 2^g.bias`, i.e. `m * 2^E * f.den` against `|f.num| * 2^g.bias`. -/

/-- The result is a member of the format in canonical form with the sign of the fraction. -/
theorem C05_round_in_format (g : Fmt) (hp : 1 ≤ g.prec) (f : Frac) (hd : 0 < f.den) (s : Bool) (m E : Nat)
    (h : roundFrac g f = .fin s m E) :
    s = decide (f.num < 0) ∧ m < 2 ^ g.prec ∧ (E = 0 ∨ 2 ^ (g.prec - 1) ≤ m) ∧ E ≤ g.emax := by
  obtain ⟨hs, hr, he⟩ := roundFrac_fin_inv h
  have hc := roundNat_canonical (p := g.prec) (N := f.num.natAbs * 2 ^ g.bias) (D := f.den) hp hd
  rw [hr] at hc
  exact ⟨hs, hc.1, hc.2, he⟩

/-- **Nearest**: no member `m' * 2^E'` of the format (any exponent, any significand below `2^prec`) is closer to
the fraction than the result. -/
theorem C05_round_nearest (g : Fmt) (hp : 1 ≤ g.prec) (f : Frac) (hd : 0 < f.den) (s : Bool) (m E : Nat)
    (h : roundFrac g f = .fin s m E) (m' E' : Nat) (hm' : m' < 2 ^ g.prec) :
    (((m * 2 ^ E * f.den : Nat) : Int) - ((f.num.natAbs * 2 ^ g.bias : Nat) : Int)).natAbs ≤
      (((m' * 2 ^ E' * f.den : Nat) : Int) - ((f.num.natAbs * 2 ^ g.bias : Nat) : Int)).natAbs := by
  obtain ⟨_, hr, _⟩ := roundFrac_fin_inv h
  have := roundNat_nearest (p := g.prec) (N := f.num.natAbs * 2 ^ g.bias) (D := f.den) hp hd m' E' hm'
  rw [hr] at this
  simp only at this
  generalize ((m * 2 ^ E * f.den : Nat) : Int) = a at this ⊢
  generalize ((m' * 2 ^ E' * f.den : Nat) : Int) = b at this ⊢
  generalize ((f.num.natAbs * 2 ^ g.bias : Nat) : Int) = c at this ⊢
  omega

/-- **Ties to even**: when the fraction lies exactly half way between two adjacent multiples of `2^E`, the
significand of the result is even. -/
theorem C05_round_ties_even (g : Fmt) (hp : 2 ≤ g.prec) (f : Frac) (hd : 0 < f.den) (s : Bool) (m E : Nat)
    (h : roundFrac g f = .fin s m E) (k : Nat)
    (htie : 2 * (f.num.natAbs * 2 ^ g.bias) = (2 * k + 1) * (2 ^ E * f.den)) : m % 2 = 0 := by
  obtain ⟨_, hr, _⟩ := roundFrac_fin_inv h
  have := roundNat_tie_even' (p := g.prec) (N := f.num.natAbs * 2 ^ g.bias) (D := f.den) hp hd k (by rw [hr]; exact htie)
  rw [hr] at this
  exact this

/-- **A member of the format is returned unchanged** (so the rounding is the identity on representable fractions;
with `C05_round_nearest` this is "correctly rounded"). -/
theorem C05_round_exact_on_members (g : Fmt) (hp : 1 ≤ g.prec) (s : Bool) (m E : Nat) (hc : Canon g m E) (hm : 0 < m) :
    roundFrac g ⟨if s then -((m * 2 ^ E : Nat) : Int) else ((m * 2 ^ E : Nat) : Int), 2 ^ g.bias⟩ = .fin s m E := by
  unfold roundFrac
  have hpos : 0 < m * 2 ^ E := Nat.mul_pos hm (pow2_pos _)
  have hs : ∀ V : Nat, 0 < V → decide ((if s then -(V : Int) else (V : Int)) < 0) = s := by
    intro V hV; cases s <;> simp <;> omega
  have ha : ∀ V : Nat, (if s then -(V : Int) else (V : Int)).natAbs = V := by
    intro V; cases s <;> simp
  simp only [hs _ hpos, ha]
  exact roundTo_self hp (pow2_pos _) hc

/-! ## (iv) the Python target -/

/-- `bool` constants of the generated Python class: `True` / `False` evaluate to the DSDL value. -/
theorem C05_py_bool_constant (b : Bool) :
    pyConstantExpr (.bool b) .bool = .ok (if b then "True".toList else "False".toList) ∧
      pyEvalStr (if b then "True".toList else "False".toList) = .ok (.bool b) := by
  cases b <;> decide

/-- Integer constants of the generated Python class: the decimal text evaluates to exactly the integer — for every
integer (Python integers are unbounded), hence for every value of every DSDL integer type. -/
theorem C05_py_int_constant (v : Int) (unsigned : Bool) (w : Nat) :
    ∃ s, pyConstantExpr (.frac ⟨v, 1⟩) (if unsigned then .uint w else .sint w) = .ok s ∧ pyEvalStr s = .ok (.int v) := by
  refine ⟨intStr v, by cases unsigned <;> rfl, ?_⟩
  have hl : lexStr (intStr v) = some (pyIntToks v) :=
    lexStr_of_lexesAs (lexesAs_intStr v) (by have := pyIntSteps_le v; omega)
  rw [pyEvalStr_of hl (pyParse_int v)]
  exact pyEval_int v

/-- Floating constants of the generated Python class are written `numerator / denominator`: CPython's integer true
division is correctly rounded, so the attribute is the fraction rounded to nearest-even into binary64 (the only
floating type of Python) — for every fraction in the binary64 range, whatever its terms (no exactness condition, no
`OverflowError`). -/
theorem C05_py_float_constant (w : Nat) (f : Frac) (hd : 0 < f.den) (hr : InRange64 f) :
    ∃ s, pyConstantExpr (.frac f) (.float w) = .ok s ∧ pyEvalStr s = .ok (.float (roundFrac binary64 f)) ∧
      ∃ m E, roundFrac binary64 f = .fin (decide (f.num < 0)) m E ∧ Canon binary64 m E := by
  obtain ⟨m, E, e64, c64⟩ := roundFrac64_fin f hd hr
  refine ⟨_, rfl, ?_, m, E, e64, c64⟩
  show pyEvalStr (intStr f.num ++ " / ".toList ++ natStr f.den) = _
  rw [pyEvalStr_of (lexStr_py_quot f.num f.den) (pyParse_quot f.num f.den _), pyEval_quot f hd e64, e64]

/-! ## non-vacuity: the hypotheses are met by real constants, the renderings are the real strings -/

/-- `int64 X = -9223372036854775808` and `uint64 Y = 18446744073709551615` -/
example : ∃ s, filterLiteral Gen.cCfg (.frac ⟨-9223372036854775808, 1⟩) (.sint 64) = .ok s ∧
    evalStr .c11 s = .ok (.int .llong (-9223372036854775808)) ∧
    evalStr .c11 (cMacroBody s) = .ok (.int .llong (-9223372036854775808)) :=
  C05_int_literal_exact .c11 Gen.cCfg _ rfl false 64 (by decide) (-9223372036854775808) (by decide)
example : ∃ s, filterLiteral Gen.cppCfg (.frac ⟨18446744073709551615, 1⟩) (.uint 64) = .ok s ∧
    evalStr .cpp14 s = .ok (.int .ullong 18446744073709551615) ∧
    evalStr .cpp14 (cMacroBody s) = .ok (.int .ullong 18446744073709551615) :=
  C05_int_literal_exact .cpp14 Gen.cppCfg _ rfl true 64 (by decide) 18446744073709551615 (by decide)
example : filterLiteral Gen.cCfg (.frac ⟨-9223372036854775808, 1⟩) (.sint 64) = .ok "(-9223372036854775807LL - 1)".toList := by
  decide +kernel
example : filterLiteral Gen.cCfg (.frac ⟨70000, 1⟩) (.uint 17) = .ok "70000UL".toList := by decide +kernel
example : filterLiteral Gen.cCfg (charConstant 'a') (.uint 8) = .ok "97U".toList := by decide +kernel

/-- `float32 X = 355 / 113`: quotient branch -/
example : filterLiteral Gen.cCfg (.frac ⟨355, 113⟩) (.float 32) = .ok "((float) (355.0 / 113.0))".toList := by decide +kernel
example : filterLiteral Gen.cppCfg (.frac ⟨-355, 113⟩) (.float 64) = .ok "static_cast<double>((-355.0 / 113.0))".toList := by
  decide +kernel
example := C05_float_quotient_literal 32 (by decide) ⟨355, 113⟩ (by decide) (by decide +kernel) (by decide +kernel)
  (by unfold FloatInRange; rw [if_pos (by decide)]; unfold InRange32; decide +kernel)

/-- `float64 X = 5e-324` (PyDSDL: the fraction `5 / 10^324`): decimal fallback, renders `((double) 5e-324)` -/
example : filterLiteral Gen.cCfg (.frac ⟨5, 10 ^ 324⟩) (.float 64) = .ok "((double) 5e-324)".toList := by decide +kernel
example := C05_float_fallback_literal_partial 64 (by decide) ⟨5, 10 ^ 324⟩ (Nat.pow_pos (by decide)) (by decide +kernel)
  (by unfold FloatInRange; rw [if_neg (by decide)]; unfold InRange64; decide +kernel)
  (by
    intro s m E h
    have e : roundFrac binary64 ⟨5, 10 ^ 324⟩ = .fin false 1 0 := by decide +kernel
    have h' : FVal.fin false 1 0 = FVal.fin s m E := e.symm.trans h
    obtain ⟨_, h2, h3⟩ := FVal.fin.inj h'
    rw [← h2, ← h3]
    decide +kernel)
/-- results that round to zero read back without any hypothesis -/
example : reprReadsBack 0 0 = true := by decide +kernel

/-- Before fix 8a97f8c a tiny `float64` constant was rendered as a quotient whose denominator is not a double:
"floating constant exceeds range" (known finding `float-constant-literal-range`); now it is `5e-324`. -/
theorem C05_tiny_float_literal_before_fix_out_of_range :
    ∃ s, filterLiteralBeforeFix Gen.cppCfg (.frac ⟨1, 2 * 10 ^ 323⟩) (.float 64) = .ok s ∧
      evalStr .cpp14 s = .error .fltLiteralRange :=
  ⟨_, rfl, by decide +kernel⟩

/-- Python -/
example : pyConstantExpr (.frac ⟨-355, 113⟩) (.float 32) = .ok "-355 / 113".toList := by decide +kernel

end NunavutVerif.CLiteral
