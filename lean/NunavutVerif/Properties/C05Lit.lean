import NunavutVerif.Model.CLiteral
import NunavutVerif.Gen.CLiteralCfg
namespace NunavutVerif.CLiteral

theorem C05_placeholder : natStr 0 = ['0'] := by decide

end NunavutVerif.CLiteral
