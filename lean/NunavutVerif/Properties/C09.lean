import NunavutVerif.Lemmas.Strop
import NunavutVerif.Lemmas.StropGlue
import NunavutVerif.Gen.StropCfg
import NunavutVerif.Gen.StropGlue
/-!
# C09 — identifier stropping always yields valid, unreserved, deterministic identifiers

Property theorems only (definitions: `Model/Regex.lean`, `Model/Strop.lean`; generated configuration:
`Gen/StropCfg.lean`; helper lemmas: `Lemmas/Regex.lean`, `Lemmas/Strop.lean`).
-/
namespace NunavutVerif.Strop
open NunavutVerif.Regex NunavutVerif.Gen.StropCfg

/-- T1 (structural, ANY configuration, any handler): a token that `strop` returns is not reserved, matches no
reserved pattern of `all` / its id type, and no encoding rule of `all` / its id type matches at its start.
(For the code as found this holds only when no failure handler supplied the token — `stropTraceBeforeFix`,
see the witness below.) -/
theorem C09_structural_recheck (cfg : Cfg) (tok ty r : Str) (h : strop cfg tok ty = .ok r) :
    isReserved cfg r = false ∧
    patDry cfg tyAll r = false ∧ patDry cfg (lowerAscii ty) r = false ∧
    encodeDry cfg tyAll r = false ∧ encodeDry cfg (lowerAscii ty) r = false := by
  obtain ⟨g, hg⟩ := strop_ok_iff.mp h
  exact stropTrace_rechecked hg

/-- T2 (the three shipped configurations as generated from the tree under check, every non-empty token, every
id type incl. unknown ones): whatever `strop` returns is `[A-Za-z_][A-Za-z0-9_]*`, is not a reserved identifier
and matches no reserved pattern of `all` / its id type (`acceptable`) — handler paths included. -/
theorem C09_shipped_valid_unreserved (cfg : Cfg) (hcfg : cfg = cfgC ∨ cfg = cfgCpp ∨ cfg = cfgPy)
    (tok ty r : Str) (ht : tok ≠ []) (h : strop cfg tok ty = .ok r) :
    acceptable cfg (lowerAscii ty) r = true := by
  obtain ⟨g, hg⟩ := strop_ok_iff.mp h
  have h2 := stropTrace_rechecked hg
  have h1 : isIdent r = true := by
    rcases hcfg with rfl | rfl | rfl
    · exact stropTrace_ident wordCfgC nonWordRuleC catchesDigitC ht hg
    · exact stropTrace_ident wordCfgCpp nonWordRuleCpp catchesDigitCpp ht hg
    · exact stropTrace_ident wordCfgPy nonWordRulePy catchesDigitPy ht hg
  simp [acceptable, h1, h2.1, h2.2.1, h2.2.2.1]

/-- T2 for any configuration that has the three recognisable ingredients (prefix / suffix / encoding prefix /
whitespace character made of word characters; an `all` encoding rule `[K]+` whose complement is word
characters; a leading ASCII digit caught by an `all` pattern or encoding rule) — e.g. the override stream of
the harness with word-character prefixes. -/
theorem C09_valid_unreserved_of_ingredients (cfg : Cfg) (hw : WordCfg cfg) (hr : HasNonWordRule cfg)
    (hd : CatchesLeadingDigit cfg) (tok ty r : Str) (ht : tok ≠ []) (h : strop cfg tok ty = .ok r) :
    acceptable cfg (lowerAscii ty) r = true := by
  obtain ⟨g, hg⟩ := strop_ok_iff.mp h
  have h2 := stropTrace_rechecked hg
  have h1 := stropTrace_ident hw hr hd ht hg
  simp [acceptable, h1, h2.1, h2.2.1, h2.2.2.1]

/-- T3 (fixed point, ANY configuration): a token that is not reserved, matches no reserved pattern of `all` /
its id type and in which no encoding rule of `all` / its id type matches anywhere is returned unchanged, with
no handler involved.  (In particular every token that satisfies `acceptable` and `encodingFree`.) -/
theorem C09_fixed_point (cfg : Cfg) (tok ty : Str) (hty : lowerAscii ty ≠ tyAll)
    (hres : isReserved cfg tok = false) (hp1 : patDry cfg tyAll tok = false)
    (hp2 : patDry cfg (lowerAscii ty) tok = false) (henc : encodingFree cfg (lowerAscii ty) tok = true) :
    strop cfg tok ty = .ok tok ∧ stropTrace cfg tok ty = .ok (tok, false) := by
  have h := strop_fixed hty hres hp1 hp2 henc
  exact ⟨by simp [strop, h, Except.map], h⟩

/-- T3 in the property's words. -/
theorem C09_acceptable_unchanged (cfg : Cfg) (tok ty : Str) (hty : lowerAscii ty ≠ tyAll)
    (hacc : acceptable cfg (lowerAscii ty) tok = true) (henc : encodingFree cfg (lowerAscii ty) tok = true) :
    strop cfg tok ty = .ok tok := by
  simp only [acceptable, Bool.and_eq_true, Bool.not_eq_true'] at hacc
  exact (C09_fixed_point cfg tok ty hty hacc.1.1.2 hacc.1.2 hacc.2 henc).1

/-- The id type `all` (any ASCII spelling) is refused. -/
theorem C09_type_all_is_value_error (cfg : Cfg) (tok ty : Str) (hty : lowerAscii ty = tyAll) :
    strop cfg tok ty = .error .valueError := by
  simp [strop, stropTrace, stropTraceBeforeFix, hty, Except.map]

/-- For the shipped configurations the proposed fix changes nothing, on any input: no reserved identifier has
the form of a handler token (`_`, or `_` + a character that is neither `_` nor `A-Z`) and no reserved pattern or
encoding rule can match at the start of one (`handlerSafe`, decided over the whole generated tables); py has no
handler. -/
theorem C09_shipped_fix_is_identity (cfg : Cfg) (hcfg : cfg = cfgC ∨ cfg = cfgCpp ∨ cfg = cfgPy) (tok ty : Str) :
    stropBeforeFix cfg tok ty = strop cfg tok ty := by
  unfold stropBeforeFix strop
  rcases hcfg with rfl | rfl | rfl
  · rw [stropTrace_eq_beforeFix handlerSafeC]
  · rw [stropTrace_eq_beforeFix handlerSafeCpp]
  · rw [stropTrace_eq_beforeFix_of_no_handler rfl rfl]

/-- T2 for the code as found (`stropBeforeFix`), shipped configurations. -/
theorem C09_shipped_valid_unreserved_before_fix (cfg : Cfg) (hcfg : cfg = cfgC ∨ cfg = cfgCpp ∨ cfg = cfgPy)
    (tok ty r : Str) (ht : tok ≠ []) (h : stropBeforeFix cfg tok ty = .ok r) :
    acceptable cfg (lowerAscii ty) r = true := by
  rw [C09_shipped_fix_is_identity cfg hcfg] at h
  exact C09_shipped_valid_unreserved cfg hcfg tok ty r ht h

/-! ### non-vacuity: the theorems' hypotheses are met by non-trivial runs (strings as code points) -/
section examples
private def lit (x : String) : Str := x.toList.map Char.toNat

-- keyword, prefix: `for` ↦ `_for`; suffix: `if` ↦ `if_`
example : strop cfgC (lit "for") (lit "any") = .ok (lit "_for") := by decide +kernel
example : strop cfgPy (lit "if") (lit "any") = .ok (lit "if_") := by decide +kernel
-- encoding, then a reserved pattern of C++ (`^\d{1}`): `1 a-` ↦ `_1_azX002D`
example : strop cfgCpp (lit "1 a-") (lit "path") = .ok (lit "_1_azX002D") := by decide +kernel
example : strop cfgC (lit "1 a-") (lit "path") = .ok (lit "zX0031_azX002D") := by decide +kernel
-- typed patterns: `isfoo` is reserved for functions only
example : strop cfgC (lit "isfoo") (lit "function") = .ok (lit "_isfoo") := by decide +kernel
example : strop cfgC (lit "isfoo") (lit "macro") = .ok (lit "isfoo") := by decide +kernel
example : strop cfgC (lit "isfoo") (lit "ANY") = .ok (lit "_isfoo") := by decide +kernel
-- the failure handler fires and its token survives the final verification
example : stropTrace cfgC (lit "__Bool") (lit "any") = .ok (lit "_bool", true) := by decide +kernel
example : stropTrace cfgCpp (lit "_A") (lit "any") = .ok (lit "_a", true) := by decide +kernel
-- fixed point and its side condition: `a__` is a C identifier but C++'s rule `_{2,}$` encodes it
example : acceptable cfgCpp (lit "any") (lit "abc") = true ∧ encodingFree cfgCpp (lit "any") (lit "abc") = true := by decide +kernel
example : acceptable cfgCpp (lit "any") (lit "a__") = true ∧ encodingFree cfgCpp (lit "any") (lit "a__") = false ∧
    strop cfgCpp (lit "a__") (lit "any") = .ok (lit "azX005FzX005F") := by decide +kernel
example : strop cfgC (lit "x") (lit "All") = .error .valueError := by decide +kernel
end examples

/-! ### The defect of the code as found (regression witness, replayed on the implementation by the harness)

C configuration with the single extra reserved identifier `_for`: `for` ↦ `_for` ↦ `__for` (keyword, twice)
↦ `___for` (pattern `^__`) ↦ handler ↦ `_for`, which is reserved, ↦ handler again ↦ `_for`, returned. -/
def cfgWitness : Cfg := { cfgC with reserved := [95, 102, 111, 114] :: cfgC.reserved }

example : stropBeforeFix cfgWitness [102, 111, 114] [97, 110, 121] = .ok [95, 102, 111, 114] ∧
    isReserved cfgWitness [95, 102, 111, 114] = true := by decide +kernel

/-- the repaired code raises instead -/
example : strop cfgWitness [102, 111, 114] [97, 110, 121] = .error .illegalToken := by decide +kernel

end NunavutVerif.Strop

/-!
# Round 2 — the glue around `strop` (`Model/StropGlue.lean`)

A: configuration ↦ encoder tables (`TokenEncoder.__init__` over an explicit heap of `list` objects);
B: `Language.filter_id` (string conversion in front, the id types templates and Python sources really pass);
C: determinism at full strength — the caches (`cached_property _token_encoder`, `lru_cache` on `strop`) as a state machine.
-/
namespace NunavutVerif.Strop
open NunavutVerif.Regex NunavutVerif.StropGlue NunavutVerif.Gen.StropCfg NunavutVerif.Gen.StropGlue

/-! ## A. assembly -/

/-- A1 (the shipped languages, decided over the generated data): the tables the real `TokenEncoder` objects hold
(`cfgC`, `cfgCpp`, `cfgPy`: dumped by translate/stropcfg.py) are exactly what `assemble` makes of the loaded defaults
(`doc`: sections, list objects and their sharing regenerated by translate/stropglue.py) and of the language classes' own
contributions (`code_*`: additional reserved identifiers, failure handlers). -/
theorem C09_shipped_tables_are_assembled :
    aget doc.sections [99] = some section_c ∧ aget doc.sections [99, 112, 112] = some section_cpp ∧
    aget doc.sections [112, 121] = some section_py ∧
    assemble rangesIsSpace compile doc.cells section_c code_c = .ok cfgC ∧
    assemble rangesIsSpace compile doc.cells section_cpp code_cpp = .ok cfgCpp ∧
    assemble rangesIsSpace compile doc.cells section_py code_py = .ok cfgPy := by
  decide +kernel

/-- A2 (any configuration, any heap): constructing an encoder never writes to an existing `list` object — the heap
afterwards is the heap before plus fresh objects — and the object the encoder holds exists. -/
theorem C09_encoder_construction_only_allocates (compile : Str → Option Re) (h : Heap) (sec : Section) (lc : LangCode)
    (e : Enc) (h' : Heap) (hn : newEncoder compile h sec lc = .ok (e, h')) :
    ∃ ext, h' = h ++ ext ∧ e.reserved < h'.length :=
  newEncoder_frame hn

/-- A3 (isolation, any configurations): whatever other encoders are constructed — any sections, any language classes,
any number, any order, successfully or not — (1) an encoder that exists shows the same tables afterwards, although it may
hold a `list` object that other sections share, and (2) a section assembles to the same tables afterwards.  One
language's additions never reach another language's tables. -/
theorem C09_tables_unaffected_by_other_encoders (space : List (Nat × Nat)) (compile : Str → Option Re) (h : Heap)
    (others : List (Section × LangCode)) :
    (∀ e : Enc, e.reserved < h.length → e.cfg space (buildAll compile h others) = e.cfg space h) ∧
    (∀ sec lc, secWf h.length sec = true →
      assemble space compile (buildAll compile h others) sec lc = assemble space compile h sec lc) := by
  obtain ⟨ext, hext⟩ := buildAll_append compile h others
  rw [hext]
  exact ⟨fun e he => cfg_append space h ext e he, fun sec lc hwf => assemble_append space compile h ext sec lc hwf⟩

/-- A3 on the shipped data: in one `LanguageContext` (one loaded document: `c` and `cpp` name the same list object),
after the encoders of the other languages were built in any order and any multiplicity, each shipped language still
assembles to its tables. -/
theorem C09_shipped_tables_in_every_construction_order (others : List (Section × LangCode)) :
    assemble rangesIsSpace compile (buildAll compile doc.cells others) section_c code_c = .ok cfgC ∧
    assemble rangesIsSpace compile (buildAll compile doc.cells others) section_cpp code_cpp = .ok cfgCpp ∧
    assemble rangesIsSpace compile (buildAll compile doc.cells others) section_py code_py = .ok cfgPy := by
  have hwf : secWf doc.cells.length section_c = true ∧ secWf doc.cells.length section_cpp = true ∧
      secWf doc.cells.length section_py = true := by decide +kernel
  have h := (C09_tables_unaffected_by_other_encoders rangesIsSpace compile doc.cells others).2
  have t := C09_shipped_tables_are_assembled
  rw [h _ _ hwf.1, h _ _ hwf.2.1, h _ _ hwf.2.2]
  exact ⟨t.2.2.2.1, t.2.2.2.2.1, t.2.2.2.2.2⟩

/-! non-vacuity of A3: the two sections really share an object, and the statement separates `a = a + b` from `a += b`:
with the in-place variant (NOT the code) building a C++ encoder that brings `std` along changes what the C section
assembles to. -/
example : getList section_c kReserved = getList section_cpp kReserved ∧ (getList section_c kReserved).isSome = true := by
  decide +kernel

example : (match newEncoderExtendInPlace compile doc.cells section_cpp { code_cpp with additional := some [[115, 116, 100]] } with
    | .ok (_, h2) => decide (assemble rangesIsSpace compile h2 section_c code_c ≠ .ok cfgC)
    | .error _ => false) = true := by decide +kernel

example : (match newEncoder compile doc.cells section_cpp { code_cpp with additional := some [[115, 116, 100]] } with
    | .ok (_, h2) => decide (assemble rangesIsSpace compile h2 section_c code_c = .ok cfgC)
    | .error _ => false) = true := by decide +kernel

/-! ## B. `Language.filter_id` -/

/-- B1 (shipped configurations, every instance — string, number, bool, `None`, object with a `name` — whose string form
is not empty, every id type): what `filter_id` returns is a valid, unreserved identifier. -/
theorem C09_filter_id_valid_unreserved (cfg : Cfg) (hcfg : cfg = cfgC ∨ cfg = cfgCpp ∨ cfg = cfgPy)
    (i : Inst) (ty r : Str) (hne : rawName i ≠ []) (h : filterId true cfg i ty = .ok r) :
    acceptable cfg (lowerAscii ty) r = true := by
  simp only [filterId, ↓reduceIte] at h
  exact C09_shipped_valid_unreserved cfg hcfg (rawName i) ty r hne h

/-- B1 for instances that are not strings (numbers, bools, `None`, directly or as the `name` of an object): no side
condition, `str()` of them is never empty. -/
theorem C09_filter_id_of_non_string_instance (cfg : Cfg) (hcfg : cfg = cfgC ∨ cfg = cfgCpp ∨ cfg = cfgPy)
    (a : Atom) (ha : ∀ s, a ≠ .text s) (ty r : Str) :
    (filterId true cfg (.plain a) ty = .ok r → acceptable cfg (lowerAscii ty) r = true) ∧
    (filterId true cfg (.named a) ty = .ok r → acceptable cfg (lowerAscii ty) r = true) :=
  ⟨C09_filter_id_valid_unreserved cfg hcfg _ ty r (by simpa [rawName] using atomStr_ne_nil a ha),
   C09_filter_id_valid_unreserved cfg hcfg _ ty r (by simpa [rawName] using atomStr_ne_nil a ha)⟩

/-- B2 (recorded reading, ANY configuration): an id type that has no entry of its own — neither reserved patterns nor
encoding rules — is treated exactly as if the configuration had its `all` entries only. -/
theorem C09_unknown_id_type_falls_back_to_all (cfg : Cfg) (tok ty : Str) (hu : unknownType cfg ty = true) :
    strop cfg tok ty = strop (allOnly cfg) tok ty :=
  (strop_allOnly cfg tok ty hu).symm

/-- `ValueError` is raised for the id type `all` and for nothing else (any configuration). -/
theorem C09_value_error_iff_type_all (cfg : Cfg) (tok ty : Str) :
    strop cfg tok ty = .error .valueError ↔ lowerAscii ty = tyAll :=
  ⟨strop_valueError, C09_type_all_is_value_error cfg tok ty⟩

/-- B3 (a fact about the generated call-site table: every `| id…` / `short_reference_name(id_type=…)` in every shipped
template, every call of `filter_id` / `filter_short_reference_name` / `strop` / `filter_id_for_target` in the Python
sources, with its literal id type): the site belongs to a stropping language; its id type is never `all`; it is `any`, or
an id type the language configures, or — the only id type in use that falls back to `all` — `path`. -/
theorem C09_id_site_table_facts :
    idSites ≠ [] ∧
    ∀ s ∈ idSites, (cfgOfLang s.lang).isSome = true ∧ lowerAscii s.ty ≠ tyAll ∧
      ∀ cfg, cfgOfLang s.lang = some cfg →
        (unknownType cfg s.ty = false ∨ s.ty = [112, 97, 116, 104]) := by
  decide +kernel

/-- B3, the property at every call site: for every id type a shipped template or Python source passes, on every
instance with a non-empty string form, `filter_id` does not raise `ValueError`, whatever it returns is a valid, unreserved
identifier, and where the language has no entries for the id type the answer is the `all`-only answer. -/
theorem C09_every_used_id_type_is_handled (s : Site) (hs : s ∈ idSites) :
    ∃ cfg, cfgOfLang s.lang = some cfg ∧ ∀ (i : Inst), rawName i ≠ [] →
      filterId true cfg i s.ty ≠ .error .valueError ∧
      (∀ r, filterId true cfg i s.ty = .ok r → acceptable cfg (lowerAscii s.ty) r = true) ∧
      (unknownType cfg s.ty = true → filterId true cfg i s.ty = filterId true (allOnly cfg) i s.ty) := by
  obtain ⟨hsome, hall, _⟩ := C09_id_site_table_facts.2 s hs
  cases hc : cfgOfLang s.lang with
  | none => simp [hc] at hsome
  | some cfg =>
    refine ⟨cfg, rfl, ?_⟩
    have hcfg : cfg = cfgC ∨ cfg = cfgCpp ∨ cfg = cfgPy := by
      unfold cfgOfLang at hc
      split at hc
      · exact Or.inl (Option.some.inj hc).symm
      · split at hc
        · exact Or.inr (Or.inl (Option.some.inj hc).symm)
        · split at hc
          · exact Or.inr (Or.inr (Option.some.inj hc).symm)
          · cases hc
    intro i hne
    refine ⟨?_, fun r hr => C09_filter_id_valid_unreserved cfg hcfg i s.ty r hne hr, ?_⟩
    · simp only [filterId, ↓reduceIte]
      intro hv
      exact hall ((C09_value_error_iff_type_all cfg _ _).mp hv)
    · intro hu
      simp only [filterId, ↓reduceIte]
      exact C09_unknown_id_type_falls_back_to_all cfg _ _ hu

/-! ## C. determinism: the caches -/

/-- the generated defaults document is closed: its sections name its own list objects only -/
theorem C09_generated_document_closed : docWf Gen.StropGlue.env.doc = true := by decide +kernel

/-- C1: the invariant — every cached `_token_encoder` shows what its section assembles to, every entry of the
`lru_cache` is what `strop` answers for its key, all references are live — holds initially and is preserved by every
step (a new context with any overrides, any call of any context's `filter_id`). -/
theorem C09_cache_invariant (env : Env) (hd : docWf env.doc = true) :
    Inv env Proc.init ∧ ∀ p op, Inv env p → Inv env (step env p op) :=
  ⟨inv_init env, fun _ op hi => (step_spec hd hi op).inv⟩

/-- C2: in every state that satisfies the invariant a call answers what the specification answers — a fresh encoder
assembled from the context's configuration, `strop` on it, no cache — whatever the caches hold. -/
theorem C09_answer_is_pure_function (env : Env) (p : Proc) (hi : Inv env p) (ci : Nat) (ctx : Ctx)
    (hc : p.ctxs[ci]? = some ctx) (lang : Str) (inst : Inst) (ty : Str) :
    (use env p ci lang inst ty).2.result = pureAnswer env p.heap ctx.sections lang inst ty :=
  (use_spec hi ci lang inst ty).2 ctx hc

/-- C3 (history independence, full strength): after ANY further history — new contexts in any languages with any
overrides, calls of any context's any language with any instances and id types, cache hits, misses, evictions, failed
constructions — the answer of a context is still the function of (its configuration, language, instance, id type) it
was before. -/
theorem C09_answer_independent_of_history (env : Env) (hd : docWf env.doc = true) (p : Proc) (hi : Inv env p)
    (ops : List Op) (ci : Nat) (ctx : Ctx) (hc : p.ctxs[ci]? = some ctx) (lang : Str) (inst : Inst) (ty : Str) :
    (use env (run env p ops) ci lang inst ty).2.result = pureAnswer env p.heap ctx.sections lang inst ty := by
  have hx := run_spec hd ops hi
  obtain ⟨ctx', hc', hsec⟩ := hx.ctxs ci ctx hc
  obtain ⟨ext, hext⟩ := hx.heap
  rw [C09_answer_is_pure_function env _ hx.inv ci ctx' hc' lang inst ty, hsec, hext]
  exact pureAnswer_append env p.heap ext ctx.sections lang inst ty
    (fun sec hs => hi.secs ctx (List.mem_of_getElem? hc) lang sec hs)

/-- C3 in the property's words: two processes that created the same context and then went through different histories
answer the same call alike. -/
theorem C09_same_call_same_answer (env : Env) (hd : docWf env.doc = true) (p : Proc) (hi : Inv env p)
    (ops1 ops2 : List Op) (ci : Nat) (hc : ci < p.ctxs.length) (lang : Str) (inst : Inst) (ty : Str) :
    (use env (run env p ops1) ci lang inst ty).2.result = (use env (run env p ops2) ci lang inst ty).2.result := by
  have hget : p.ctxs[ci]? = some p.ctxs[ci] := List.getElem?_eq_getElem hc
  rw [C09_answer_independent_of_history env hd p hi ops1 ci _ hget, C09_answer_independent_of_history env hd p hi ops2 ci _ hget]

/-- C4 (same in every process): a context created at ANY point of ANY history — whatever contexts, encoders and cache
entries the process already has — answers every later call, after any further history, exactly as `standalone`
does: the same configuration (defaults document + overrides of the target language) assembled in a process that does
nothing else.  Together with C3: an answer is a function of (defaults, target language, overrides, language, instance,
id type) and of nothing else. -/
theorem C09_context_answers_as_in_fresh_process (env : Env) (hd : docWf env.doc = true) (p : Proc) (hi : Inv env p)
    (target : Str) (ov : List (Str × OVal)) :
    (standalone env target ov = none ∧ load env p target ov = .error .keyError) ∨
    ∃ h0 s0 p', standalone env target ov = some (h0, s0) ∧ load env p target ov = .ok p' ∧
      ∀ (ops : List Op) (lang : Str) (inst : Inst) (ty : Str),
        (use env (run env p' ops) p.ctxs.length lang inst ty).2.result = pureAnswer env h0 s0 lang inst ty := by
  rcases load_eq_standalone env p target ov with hnone | ⟨h0, s0, hs, hl⟩
  · exact Or.inl hnone
  · refine Or.inr ⟨h0, s0, _, hs, hl, ?_⟩
    intro ops lang inst ty
    have hx := load_spec hd hi target ov hl
    have hc : (p.ctxs ++ [Ctx.mk (s0.map (fun e => (e.1, relocSec p.heap.length e.2))) []])[p.ctxs.length]? =
        some (Ctx.mk (s0.map (fun e => (e.1, relocSec p.heap.length e.2))) []) := by simp
    rw [C09_answer_independent_of_history env hd _ hx.inv ops p.ctxs.length _ hc lang inst ty]
    exact pureAnswer_reloc env p.heap h0 s0 lang inst ty

/-! non-vacuity of C: on the generated environment, a history with a second context, a cache hit and an error; the
cache answers the third call (`hit`), the answer is the specification's. -/
section examples
private def lit2 (x : String) : Str := x.toList.map Char.toNat
private def hist : List Op :=
  [.load (lit2 "c") [], .use 0 (lit2 "c") (.plain (.text (lit2 "for"))) (lit2 "any"),
   .load (lit2 "cpp") [(lit2 "stropping_suffix", .str (lit2 "_s"))], .use 1 (lit2 "cpp") (.named (.text (lit2 "std"))) (lit2 "any"),
   .use 0 (lit2 "cpp") (.plain (.int false 7)) (lit2 "any"), .use 0 (lit2 "c") (.plain (.text (lit2 "x"))) (lit2 "all")]

example : (use Gen.StropGlue.env (run Gen.StropGlue.env Proc.init hist) 0 (lit2 "c") (.plain (.text (lit2 "for"))) (lit2 "any")).2
    = ⟨.ok (lit2 "_for"), false, true⟩ := by decide +kernel
example : (use Gen.StropGlue.env (run Gen.StropGlue.env Proc.init hist) 1 (lit2 "cpp") (.plain (.text (lit2 "std"))) (lit2 "any")).2
    = ⟨.ok (lit2 "_std_s"), false, true⟩ := by decide +kernel
example : (use Gen.StropGlue.env (run Gen.StropGlue.env Proc.init hist) 0 (lit2 "cpp") (.plain (.text (lit2 "std"))) (lit2 "any")).2
    = ⟨.ok (lit2 "_std"), false, false⟩ := by decide +kernel
-- the same context created third in a busy process and alone in a fresh one
example : (standalone Gen.StropGlue.env (lit2 "cpp") [(lit2 "stropping_suffix", .str (lit2 "_s"))]).isSome = true ∧
    (match standalone Gen.StropGlue.env (lit2 "cpp") [(lit2 "stropping_suffix", .str (lit2 "_s"))] with
     | some (h0, s0) => pureAnswer Gen.StropGlue.env h0 s0 (lit2 "cpp") (.plain (.text (lit2 "std"))) (lit2 "any")
     | none => .error .noContext) = .ok (lit2 "_std_s") := by decide +kernel
example : filterId true cfgPy (.plain (.int true 12)) (lit2 "any") = .ok (lit2 "zX002D12") ∧
    filterId true cfgC (.named .none) (lit2 "any") = .ok (lit2 "None") ∧
    filterId true cfgPy (.named .none) (lit2 "any") = .ok (lit2 "None_") := by decide +kernel
example : unknownType cfgC (lit2 "path") = true ∧ unknownType cfgC (lit2 "macro") = false ∧ unknownType cfgPy (lit2 "macro") = true := by
  decide +kernel
end examples

end NunavutVerif.Strop

