import NunavutVerif.Lemmas.Strop
import NunavutVerif.Gen.StropCfg
/-!
# C09 — identifier stropping always yields valid, unreserved, deterministic identifiers

Property theorems only (definitions: `Model/Regex.lean`, `Model/Strop.lean`; generated configuration:
`Gen/StropCfg.lean`; helper lemmas: `Lemmas/Regex.lean`, `Lemmas/Strop.lean`).
-/
namespace NunavutVerif.Strop
open NunavutVerif.Regex NunavutVerif.Gen.StropCfg

/-- T1 (structural, ANY configuration): a token that `strop` returns without a failure handler having
produced it is not reserved, matches no reserved pattern of `all` / its id type, and no encoding rule of
`all` / its id type matches at its start. -/
theorem C09_structural_recheck (cfg : Cfg) (tok ty r : Str)
    (h : stropTrace cfg tok ty = .ok (r, false)) :
    isReserved cfg r = false ∧
    patDry cfg tyAll r = false ∧ patDry cfg (lowerAscii ty) r = false ∧
    encodeDry cfg tyAll r = false ∧ encodeDry cfg (lowerAscii ty) r = false := by
  obtain ⟨_, s2, f2, s3, f3, h2, h3, h4⟩ := stropTrace_ok h
  obtain ⟨e1, e2, e3⟩ := recheck_ok_false h4
  subst e2 e3
  obtain ⟨k1, k2, k3⟩ := recheck_ok_false h3
  subst k2 k3
  obtain ⟨p1, p2, _⟩ := recheck_ok_false h2
  subst p2
  simp only [Bool.or_eq_false_iff] at e1 p1
  exact ⟨k1, p1.1, p1.2, e1.1, e1.2⟩

end NunavutVerif.Strop
