import NunavutVerif.Lemmas.Strop
import NunavutVerif.Gen.StropCfg
/-!
# C09 — identifier stropping always yields valid, unreserved, deterministic identifiers

Property theorems only (definitions: `Model/Regex.lean`, `Model/Strop.lean`; generated configuration:
`Gen/StropCfg.lean`; helper lemmas: `Lemmas/Regex.lean`, `Lemmas/Strop.lean`).
-/
namespace NunavutVerif.Strop
open NunavutVerif.Regex NunavutVerif.Gen.StropCfg

/-- T1 (structural, ANY configuration, any handler): a token that `strop` returns is not reserved, matches no
reserved pattern of `all` / its id type, and no encoding rule of `all` / its id type matches at its start.
(For the code as found this holds only when no failure handler supplied the token — `stropTraceBeforeFix`,
see the witness below.) -/
theorem C09_structural_recheck (cfg : Cfg) (tok ty r : Str) (h : strop cfg tok ty = .ok r) :
    isReserved cfg r = false ∧
    patDry cfg tyAll r = false ∧ patDry cfg (lowerAscii ty) r = false ∧
    encodeDry cfg tyAll r = false ∧ encodeDry cfg (lowerAscii ty) r = false := by
  obtain ⟨g, hg⟩ := strop_ok_iff.mp h
  exact stropTrace_rechecked hg

/-- T2 (the three shipped configurations as generated from the tree under check, every non-empty token, every
id type incl. unknown ones): whatever `strop` returns is `[A-Za-z_][A-Za-z0-9_]*`, is not a reserved identifier
and matches no reserved pattern of `all` / its id type (`acceptable`) — handler paths included. -/
theorem C09_shipped_valid_unreserved (cfg : Cfg) (hcfg : cfg = cfgC ∨ cfg = cfgCpp ∨ cfg = cfgPy)
    (tok ty r : Str) (ht : tok ≠ []) (h : strop cfg tok ty = .ok r) :
    acceptable cfg (lowerAscii ty) r = true := by
  obtain ⟨g, hg⟩ := strop_ok_iff.mp h
  have h2 := stropTrace_rechecked hg
  have h1 : isIdent r = true := by
    rcases hcfg with rfl | rfl | rfl
    · exact stropTrace_ident wordCfgC nonWordRuleC catchesDigitC ht hg
    · exact stropTrace_ident wordCfgCpp nonWordRuleCpp catchesDigitCpp ht hg
    · exact stropTrace_ident wordCfgPy nonWordRulePy catchesDigitPy ht hg
  simp [acceptable, h1, h2.1, h2.2.1, h2.2.2.1]

/-- T2 for any configuration that has the three recognisable ingredients (prefix / suffix / encoding prefix /
whitespace character made of word characters; an `all` encoding rule `[K]+` whose complement is word
characters; a leading ASCII digit caught by an `all` pattern or encoding rule) — e.g. the override stream of
the harness with word-character prefixes. -/
theorem C09_valid_unreserved_of_ingredients (cfg : Cfg) (hw : WordCfg cfg) (hr : HasNonWordRule cfg)
    (hd : CatchesLeadingDigit cfg) (tok ty r : Str) (ht : tok ≠ []) (h : strop cfg tok ty = .ok r) :
    acceptable cfg (lowerAscii ty) r = true := by
  obtain ⟨g, hg⟩ := strop_ok_iff.mp h
  have h2 := stropTrace_rechecked hg
  have h1 := stropTrace_ident hw hr hd ht hg
  simp [acceptable, h1, h2.1, h2.2.1, h2.2.2.1]

/-- T3 (fixed point, ANY configuration): a token that is not reserved, matches no reserved pattern of `all` /
its id type and in which no encoding rule of `all` / its id type matches anywhere is returned unchanged, with
no handler involved.  (In particular every token that satisfies `acceptable` and `encodingFree`.) -/
theorem C09_fixed_point (cfg : Cfg) (tok ty : Str) (hty : lowerAscii ty ≠ tyAll)
    (hres : isReserved cfg tok = false) (hp1 : patDry cfg tyAll tok = false)
    (hp2 : patDry cfg (lowerAscii ty) tok = false) (henc : encodingFree cfg (lowerAscii ty) tok = true) :
    strop cfg tok ty = .ok tok ∧ stropTrace cfg tok ty = .ok (tok, false) := by
  have h := strop_fixed hty hres hp1 hp2 henc
  exact ⟨by simp [strop, h, Except.map], h⟩

/-- T3 in the property's words. -/
theorem C09_acceptable_unchanged (cfg : Cfg) (tok ty : Str) (hty : lowerAscii ty ≠ tyAll)
    (hacc : acceptable cfg (lowerAscii ty) tok = true) (henc : encodingFree cfg (lowerAscii ty) tok = true) :
    strop cfg tok ty = .ok tok := by
  simp only [acceptable, Bool.and_eq_true, Bool.not_eq_true'] at hacc
  exact (C09_fixed_point cfg tok ty hty hacc.1.1.2 hacc.1.2 hacc.2 henc).1

/-- The id type `all` (any ASCII spelling) is refused. -/
theorem C09_type_all_is_value_error (cfg : Cfg) (tok ty : Str) (hty : lowerAscii ty = tyAll) :
    strop cfg tok ty = .error .valueError := by
  simp [strop, stropTrace, stropTraceBeforeFix, hty, Except.map]

/-- For the shipped configurations the proposed fix changes nothing, on any input: no reserved identifier has
the form of a handler token (`_`, or `_` + a character that is neither `_` nor `A-Z`) and no reserved pattern or
encoding rule can match at the start of one (`handlerSafe`, decided over the whole generated tables); py has no
handler. -/
theorem C09_shipped_fix_is_identity (cfg : Cfg) (hcfg : cfg = cfgC ∨ cfg = cfgCpp ∨ cfg = cfgPy) (tok ty : Str) :
    stropBeforeFix cfg tok ty = strop cfg tok ty := by
  unfold stropBeforeFix strop
  rcases hcfg with rfl | rfl | rfl
  · rw [stropTrace_eq_beforeFix handlerSafeC]
  · rw [stropTrace_eq_beforeFix handlerSafeCpp]
  · rw [stropTrace_eq_beforeFix_of_no_handler rfl rfl]

/-- T2 for the code as found (`stropBeforeFix`), shipped configurations. -/
theorem C09_shipped_valid_unreserved_before_fix (cfg : Cfg) (hcfg : cfg = cfgC ∨ cfg = cfgCpp ∨ cfg = cfgPy)
    (tok ty r : Str) (ht : tok ≠ []) (h : stropBeforeFix cfg tok ty = .ok r) :
    acceptable cfg (lowerAscii ty) r = true := by
  rw [C09_shipped_fix_is_identity cfg hcfg] at h
  exact C09_shipped_valid_unreserved cfg hcfg tok ty r ht h

/-! ### non-vacuity: the theorems' hypotheses are met by non-trivial runs (strings as code points) -/
section examples
private def lit (x : String) : Str := x.toList.map Char.toNat

-- keyword, prefix: `for` ↦ `_for`; suffix: `if` ↦ `if_`
example : strop cfgC (lit "for") (lit "any") = .ok (lit "_for") := by decide +kernel
example : strop cfgPy (lit "if") (lit "any") = .ok (lit "if_") := by decide +kernel
-- encoding, then a reserved pattern of C++ (`^\d{1}`): `1 a-` ↦ `_1_azX002D`
example : strop cfgCpp (lit "1 a-") (lit "path") = .ok (lit "_1_azX002D") := by decide +kernel
example : strop cfgC (lit "1 a-") (lit "path") = .ok (lit "zX0031_azX002D") := by decide +kernel
-- typed patterns: `isfoo` is reserved for functions only
example : strop cfgC (lit "isfoo") (lit "function") = .ok (lit "_isfoo") := by decide +kernel
example : strop cfgC (lit "isfoo") (lit "macro") = .ok (lit "isfoo") := by decide +kernel
example : strop cfgC (lit "isfoo") (lit "ANY") = .ok (lit "_isfoo") := by decide +kernel
-- the failure handler fires and its token survives the final verification
example : stropTrace cfgC (lit "__Bool") (lit "any") = .ok (lit "_bool", true) := by decide +kernel
example : stropTrace cfgCpp (lit "_A") (lit "any") = .ok (lit "_a", true) := by decide +kernel
-- fixed point and its side condition: `a__` is a C identifier but C++'s rule `_{2,}$` encodes it
example : acceptable cfgCpp (lit "any") (lit "abc") = true ∧ encodingFree cfgCpp (lit "any") (lit "abc") = true := by decide +kernel
example : acceptable cfgCpp (lit "any") (lit "a__") = true ∧ encodingFree cfgCpp (lit "any") (lit "a__") = false ∧
    strop cfgCpp (lit "a__") (lit "any") = .ok (lit "azX005FzX005F") := by decide +kernel
example : strop cfgC (lit "x") (lit "All") = .error .valueError := by decide +kernel
end examples

/-! ### The defect of the code as found (regression witness, replayed on the implementation by the harness)

C configuration with the single extra reserved identifier `_for`: `for` ↦ `_for` ↦ `__for` (keyword, twice)
↦ `___for` (pattern `^__`) ↦ handler ↦ `_for`, which is reserved, ↦ handler again ↦ `_for`, returned. -/
def cfgWitness : Cfg := { cfgC with reserved := [95, 102, 111, 114] :: cfgC.reserved }

example : stropBeforeFix cfgWitness [102, 111, 114] [97, 110, 121] = .ok [95, 102, 111, 114] ∧
    isReserved cfgWitness [95, 102, 111, 114] = true := by decide +kernel

/-- the repaired code raises instead -/
example : strop cfgWitness [102, 111, 114] [97, 110, 121] = .error .illegalToken := by decide +kernel

end NunavutVerif.Strop
